package beacon

// C06, second part: the relay-entry-requested handler of the real
// beacon.Initialize (confirmCurrentRelayRequest, the real event.Deduplicator,
// node.IsInGroup / GenerateRelayEntry) driven by a scripted beacon chain.
// Observed at "signing started for request (start block, previous entry)":
// every distinct request has its own signing group, so the broadcast channel
// name GenerateRelayEntry asks the network provider for identifies the
// request; the provider refuses the channel, which ends the signing attempt
// right after its start.

import (
	"context"
	"encoding/binary"
	"encoding/hex"
	"errors"
	"fmt"
	"math/big"
	"runtime"
	"strings"
	"sync"
	"testing"
	"testing/synctest"
	"time"

	bn256 "github.com/ethereum/go-ethereum/crypto/bn256/cloudflare"
	"github.com/keep-network/keep-common/pkg/persistence"

	beaconchain "github.com/keep-network/keep-core/pkg/beacon/chain"
	"github.com/keep-network/keep-core/pkg/beacon/dkg"
	"github.com/keep-network/keep-core/pkg/beacon/event"
	"github.com/keep-network/keep-core/pkg/beacon/registry"
	"github.com/keep-network/keep-core/pkg/chain"
	"github.com/keep-network/keep-core/pkg/generator"
	"github.com/keep-network/keep-core/pkg/net"
	"github.com/keep-network/keep-core/pkg/protocol/group"
	"github.com/keep-network/keep-core/pkg/subscription"

	"verifsim"
)

func init() {
	verifScenarios["C06"] = verifsim.Scenario{Bubble: true, Fn: c06Run}
}

const c06Groups = 16

// ---- fixtures: one group membership per possible request (built once) ----

var (
	c06FixOnce     sync.Once
	c06Memberships [][]byte // marshalled registry.Membership
	c06GroupKeys   [][]byte
)

func c06ChannelName(i int) string { return fmt.Sprintf("c06-request-%02d", i) }

func c06Fixtures() {
	c06FixOnce.Do(func() {
		for i := 0; i < c06Groups; i++ {
			signer := dkg.NewThresholdSigner(
				group.MemberIndex(1),
				new(bn256.G2).ScalarBaseMult(big.NewInt(int64(10+i))),
				big.NewInt(1),
				make(map[group.MemberIndex]*bn256.G2),
				[]chain.Address{"address1", "address2"},
			)
			b, err := (&registry.Membership{Signer: signer, ChannelName: c06ChannelName(i)}).Marshal()
			if err != nil {
				panic(err)
			}
			c06Memberships = append(c06Memberships, b)
			c06GroupKeys = append(c06GroupKeys, signer.GroupPublicKeyBytes())
		}
	})
}

type c06Descriptor struct {
	i       int
	content []byte
}

func (d *c06Descriptor) Name() string             { return fmt.Sprintf("membership_%d", d.i) }
func (d *c06Descriptor) Directory() string        { return fmt.Sprintf("group_%d", d.i) }
func (d *c06Descriptor) Content() ([]byte, error) { return d.content, nil }

type c06Persistence struct{}

func (c06Persistence) Save([]byte, string, string) error     { return nil }
func (c06Persistence) Snapshot([]byte, string, string) error { return nil }
func (c06Persistence) Archive(string) error                  { return nil }
func (c06Persistence) Delete(string, string) error           { return nil }
func (c06Persistence) ReadAll() (<-chan persistence.DataDescriptor, <-chan error) {
	data := make(chan persistence.DataDescriptor, len(c06Memberships))
	errs := make(chan error)
	for i, b := range c06Memberships {
		data <- &c06Descriptor{i, b}
	}
	close(data)
	close(errs)
	return data, errs
}

// ---- scripted chain + network provider ----

type c06Req struct {
	start uint64
	prev  string // hex
	grp   int    // index of the signing group (= identity of the request)
}

func (q c06Req) String() string { return fmt.Sprintf("(start=%d prev=%s)", q.start, q.prev) }

// c06Consult is one consultation of the chain by the deduplicator.
type c06Consult struct {
	gotPrev, gotStart bool
	ansPrev           string
	ansStart          uint64
	failed            bool
	consumed          bool
}

type c06Sim struct {
	beaconchain.Interface // nil: anything not scripted below must not be called
	net.Provider          // nil likewise

	r  *verifsim.Run
	mu sync.Mutex

	cur     c06Req // current request on the chain
	handler func(*event.RelayEntryRequested)
	reqs    []c06Req // by group index

	consult *c06Consult // most recent consultation
	// reference model: the last request signing was started for
	has     bool
	last    c06Req
	started map[int]int // group index -> signing starts
}

func c06CalledFrom(fn string) bool {
	pcs := make([]uintptr, 12)
	n := runtime.Callers(2, pcs)
	frames := runtime.CallersFrames(pcs[:n])
	for {
		f, more := frames.Next()
		if strings.Contains(f.Function, fn) {
			return true
		}
		if !more {
			return false
		}
	}
}

func (s *c06Sim) OnRelayEntryRequested(h func(*event.RelayEntryRequested)) subscription.EventSubscription {
	s.mu.Lock()
	s.handler = h
	s.mu.Unlock()
	return subscription.NewEventSubscription(func() {})
}
func (s *c06Sim) OnDKGStarted(func(*event.DKGStarted)) subscription.EventSubscription {
	return subscription.NewEventSubscription(func() {})
}
func (s *c06Sim) OnGroupRegistered(func(*event.GroupRegistration)) subscription.EventSubscription {
	return subscription.NewEventSubscription(func() {})
}
func (s *c06Sim) IsEntryInProgress() (bool, error)                        { return false, nil }
func (s *c06Sim) OperatorToStakingProvider() (chain.Address, bool, error) { return "0xAA", true, nil }
func (s *c06Sim) IsOperatorInPool() (bool, error)                         { return true, nil }
func (s *c06Sim) IsOperatorUpToDate() (bool, error)                       { return true, nil }
func (s *c06Sim) IsEligibleForRewards() (bool, error)                     { return true, nil }
func (s *c06Sim) BlockCounter() (chain.BlockCounter, error) {
	// MonitorRelayEntry (timeout reporting) is not part of this property
	return nil, errors.New("c06: no block counter")
}

// CurrentRequestStartBlock is asked by confirmCurrentRelayRequest (in the
// goroutine that delivers the event) and by the deduplicator (second query of
// a consultation). Calls are serialised by the simulator (one turn at a
// time), so drawing the fault from the tape here is deterministic.
func (s *c06Sim) CurrentRequestStartBlock() (*big.Int, error) {
	dedup := c06CalledFrom("NotifyRelayEntryStarted")
	s.mu.Lock()
	defer s.mu.Unlock()
	if dedup {
		c := s.consult
		if c == nil {
			c = &c06Consult{}
			s.consult = c
		}
		if s.r.T.Chance("rpc-failure-start-block", 1, 6) {
			c.failed = true
			s.r.Fault("rpc-failure-in-consultation")
			s.r.Logf("  chain: start block query of the consultation FAILS")
			return nil, errors.New("c06: injected RPC failure (start block)")
		}
		c.ansStart, c.gotStart = s.cur.start, true
		s.r.Logf("  chain: consultation answers prev=%s start=%d", c.ansPrev, c.ansStart)
		return new(big.Int).SetUint64(s.cur.start), nil
	}
	if s.r.T.Chance("rpc-failure-confirmation", 1, 10) {
		s.r.Fault("rpc-failure-in-start-block-confirmation")
		return nil, errors.New("c06: injected RPC failure (confirmation)")
	}
	return new(big.Int).SetUint64(s.cur.start), nil
}

// CurrentRequestPreviousEntry is asked only by the deduplicator: it opens a
// consultation.
func (s *c06Sim) CurrentRequestPreviousEntry() ([]byte, error) {
	s.mu.Lock()
	defer s.mu.Unlock()
	c := &c06Consult{}
	s.consult = c
	if s.r.T.Chance("rpc-failure-previous-entry", 1, 6) {
		c.failed = true
		s.r.Fault("rpc-failure-in-consultation")
		s.r.Logf("  chain: previous entry query of the consultation FAILS")
		return nil, errors.New("c06: injected RPC failure (previous entry)")
	}
	c.ansPrev, c.gotPrev = s.cur.prev, true
	b, _ := hex.DecodeString(s.cur.prev)
	return b, nil
}

// BroadcastChannelFor is the first thing node.GenerateRelayEntry does for a
// request it decided to sign: "signing started". The oracle runs here.
func (s *c06Sim) BroadcastChannelFor(name string) (net.BroadcastChannel, error) {
	s.mu.Lock()
	defer s.mu.Unlock()
	grp := -1
	for i := 0; i < c06Groups; i++ {
		if c06ChannelName(i) == name {
			grp = i
		}
	}
	if grp < 0 || grp >= len(s.reqs) {
		s.r.Failf("C06:signing-started-for-unknown-request", "signing started on channel %q which belongs to no request of the history", name)
		return nil, errors.New("c06: no network")
	}
	q := s.reqs[grp]
	s.started[grp]++
	s.r.Logf("  SIGNING STARTED for %v", q)
	c := s.consult
	switch {
	case !s.has:
		s.r.Probe("first-request-signed")
	case q.start <= s.last.start:
		if s.started[grp] > 1 {
			s.r.Failf("C06:signing-started-twice", "signing started a second time for request %v (last processed request: %v)", q, s.last)
		} else {
			s.r.Failf("C06:signing-started-for-older-request", "signing started for request %v although request %v had already been processed", q, s.last)
		}
	case q.prev != s.last.prev:
		s.r.Probe("new-previous-entry-signed")
	default:
		// later request reusing the previous entry: only with a successful
		// consultation that reported exactly this request as current
		switch {
		case c == nil || c.consumed:
			s.r.Failf("C06:signing-started-for-unconfirmed-request", "signing started for %v, which reuses the previous entry of the processed request %v, without any consultation of the chain", q, s.last)
		case c.failed:
			s.r.Failf("C06:signing-started-after-failed-chain-consultation", "signing started for %v, which reuses the previous entry of the processed request %v, although the chain consultation FAILED (previous entry obtained: %v, start block obtained: %v)", q, s.last, c.gotPrev, c.gotStart)
		case !c.gotPrev || !c.gotStart || c.ansPrev != q.prev || c.ansStart != q.start:
			s.r.Failf("C06:signing-started-for-unconfirmed-request", "signing started for %v, which reuses the previous entry of the processed request %v, but the chain reported (start=%d prev=%s) as current", q, s.last, c.ansStart, c.ansPrev)
		default:
			s.r.Probe("confirmed-retry-signed")
		}
	}
	if c != nil {
		c.consumed = true
	}
	s.has, s.last = true, q
	return nil, errors.New("c06: no network")
}
func (s *c06Sim) BroadcastChannelForwarderFor(string) {}

func c06Run(t *testing.T, r *verifsim.Run) {
	c06Fixtures()
	tp := r.T
	s := &c06Sim{r: r, started: map[int]int{}}
	gates := verifsim.NewGates()
	defer gates.ReleaseAll()
	ctx, cancel := context.WithCancel(context.Background())
	defer cancel()

	entryN := 0
	newEntry := func() string {
		entryN++
		b := make([]byte, 8)
		copy(b, tp.Bytes("entry", 4))
		binary.BigEndian.PutUint32(b[4:], uint32(entryN))
		return hex.EncodeToString(b)
	}
	entries := []string{newEntry()}
	s.cur = c06Req{start: 0, prev: entries[0], grp: -1}

	if err := Initialize(ctx, s, s, c06Persistence{}, &generator.Scheduler{}); err != nil {
		r.Failf("C06:initialize-failed", "beacon.Initialize: %v", err)
		return
	}
	synctest.Wait()
	s.mu.Lock()
	handler := s.handler
	s.mu.Unlock()
	if handler == nil {
		r.Failf("C06:initialize-failed", "no relay entry requested handler registered")
		return
	}

	height := uint64(1 + tp.Choose("genesis-height", 50))
	var emitted, pending []c06Req
	getCur := func() c06Req {
		s.mu.Lock()
		defer s.mu.Unlock()
		return s.cur
	}
	setCur := func(q c06Req) {
		s.mu.Lock()
		s.cur = q
		s.mu.Unlock()
	}
	// request registers a distinct request (own signing group); ok=false when
	// the groups are used up
	request := func(start uint64, prev string) (c06Req, bool) {
		s.mu.Lock()
		defer s.mu.Unlock()
		for _, q := range s.reqs {
			if q.start == start && q.prev == prev {
				return q, true
			}
		}
		if len(s.reqs) >= c06Groups {
			return c06Req{}, false
		}
		q := c06Req{start: start, prev: prev, grp: len(s.reqs)}
		s.reqs = append(s.reqs, q)
		return q, true
	}
	emit := func(q c06Req) {
		emitted = append(emitted, q)
		pending = append(pending, q)
	}
	nDeliv := 0
	inFlight := 0
	var dmu sync.Mutex
	// deliver hands notifications to the real handler from own goroutines;
	// entry order by tape; each one runs until it blocks (it may sleep in the
	// start block confirmation) before the next is released
	deliver := func(batch []c06Req) {
		var labels []string
		for _, q := range batch {
			q := q
			nDeliv++
			label := fmt.Sprintf("d%03d", nDeliv)
			labels = append(labels, label)
			prevBytes, _ := hex.DecodeString(q.prev)
			dmu.Lock()
			inFlight++
			dmu.Unlock()
			go func() {
				gates.Enter(label)
				defer gates.Leave()
				gates.Point("entry")
				defer func() {
					if p := recover(); p != nil {
						r.Failf("C06:panic", "relay entry requested handler panicked for %v: %v", q, p)
					}
					dmu.Lock()
					inFlight--
					dmu.Unlock()
				}()
				handler(&event.RelayEntryRequested{
					PreviousEntry:  prevBytes,
					GroupPublicKey: c06GroupKeys[q.grp],
					BlockNumber:    q.start,
				})
			}()
		}
		synctest.Wait()
		for len(labels) > 0 {
			i := tp.Choose("sched", len(labels))
			if i != 0 {
				r.Fault("interleave")
			}
			r.Logf(" run delivery %s", labels[i])
			gates.Release(labels[i])
			labels = append(labels[:i], labels[i+1:]...)
			synctest.Wait()
			// distinct instants: deliveries that sleep wake up one at a time
			time.Sleep(time.Millisecond)
			synctest.Wait()
		}
	}
	pickStale := func() c06Req { return emitted[tp.Choose("which-emitted", len(emitted))] }

	steps := 8 + tp.Choose("steps", 25)
	r.Logf("genesis height=%d steps=%d", height, steps)
	for step := 0; step < steps && !r.Failed(); step++ {
		r.Step()
		ev := tp.Weighted("event", 6, 3, 3, 3, 2, 2, 2, 2)
		if len(emitted) == 0 || (ev == 0 && len(pending) == 0) {
			ev = 1
		}
		cur := getCur()
		switch ev {
		case 0:
			q := pending[0]
			pending = pending[1:]
			r.Logf("deliver in order %v chain=%v", q, cur)
			deliver([]c06Req{q})
		case 1: // new entry, new request
			e := newEntry()
			entries = append(entries, e)
			q, ok := request(height+1+uint64(tp.Choose("gap", 3)), e)
			if !ok {
				continue
			}
			height = q.start
			setCur(q)
			emit(q)
			r.AddSim(0, 1)
			r.Logf("chain: new request %v", q)
		case 2: // retry: same previous entry, later block
			if cur.start == 0 {
				continue
			}
			q, ok := request(height+1+uint64(tp.Choose("gap", 4)), cur.prev)
			if !ok {
				continue
			}
			height = q.start
			setCur(q)
			emit(q)
			r.Fault("request-retried-same-entry")
			r.Logf("chain: retried request %v", q)
		case 3:
			q := pickStale()
			r.Fault("stale-or-duplicate-delivery")
			r.Logf("redeliver %v chain=%v", q, cur)
			deliver([]c06Req{q})
		case 4:
			k := 2 + tp.Choose("batch", 2)
			var batch []c06Req
			for i := 0; i < k; i++ {
				switch c := tp.Choose("batch-pick", 3); {
				case c == 0 && len(pending) > 0:
					batch = append(batch, pending[0])
					pending = pending[1:]
				case c == 1 && len(batch) > 0:
					batch = append(batch, batch[0])
				default:
					batch = append(batch, pickStale())
				}
			}
			r.Fault("concurrent-batch")
			r.Logf("concurrent batch %v chain=%v", batch, cur)
			deliver(batch)
		case 5: // reorganisation: an older request is current again
			s.mu.Lock()
			n := len(s.reqs)
			var q c06Req
			if n >= 2 {
				q = s.reqs[tp.Choose("reorg-to", n)]
			}
			s.mu.Unlock()
			if n < 2 {
				continue
			}
			setCur(q)
			height = q.start
			if tp.Chance("replay-notification", 1, 2) {
				emit(q)
			}
			if tp.Chance("height-back", 1, 2) && height > 3 {
				height -= uint64(1 + tp.Choose("back", 2))
			}
			r.Fault("reorg")
			r.Logf("chain: reorganised, current again %v height=%d", q, height)
		case 6: // notification of a request that is not (or no longer) the chain's
			var q c06Req
			var ok bool
			switch tp.Choose("fork-kind", 3) {
			case 0: // same block as the current request, same entry as an older one: minor reorg replaced it
				q, ok = request(cur.start, entries[tp.Choose("old-entry", len(entries))])
			case 1: // same entry, later block
				q, ok = request(cur.start+1+uint64(tp.Choose("gap", 3)), cur.prev)
			default: // same block, brand new entry
				e := newEntry()
				entries = append(entries, e)
				q, ok = request(cur.start, e)
			}
			if !ok || q.start == 0 {
				continue
			}
			emit(q)
			r.Fault("abandoned-fork-notification")
			r.Logf("fork notification %v (chain stays %v)", q, cur)
		case 7: // time passes: confirmations that wait for the chain retry
			d := time.Duration(1+tp.Choose("seconds", 5)) * time.Second
			time.Sleep(d)
			synctest.Wait()
			r.AddSim(int64(d), 0)
			r.Logf("clock +%v", d)
		}
	}
	if r.Failed() {
		return
	}
	// let every pending start block confirmation run out (30 retries, 1 s apart)
	time.Sleep(40 * time.Second)
	synctest.Wait()
	r.AddSim(int64(40*time.Second), 0)
	dmu.Lock()
	left := inFlight
	dmu.Unlock()
	if left != 0 {
		r.Inconclusive("deliveries-still-in-flight")
	}
	s.mu.Lock()
	total := 0
	for _, n := range s.started {
		total += n
	}
	s.mu.Unlock()
	r.Logf("end: %d deliveries, %d signing starts", nDeliv, total)
	cancel()
	synctest.Wait()
}
