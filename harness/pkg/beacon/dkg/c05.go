package dkg

// C05: beacon DKG fate, through the REAL dkg.ExecuteDKG (gjkr.Execute,
// result.Publish, decideMemberFate, resolveGroupOperators) of every live
// member of a group of 3-5 seats held by 1-5 operators (repeated operators).
//
// The key generation itself and the result signing run benignly in lock-step
// (every live member sees each block and each message at once; members that
// are down from the start end up inactive in everybody's result). The faults
// are aimed at the publication: chosen members are starved of supporting
// signatures, their chain submission or registration query fails, submissions
// are mined in tape order, and the stub chain may accept an OUTSIDE result
// with a matching or different key and a tape-chosen misbehaved list. From
// the end of the signing phase on every block of every member, every mining
// and every DKGResultSubmission callback is a separate tape-chosen event, so
// the callback races the member's timeout block.
//
// Oracle: reference model of the statement (c05Expect).

import (
	"bytes"
	"errors"
	"fmt"
	"math/big"
	"sort"
	"testing"
	"testing/synctest"

	"github.com/ipfs/go-log/v2"
	"golang.org/x/crypto/sha3"

	beaconchain "github.com/keep-network/keep-core/pkg/beacon/chain"
	dkgResult "github.com/keep-network/keep-core/pkg/beacon/dkg/result"
	"github.com/keep-network/keep-core/pkg/beacon/event"
	"github.com/keep-network/keep-core/pkg/chain"
	"github.com/keep-network/keep-core/pkg/chain/local_v1"
	"github.com/keep-network/keep-core/pkg/internal/verifadapt"
	"github.com/keep-network/keep-core/pkg/operator"
	"github.com/keep-network/keep-core/pkg/protocol/group"
	"github.com/keep-network/keep-core/pkg/subscription"

	"verifsim"
)

type c05Event struct {
	key        []byte
	misbehaved []uint8
	by         int
}

type c05Tx struct {
	member     int
	key        []byte
	misbehaved []uint8
}

type c05Member struct {
	idx    int
	live   bool
	node   *verifadapt.NetNode
	blocks *verifadapt.NodeBlocks
	ch     *verifadapt.Chan
	sign   chain.Signing

	handlers   map[int]func(*event.DKGResultSubmission)
	nextHandle int

	starved     bool // receives nobody's result signatures
	submitFault bool
	regFault    bool
	neverTold   bool // the chain event never reaches this member

	pubFailed bool      // the member's own publication failed (by construction or by an error the stub returned to it)
	got       *c05Event // event delivered while the member was still running
	pending   bool
	done      bool
	signer    *ThresholdSigner
	err       error
	ownKey    []byte // key this member put into its own result (seen at submission)
}

type c05World struct {
	r       *verifsim.Run
	n, h    int
	step    uint64
	start   uint64
	members []*c05Member
	down    map[int]bool

	accepted *c05Event
	mempool  []*c05Tx
	groupKey []byte // group public key as submitted by the honest members
}

type c05Chain struct {
	beaconchain.Interface
	w *c05World
	m *c05Member
}

func (c *c05Chain) GetConfig() *beaconchain.Config {
	return &beaconchain.Config{GroupSize: c.w.n, HonestThreshold: c.w.h, ResultPublicationBlockStep: c.w.step,
		RelayEntryTimeout: uint64(c.w.n) * c.w.step}
}
func (c *c05Chain) BlockCounter() (chain.BlockCounter, error) { return c.m.blocks, nil }
func (c *c05Chain) Signing() chain.Signing                    { return c.m.sign }
func (c *c05Chain) CalculateDKGResultHash(res *beaconchain.DKGResult) (beaconchain.DKGResultHash, error) {
	return beaconchain.DKGResultHash(sha3.Sum256([]byte(fmt.Sprint(res)))), nil
}
func (c *c05Chain) OnDKGResultSubmitted(h func(*event.DKGResultSubmission)) subscription.EventSubscription {
	m := c.m
	m.nextHandle++
	id := m.nextHandle
	m.handlers[id] = h
	return subscription.NewEventSubscription(func() { delete(m.handlers, id) })
}
func (c *c05Chain) IsGroupRegistered(key []byte) (bool, error) {
	if c.m.regFault {
		c.m.pubFailed = true
		c.w.r.Fault("registration-query-error")
		return false, errors.New("injected: query failed")
	}
	return c.w.accepted != nil && bytes.Equal(c.w.accepted.key, key), nil
}
func (c *c05Chain) SubmitDKGResult(idx beaconchain.GroupMemberIndex, res *beaconchain.DKGResult, sigs map[beaconchain.GroupMemberIndex][]byte) error {
	w, m := c.w, c.m
	m.ownKey = append([]byte(nil), res.GroupPublicKey...)
	if w.groupKey == nil {
		w.groupKey = m.ownKey
	}
	// premise check of the generator: the lock-step key generation was benign
	want := []byte{}
	for i := 1; i <= w.n; i++ {
		if w.down[i] {
			want = append(want, byte(i))
		}
	}
	if !bytes.Equal(want, res.Misbehaved) || !bytes.Equal(w.groupKey, res.GroupPublicKey) {
		w.r.Inconclusive("key-generation-not-benign")
	}
	w.r.Logf("submit member=%d at=%d sigs=%d accepted=%v", m.idx, m.blocks.Height(), len(sigs), w.accepted != nil)
	if m.submitFault {
		m.pubFailed = true
		w.r.Fault("submit-error")
		return errors.New("injected: transaction failed")
	}
	if w.accepted != nil {
		m.pubFailed = true
		w.r.Probe("own-submission-reverted")
		return errors.New("execution reverted: result already submitted")
	}
	w.mempool = append(w.mempool, &c05Tx{member: m.idx, key: m.ownKey, misbehaved: append([]uint8(nil), res.Misbehaved...)})
	return nil
}

func (w *c05World) accept(ev *c05Event) {
	w.accepted = ev
	for _, m := range w.members[1:] {
		if m.live && !m.done && !m.neverTold {
			m.pending = true
		}
	}
}

func (w *c05World) notify(m *c05Member) {
	m.pending = false
	ev := w.accepted
	m.got = ev
	for id := 1; id <= m.nextHandle; id++ {
		if h, ok := m.handlers[id]; ok {
			go h(&event.DKGResultSubmission{MemberIndex: uint32(ev.by), GroupPublicKey: ev.key, Misbehaved: ev.misbehaved, BlockNumber: m.blocks.Height()})
		}
	}
	synctest.Wait()
}

// c05Expect is the reference model: (wantSigner, operators).
func c05Expect(w *c05World, m *c05Member, selected []chain.Address) (bool, []chain.Address) {
	opsOf := func(excluded func(i int) bool) []chain.Address {
		out := []chain.Address{}
		for i := 1; i <= w.n; i++ { // ascending member index
			if !excluded(i) {
				out = append(out, selected[i-1])
			}
		}
		return out
	}
	if !m.pubFailed {
		// publication succeeded: the member's own operating set
		return true, opsOf(func(i int) bool { return w.down[i] })
	}
	ev := m.got
	if ev == nil { // nothing arrived before the timeout
		return false, nil
	}
	if m.ownKey == nil && w.groupKey != nil {
		m.ownKey = w.groupKey // a starved member never shows its key; the benign run gives everyone the same
	}
	if !bytes.Equal(ev.key, m.ownKey) {
		return false, nil
	}
	mis := map[int]bool{}
	for _, x := range ev.misbehaved {
		mis[int(x)] = true
	}
	if mis[m.idx] {
		return false, nil
	}
	return true, opsOf(func(i int) bool { return mis[i] })
}

func init() {
	verifScenarios["C05"] = verifsim.Scenario{Bubble: true, Fn: c05Run}
}

func c05Run(t *testing.T, r *verifsim.Run) {
	tp := r.T
	if tp.Chance("large-group-mode", 2, 5) {
		c05LargeRun(r)
		return
	}
	w := &c05World{r: r, down: map[int]bool{}}
	w.n = 3 + tp.Weighted("n", 4, 2, 1)
	maxT := (w.n - 1) / 2
	dis := tp.Choose("dishonest-threshold", maxT+1)
	w.h = w.n - dis
	w.step = uint64(1 + tp.Choose("step", 3))
	w.start = uint64(1 + tp.Choose("start", 20))
	need := w.h + (w.n-w.h)/2

	// operators (repeated seats)
	nOps := 1 + tp.Choose("operators", w.n)
	type op struct {
		priv *operator.PrivateKey
		pub  *operator.PublicKey
		addr chain.Address
	}
	ops := []op{}
	for i := 0; i < nOps; i++ {
		priv, pub, err := operator.GenerateKeyPair(local_v1.DefaultCurve)
		if err != nil {
			panic(err)
		}
		ops = append(ops, op{priv, pub, local_v1.NewSigner(priv).Address()})
	}
	sn := verifadapt.NewNet()
	w.members = make([]*c05Member, w.n+1)
	selected := make([]chain.Address, w.n)
	layout := []int{}
	nDown := 0
	for i := 1; i <= w.n; i++ {
		oi := (i - 1) % nOps
		if i > nOps {
			oi = tp.Choose("seat-operator", nOps)
		}
		layout = append(layout, oi)
		o := ops[oi]
		m := &c05Member{idx: i, live: true, handlers: map[int]func(*event.DKGResultSubmission){}}
		m.node = sn.AddNodeWithKey(o.priv, o.pub)
		m.ch = m.node.Channel("c05")
		m.blocks = verifadapt.NewNodeBlocks(w.start)
		m.sign = local_v1.NewSigner(o.priv)
		selected[i-1] = o.addr
		if nDown < dis && tp.Chance("down", 1, 4) {
			m.live = false
			w.down[i] = true
			nDown++
			r.Fault("member-down")
		} else {
			m.starved = tp.Chance("starved", 1, 4)
			m.submitFault = tp.Chance("submit-fault", 1, 5)
			m.regFault = tp.Chance("reg-fault", 1, 12)
			m.neverTold = tp.Chance("never-told", 1, 8)
		}
		w.members[i] = m
	}
	live := w.n - nDown
	for _, m := range w.members[1:] {
		if !m.live {
			continue
		}
		sigs := live
		if m.starved {
			sigs = 1
			r.Fault("starved-of-signatures")
		}
		if sigs < need {
			m.pubFailed = true // by construction: too few supporting signatures
		}
	}
	r.Logf("cfg n=%d h=%d step=%d start=%d need=%d layout=%v down=%d", w.n, w.h, w.step, w.start, need, layout, nDown)

	logger := log.Logger("verif-c05")
	seed := big.NewInt(int64(1000 + tp.Choose("seed", 1000)))
	for _, m := range w.members[1:] {
		if !m.live {
			continue
		}
		m := m
		go func() {
			defer func() {
				if p := recover(); p != nil {
					r.Failf("panic:ExecuteDKG", "member %d: %v", m.idx, p)
					m.done = true
				}
			}()
			mv := group.NewMembershipValidator(logger, selected, m.sign)
			m.signer, m.err = ExecuteDKG(logger, seed, group.MemberIndex(m.idx), w.start, &c05Chain{w: w, m: m}, m.ch, mv, selected)
			m.done = true
		}()
	}
	synctest.Wait()

	sigType := (&dkgResult.DKGResultHashSignatureMessage{}).Type()
	deliverAll := func() {
		for round := 0; round < 6; round++ {
			envs := sn.Drain()
			if len(envs) == 0 {
				return
			}
			for _, e := range envs {
				for _, m := range w.members[1:] {
					if !m.live || m.done || m.node.Index == e.From {
						continue
					}
					if e.Type == sigType && m.starved {
						continue
					}
					sn.Deliver(e, m.node.Index)
				}
			}
			synctest.Wait()
		}
	}
	outsideEvent := func() *c05Event {
		ev := &c05Event{by: 1 + tp.Choose("outside-submitter", w.n)}
		key := w.groupKey
		if key == nil {
			key = []byte{}
		}
		if tp.Chance("outside-key-differs", 1, 3) || len(key) == 0 {
			switch tp.Choose("outside-key-variant", 3) {
			case 0:
				ev.key = append([]byte{0x42}, key...)
			case 1:
				ev.key = append([]byte(nil), key...)
				if len(ev.key) > 0 {
					ev.key[len(ev.key)-1] ^= 1
				}
			default:
				ev.key = append([]byte(nil), key[:len(key)/2]...)
			}
			r.Fault("outside-result-different-key")
		} else {
			ev.key = key
			r.Fault("outside-result-same-key")
		}
		perm := tp.Perm("outside-misbehaved", w.n)
		k := tp.Choose("outside-misbehaved-count", w.n-w.h+1)
		for _, p := range perm[:k] {
			ev.misbehaved = append(ev.misbehaved, uint8(p+1))
		}
		sort.Slice(ev.misbehaved, func(a, b int) bool { return ev.misbehaved[a] < ev.misbehaved[b] })
		return ev
	}

	// ---- phase A: lock-step key generation and result signing
	ready := func(m *c05Member) bool {
		if !m.live || m.done || m.nextHandle >= 2 {
			return true
		}
		if m.nextHandle < 1 || !m.pubFailed {
			return false
		}
		h := m.blocks.Height()
		for _, tg := range m.blocks.PendingTargets() {
			if tg <= h+6 {
				return false
			}
		}
		return true
	}
	height := w.start
	for {
		all := true
		for _, m := range w.members[1:] {
			if !ready(m) {
				all = false
			}
		}
		if all {
			break
		}
		if height > w.start+140 {
			r.Inconclusive("lock-step-cap")
			return
		}
		height++
		for _, m := range w.members[1:] {
			if m.live && !m.done {
				m.blocks.Advance(height)
			}
		}
		r.AddSim(0, 1)
		synctest.Wait()
		deliverAll()
	}
	// the group key as the members computed it (all equal in a benign run):
	// learn it from anybody's signer-to-be is impossible before the end, so the
	// outside event takes it from the first submission; if nobody submitted yet
	// let member-independent knowledge come from a finished member later.
	r.Logf("publication stage reached at block %d", height)

	// ---- phase B: one event at a time
	outside := tp.Weighted("outside-result", 3, 2)
	horizon := height + uint64(w.n)*w.step + 8
	for steps := 0; ; steps++ {
		if r.Failed() {
			return
		}
		open := 0
		for _, m := range w.members[1:] {
			if m.live && !m.done {
				open++
			}
		}
		if open == 0 {
			break
		}
		if steps > 600 {
			r.Inconclusive("step-cap")
			return
		}
		r.Step()
		type ev struct {
			kind string
			a    int
		}
		kinds := map[string][]ev{}
		for _, m := range w.members[1:] {
			if !m.live || m.done {
				continue
			}
			if m.blocks.Height() < horizon {
				kinds["block"] = append(kinds["block"], ev{"block", m.idx})
			}
			if m.pending && len(m.handlers) > 0 {
				kinds["notify"] = append(kinds["notify"], ev{"notify", m.idx})
			}
		}
		for ti := range w.mempool {
			kinds["mine"] = append(kinds["mine"], ev{"mine", ti})
		}
		if outside == 1 && w.accepted == nil && w.groupKey != nil {
			kinds["outside"] = []ev{{"outside", 0}}
		}
		order := []string{"block", "mine", "notify", "outside"}
		weight := map[string]int{"block": 8, "mine": 4, "notify": 4, "outside": 2}
		avail, ws := []string{}, []int{}
		for _, kd := range order {
			if len(kinds[kd]) > 0 {
				avail = append(avail, kd)
				ws = append(ws, weight[kd])
			}
		}
		if len(avail) == 0 {
			r.Inconclusive("no-events")
			return
		}
		kd := avail[tp.Weighted("event", ws...)]
		pick := kinds[kd][tp.Choose(kd, len(kinds[kd]))]
		switch kd {
		case "block":
			m := w.members[pick.a]
			m.blocks.Advance(m.blocks.Height() + 1)
			r.AddSim(0, 1)
			synctest.Wait()
			r.Logf("block member=%d -> %d done=%v", m.idx, m.blocks.Height(), m.done)
		case "mine":
			tx := w.mempool[pick.a]
			w.mempool = append(w.mempool[:pick.a:pick.a], w.mempool[pick.a+1:]...)
			if w.accepted == nil {
				w.accept(&c05Event{key: tx.key, misbehaved: tx.misbehaved, by: tx.member})
				r.Logf("mined tx of member=%d: accepted", tx.member)
			} else {
				r.Logf("mined tx of member=%d: reverted", tx.member)
			}
		case "notify":
			m := w.members[pick.a]
			failedBefore := m.pubFailed
			w.notify(m)
			if failedBefore {
				r.Probe("event-reached-member-whose-publication-failed")
			}
			r.Logf("notify member=%d done=%v", m.idx, m.done)
		case "outside":
			outside = 0
			e := outsideEvent()
			w.accept(e)
			r.Logf("outside result accepted: same-key=%v misbehaved=%v", bytes.Equal(e.key, w.groupKey), e.misbehaved)
		}
	}
	synctest.Wait()

	c05Judge(w, selected, fmt.Sprintf("layout=%v", layout))
}

// c05Judge compares every finished member with the reference model.
func c05Judge(w *c05World, selected []chain.Address, cfg string) {
	r := w.r
	for _, m := range w.members[1:] {
		if !m.live || !m.done {
			continue
		}
		wantSigner, wantOps := c05Expect(w, m, selected)
		desc := fmt.Sprintf("member %d (n=%d h=%d %s down=%v publication-failed=%v event=%s)", m.idx, w.n, w.h, cfg, c05Keys(w.down), m.pubFailed, c05EvString(w, m.got))
		if m.pubFailed {
			r.Probe("publication-failed")
			if wantSigner {
				r.Probe("failed-publication-kept-membership")
			} else if m.got == nil {
				r.Probe("failed-publication-timed-out")
			} else {
				r.Probe("failed-publication-dropped-by-event")
			}
		}
		if !wantSigner {
			if m.err == nil {
				r.Failf("C05:membership-kept-against-chain", "%s: ExecuteDKG returned a signer, the statement demands an error", desc)
				return
			}
			continue
		}
		if m.err != nil {
			r.Failf("C05:membership-dropped-wrongly", "%s: ExecuteDKG returned error %q, the statement demands a signer", desc, m.err)
			return
		}
		got := m.signer.GroupOperators()
		if len(got) != len(wantOps) {
			r.Failf("C05:operator-list", "%s: GroupOperators has %d entries, want %d", desc, len(got), len(wantOps))
			return
		}
		for i := range got {
			if got[i] != wantOps[i] {
				r.Failf("C05:operator-list", "%s: GroupOperators differs at position %d from the selected operators of the non-misbehaving members in index order", desc, i)
				return
			}
		}
		if m.signer.MemberID() != group.MemberIndex(m.idx) {
			r.Failf("C05:signer-index", "%s: signer has member index %d", desc, m.signer.MemberID())
			return
		}
	}
}

func c05Keys(m map[int]bool) []int {
	out := []int{}
	for k := range m {
		out = append(out, k)
	}
	sort.Ints(out)
	return out
}

func c05EvString(w *c05World, e *c05Event) string {
	if e == nil {
		return "none"
	}
	return fmt.Sprintf("{same-key=%v misbehaved=%v by=%d}", bytes.Equal(e.key, w.groupKey), e.misbehaved, e.by)
}
