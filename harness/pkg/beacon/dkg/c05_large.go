package dkg

// C05, second mode: production-size and larger groups (up to 255 seats, the
// range of a member index). A full ExecuteDKG with that many members is out of
// reach, so this mode runs the part of ExecuteDKG that follows a FAILED
// publication - the DKGResultSubmission subscription feeding the unbuffered
// channel, the REAL decideMemberFate (with waitForDkgResultEvent racing the
// timeout block on the member's block counter) and the REAL
// resolveGroupOperators - on fabricated gjkr results (group bookkeeping and a
// public key are all these functions read) for a handful of members under
// test per run, chosen at and around the boundary indexes 1, 63, 64, 65, 127,
// 128, 255, n. The stub chain accepts an outside result with equal/different
// key and a misbehaved list that also favours those indexes; the callback and
// the member's blocks are separate tape-chosen events. Same reference model
// as the first mode (c05Expect).

import (
	"fmt"
	"sort"
	"testing/synctest"

	bn256 "github.com/ethereum/go-ethereum/crypto/bn256/cloudflare"

	"github.com/keep-network/keep-core/pkg/beacon/event"
	"github.com/keep-network/keep-core/pkg/beacon/gjkr"
	"github.com/keep-network/keep-core/pkg/chain"
	"github.com/keep-network/keep-core/pkg/internal/verifadapt"
	"github.com/keep-network/keep-core/pkg/protocol/group"

	"math/big"

	"verifsim"
)

func c05Boundary(tp *verifsim.Tape, label string, n int) int {
	cands := []int{1, 2, 63, 64, 65, 66, 127, 128, 129, 254, 255, n - 1, n}
	ok := []int{}
	for _, c := range cands {
		if c >= 1 && c <= n {
			ok = append(ok, c)
		}
	}
	if tp.Chance(label+"-boundary", 2, 3) {
		return ok[tp.Choose(label+"-which", len(ok))]
	}
	return 1 + tp.Choose(label, n)
}

func c05LargeRun(r *verifsim.Run) {
	tp := r.T
	w := &c05World{r: r, down: map[int]bool{}}
	sizes := []int{64, 65, 100, 128, 129, 255, 33, 8}
	w.n = sizes[tp.Choose("large-n", len(sizes))]
	minH := w.n/2 + 1
	w.h = minH + tp.Choose("large-h", w.n-minH+1)
	w.step = uint64(1 + tp.Choose("step", 2))
	w.start = uint64(1 + tp.Choose("start", 20))
	dis := w.n - w.h

	// operators with repeated seats: address strings are enough here
	nOps := 1 + tp.Choose("operators", 12)
	selected := make([]chain.Address, w.n)
	salt := tp.Uint64("layout")
	for i := 0; i < w.n; i++ {
		selected[i] = chain.Address(fmt.Sprintf("operator-%d", ((salt+uint64(i)*2654435761)>>5)%uint64(nOps)))
	}
	pk := new(bn256.G2).ScalarBaseMult(big.NewInt(int64(11 + tp.Choose("key", 500))))
	w.groupKey = pk.Marshal()

	// members under test
	k := 1 + tp.Choose("members-under-test", 4)
	w.members = []*c05Member{nil}
	used := map[int]bool{}
	for len(w.members)-1 < k {
		idx := c05Boundary(tp, "member", w.n)
		if used[idx] {
			idx = 1 + tp.Choose("member-fallback", w.n)
			if used[idx] {
				break
			}
		}
		used[idx] = true
		m := &c05Member{idx: idx, live: true, pubFailed: true, ownKey: w.groupKey,
			handlers: map[int]func(*event.DKGResultSubmission){}, blocks: verifadapt.NewNodeBlocks(w.start)}
		m.neverTold = tp.Chance("never-told", 1, 8)
		w.members = append(w.members, m)
	}
	under := []int{}
	for _, m := range w.members[1:] {
		under = append(under, m.idx)
	}
	r.Logf("cfg large n=%d h=%d step=%d start=%d operators=%d under-test=%v", w.n, w.h, w.step, w.start, nOps, under)
	r.Probe("large-group-mode")

	for _, m := range w.members[1:] {
		m := m
		// the member's own view: a few members of its own marked IA/DQ (must not matter)
		g := group.NewGroup(dis, w.n)
		for j := 0; j < dis && j < 3; j++ {
			if tp.Chance("own-mark", 1, 3) {
				x := c05Boundary(tp, "own-marked", w.n)
				if x != m.idx {
					g.MarkMemberAsInactive(group.MemberIndex(x))
				}
			}
		}
		res := &gjkr.Result{Group: g, GroupPublicKey: pk}
		ch := &c05Chain{w: w, m: m}
		go func() {
			defer func() {
				if p := recover(); p != nil {
					r.Failf("panic:decideMemberFate", "member %d of %d: %v", m.idx, w.n, p)
				}
				m.done = true
			}()
			// what ExecuteDKG does around a failed publication
			dkgResultChannel := make(chan *event.DKGResultSubmission)
			sub := ch.OnDKGResultSubmitted(func(e *event.DKGResultSubmission) { dkgResultChannel <- e })
			defer sub.Unsubscribe()
			operating, err := decideMemberFate(group.MemberIndex(m.idx), res, dkgResultChannel, w.start, ch, m.blocks)
			if err != nil {
				m.err = err
				return
			}
			ops, err := resolveGroupOperators(selected, operating, ch.GetConfig())
			if err != nil {
				m.err = fmt.Errorf("failed to resolve group operators: [%v]", err)
				return
			}
			m.signer = &ThresholdSigner{memberIndex: group.MemberIndex(m.idx), groupOperators: ops}
		}()
		synctest.Wait()
	}

	outside := func() *c05Event {
		ev := &c05Event{by: c05Boundary(tp, "outside-submitter", w.n)}
		if tp.Chance("outside-key-differs", 1, 4) {
			ev.key = append([]byte(nil), w.groupKey...)
			ev.key[len(ev.key)-1] ^= 1
			r.Fault("outside-result-different-key")
		} else {
			ev.key = w.groupKey
			r.Fault("outside-result-same-key")
		}
		maxMis := dis
		if maxMis > 6 {
			maxMis = 6
		}
		cnt := tp.Choose("outside-misbehaved-count", maxMis+1)
		seen := map[int]bool{}
		for len(ev.misbehaved) < cnt {
			var x int
			switch tp.Weighted("misbehaved-pick", 3, 2, 2) {
			case 0:
				x = c05Boundary(tp, "misbehaved", w.n)
			case 1:
				x = under[tp.Choose("misbehaved-under-test", len(under))]
			default:
				x = 1 + tp.Choose("misbehaved-any", w.n)
			}
			if seen[x] {
				cnt--
				continue
			}
			seen[x] = true
			ev.misbehaved = append(ev.misbehaved, uint8(x))
			if x >= 64 {
				r.Probe("misbehaved-index-64-or-above")
			}
		}
		if tp.Chance("misbehaved-sorted", 2, 3) {
			sort.Slice(ev.misbehaved, func(a, b int) bool { return ev.misbehaved[a] < ev.misbehaved[b] })
		}
		return ev
	}

	wantOutside := tp.Chance("outside-result", 5, 6)
	for steps := 0; ; steps++ {
		if r.Failed() {
			return
		}
		open := 0
		for _, m := range w.members[1:] {
			if !m.done {
				open++
			}
		}
		if open == 0 {
			break
		}
		if steps > 200 {
			r.Inconclusive("step-cap")
			return
		}
		r.Step()
		type ev struct {
			kind string
			a    int
		}
		kinds := map[string][]ev{}
		for i, m := range w.members[1:] {
			if m.done {
				continue
			}
			if len(m.blocks.PendingTargets()) > 0 {
				kinds["block"] = append(kinds["block"], ev{"block", i + 1})
			}
			if m.pending && len(m.handlers) > 0 {
				kinds["notify"] = append(kinds["notify"], ev{"notify", i + 1})
			}
		}
		if wantOutside && w.accepted == nil {
			kinds["outside"] = []ev{{"outside", 0}}
		}
		order := []string{"outside", "notify", "block"}
		weight := map[string]int{"outside": 4, "notify": 4, "block": 3}
		avail, ws := []string{}, []int{}
		for _, kd := range order {
			if len(kinds[kd]) > 0 {
				avail = append(avail, kd)
				ws = append(ws, weight[kd])
			}
		}
		if len(avail) == 0 {
			r.Inconclusive("no-events")
			return
		}
		kd := avail[tp.Weighted("event", ws...)]
		pick := kinds[kd][tp.Choose(kd, len(kinds[kd]))]
		switch kd {
		case "block":
			m := w.members[pick.a]
			tg := m.blocks.PendingTargets()
			sort.Slice(tg, func(a, b int) bool { return tg[a] < tg[b] })
			cur, to := m.blocks.Height(), tg[0]
			// towards the timeout block: just before it, or onto it
			if tp.Chance("stop-before-timeout", 1, 2) && to > cur+1 {
				to--
			}
			m.blocks.Advance(to)
			r.AddSim(0, int64(to-cur))
			synctest.Wait()
			r.Logf("block member=%d %d -> %d done=%v", m.idx, cur, to, m.done)
		case "notify":
			m := w.members[pick.a]
			w.notify(m)
			r.Probe("event-reached-member-whose-publication-failed")
			r.Logf("notify member=%d done=%v", m.idx, m.done)
		case "outside":
			e := outside()
			w.accept(e)
			r.Logf("outside result accepted: same-key=%v misbehaved=%v", len(e.key) > 0 && e.key[len(e.key)-1] == w.groupKey[len(w.groupKey)-1], e.misbehaved)
		}
	}
	synctest.Wait()
	c05Judge(w, selected, fmt.Sprintf("large n=%d", w.n))
}
