package result

// C19 (DKG result signing part): a victim node with the REAL
// result.RegisterUnmarshallers registration receives valid and tape-corrupted
// DKGResultHashSignatureMessages; every accepted one is handed to the real
// resultSigningState.Receive and, at the end, the collected messages go
// through the real SigningMember.VerifyDKGResultSignatures (what the next
// state computes from them).

import (
	"testing"

	"github.com/ipfs/go-log/v2"
	beaconchain "github.com/keep-network/keep-core/pkg/beacon/chain"
	"github.com/keep-network/keep-core/pkg/chain"
	"github.com/keep-network/keep-core/pkg/chain/local_v1"
	"github.com/keep-network/keep-core/pkg/internal/verifadapt"
	"github.com/keep-network/keep-core/pkg/protocol/group"

	"verifsim"
)

func init() {
	verifScenarios["C19"] = verifsim.Scenario{Bubble: false, Fn: c19Run, MinBudget: 150}
}

func c19Run(t *testing.T, r *verifsim.Run) {
	tp := r.T
	logger := log.Logger("verif-c19-result")
	sn := verifadapt.NewNet()
	n := 3 + tp.Choose("n", 3)
	var addrs []chain.Address
	var nodes []*verifadapt.NetNode
	var signing chain.Signing
	for i := 0; i < n; i++ {
		nn := sn.AddNode(local_v1.DefaultCurve)
		nodes = append(nodes, nn)
		if signing == nil {
			signing = local_v1.NewSigner(nn.Priv)
		}
		a, err := signing.PublicKeyToAddress(nn.Pub)
		if err != nil {
			panic(err)
		}
		addrs = append(addrs, a)
	}
	senderIdx := 1 + tp.Choose("sender", n-1) // node index of the sender; victim is node 0 = member 1
	sender, victim := nodes[senderIdx], nodes[0]
	RegisterUnmarshallers(victim.Channel("dkg-result"))
	mv := group.NewMembershipValidator(logger, addrs, signing)
	session := "c19-result-session"
	member := NewSigningMember(logger, 1, group.NewGroup(1, n), mv, session)
	var hash beaconchain.DKGResultHash
	copy(hash[:], tp.Bytes("result-hash", 32))
	member.preferredDKGResultHash = hash
	member.selfDKGResultSignature = []byte("self")
	st := &resultSigningState{member: member}

	senderSigning := local_v1.NewSigner(sender.Priv)
	sig, err := senderSigning.Sign(hash[:])
	if err != nil {
		panic(err)
	}
	sent := &DKGResultHashSignatureMessage{
		senderIndex: group.MemberIndex(senderIdx + 1),
		resultHash:  hash,
		signature:   sig,
		publicKey:   senderSigning.PublicKey(),
		sessionID:   session,
	}
	r.Logf("cfg n=%d sender=%d", n, senderIdx+1)

	h := verifadapt.NewHostile(r, "C19", sn, sender.Index, victim.Index, "dkg-result")
	h.OnAccept = func(typ string, m *verifadapt.Message, valid bool) {
		before := len(st.signatureMessages)
		if err := st.Receive(m); err != nil {
			r.Probe("state-receive-error")
		}
		if len(st.signatureMessages) > before {
			if valid {
				r.Probe("valid-message-kept-by-state")
			} else {
				r.Probe("mutated-message-kept-by-state")
			}
		}
	}
	payload := h.RoundTrip(sent)
	if r.Failed() || payload == nil {
		return
	}
	h.Attack(sent.Type(), payload, 6+tp.Choose("attacks", 20))
	if r.Failed() {
		return
	}
	// what the next state computes from the collected messages
	if p, v, stk := verifadapt.GuardedCall(func() {
		sigs, err := member.VerifyDKGResultSignatures(st.signatureMessages, signing)
		if err == nil && len(sigs) > 1 {
			r.Probe("signature-of-sender-verified")
		}
	}); p {
		r.Failf("C19:handler-panic:"+sent.Type(), "VerifyDKGResultSignatures panicked on messages the unmarshaler accepted: %v\n%s", v, stk)
	}
}
