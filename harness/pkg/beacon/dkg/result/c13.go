package result

// C13 (beacon part): supporting signatures of a DKG result.
//
// Honest seats run the REAL result.Publish (resultSigningState ->
// signaturesVerificationState -> resultSubmissionState on the real
// SyncMachine) over verifadapt.Net, per-seat block counters and the stub chain
// of c47.go. Seats belong to 1..n operators (repeated seats share the network
// key). Some honest seats hold a divergent result (conflicting hash), some
// seats are marked inactive/disqualified in everybody's result, some seats are
// Byzantine: they run no code, the simulator forges their messages (kinds in
// c13Kinds) as coming from their authenticated node; an outsider node forges
// too. The tape decides per receiver delivery instant inside / after the
// signing window, order, loss and duplicates.
//
// Oracle at the stub chain's SubmitDKGResult (c13Check).

import (
	"context"
	"fmt"
	"math/big"
	"sort"
	"testing"
	"testing/synctest"

	bn256 "github.com/ethereum/go-ethereum/crypto/bn256/cloudflare"
	"github.com/ipfs/go-log/v2"

	beaconchain "github.com/keep-network/keep-core/pkg/beacon/chain"
	"github.com/keep-network/keep-core/pkg/beacon/event"
	"github.com/keep-network/keep-core/pkg/beacon/gjkr"
	"github.com/keep-network/keep-core/pkg/chain"
	"github.com/keep-network/keep-core/pkg/chain/local_v1"
	"github.com/keep-network/keep-core/pkg/internal/verifadapt"
	"github.com/keep-network/keep-core/pkg/net"
	"github.com/keep-network/keep-core/pkg/operator"
	"github.com/keep-network/keep-core/pkg/protocol/group"

	"verifsim"
)

const c13Channel = "c13-result"

var c13Kinds = []string{
	"valid-support",                      // benign
	"conflicting-hash",                   // valid signature over another result hash
	"bad-signature",                      // random bytes
	"signature-over-other-hash",          // claims the majority hash, signed another one
	"foreign-key",                        // key + signature of a key that is not the sender's network key
	"claims-other-index",                 // own key and signature, another seat's index
	"claims-receiver-index",              // index of an honest receiver
	"other-session",                      // valid support of another session
	"replayed-honest-signature",          // an honest seat's message re-sent by this node
	"index-outside-group",                // 0 / n+1
	"foreign-key-conflicting-then-valid", // two messages of one sender
}

type c13Seat struct {
	idx      int
	op       int
	kind     int // 0 honest, 1 honest with divergent result, 2 byzantine, 3 down
	excluded bool
	m        *c47Member
	node     *verifadapt.NetNode
	ch       *verifadapt.Chan
	priv     *operator.PrivateKey
	pub      []byte
	result   *gjkr.Result
	hash     beaconchain.DKGResultHash
}

type c13Flight struct {
	env    *verifadapt.Envelope
	left   []int
	forged bool
}

func init() {
	verifScenarios["C13"] = verifsim.Scenario{Bubble: true, Fn: c13Run}
}

func c13Run(t *testing.T, r *verifsim.Run) {
	tp := r.T
	w := &c47World{r: r}
	w.n = 3 + tp.Choose("n", 5)
	minH := w.n/2 + 1
	w.h = minH + tp.Choose("h", w.n-minH+1)
	w.step = uint64(1 + tp.Choose("step", 2))
	w.start = uint64(1 + tp.Choose("start", 20))
	dis := w.n - w.h
	need := w.h + (w.n-w.h)/2 // documented: honest threshold + half of the dishonest remainder
	session := fmt.Sprintf("session-%d", tp.Choose("session", 50))

	nOps := 1 + tp.Choose("operators", w.n)
	type op struct {
		priv *operator.PrivateKey
		pub  *operator.PublicKey
		addr chain.Address
		raw  []byte
	}
	mkOp := func() op {
		priv, pub, err := operator.GenerateKeyPair(local_v1.DefaultCurve)
		if err != nil {
			panic(err)
		}
		s := local_v1.NewSigner(priv)
		return op{priv, pub, s.Address(), s.PublicKey()}
	}
	ops := []op{}
	for i := 0; i < nOps; i++ {
		ops = append(ops, mkOp())
	}
	outsider := mkOp()
	stranger := mkOp() // a key that is nobody's network key

	sn := verifadapt.NewNet()
	seats := make([]*c13Seat, w.n+1)
	selected := make([]chain.Address, w.n)
	layout := []int{}
	nExcl, nHonest := 0, 0
	for i := 1; i <= w.n; i++ {
		oi := (i - 1) % nOps
		if i > nOps {
			oi = tp.Choose("seat-operator", nOps)
		}
		layout = append(layout, oi)
		o := ops[oi]
		s := &c13Seat{idx: i, op: oi, priv: o.priv, pub: o.raw}
		s.node = sn.AddNodeWithKey(o.priv, o.pub)
		s.ch = s.node.Channel(c13Channel)
		RegisterUnmarshallers(s.ch)
		selected[i-1] = o.addr
		if nExcl < dis && tp.Chance("excluded", 1, 4) {
			s.excluded = true
			nExcl++
			s.kind = 3 - tp.Choose("excluded-silent", 2) // down or byzantine
		} else {
			s.kind = tp.Weighted("seat-kind", 9, 1, 2)
		}
		seats[i] = s
	}
	// at least one honest seat with the majority result
	for _, s := range seats[1:] {
		if s.kind == 0 {
			nHonest++
		}
	}
	if nHonest == 0 {
		for _, s := range seats[1:] {
			if !s.excluded {
				s.kind = 0
				nHonest++
				break
			}
		}
	}
	if nHonest == 0 {
		seats[1].excluded, seats[1].kind = false, 0
	}
	outNode := sn.AddNodeWithKey(outsider.priv, outsider.pub)

	pk0 := new(bn256.G2).ScalarBaseMult(big.NewInt(int64(5 + tp.Choose("key", 1000))))
	pk1 := new(bn256.G2).ScalarBaseMult(big.NewInt(777777))
	mkResult := func(pk *bn256.G2) *gjkr.Result {
		g := group.NewGroup(dis, w.n)
		for _, s := range seats[1:] {
			if s.excluded {
				if s.idx%2 == 0 {
					g.MarkMemberAsInactive(group.MemberIndex(s.idx))
				} else {
					g.MarkMemberAsDisqualified(group.MemberIndex(s.idx))
				}
			}
		}
		return &gjkr.Result{Group: g, GroupPublicKey: pk}
	}
	hashOf := func(res *gjkr.Result) beaconchain.DKGResultHash {
		h, _ := (&c47Chain{w: w}).CalculateDKGResultHash(convertGjkrResult(res))
		return h
	}
	h0, h1 := hashOf(mkResult(pk0)), hashOf(mkResult(pk1))

	w.members = make([]*c47Member, w.n+1)
	kinds := []int{}
	for _, s := range seats[1:] {
		m := &c47Member{idx: s.idx, handlers: map[int]func(*event.DKGResultSubmission){}, blocks: verifadapt.NewNodeBlocks(w.start)}
		m.sign = local_v1.NewSigner(s.priv)
		s.m = m
		w.members[s.idx] = m
		kinds = append(kinds, s.kind)
		if s.kind == 1 {
			s.result, s.hash = mkResult(pk1), h1
			r.Fault("honest-seat-with-divergent-result")
		} else {
			s.result, s.hash = mkResult(pk0), h0
		}
	}
	r.Logf("cfg n=%d h=%d need=%d step=%d start=%d layout=%v kinds=%v excluded=%d", w.n, w.h, need, w.step, w.start, layout, kinds, nExcl)

	verify := func(hash beaconchain.DKGResultHash, sig []byte, pub []byte) bool {
		ok, err := seats[1].m.sign.VerifyWithPublicKey(hash[:], sig, pub)
		return err == nil && ok
	}
	submitted := map[int]bool{}
	w.onSubmit = func(m *c47Member, idx beaconchain.GroupMemberIndex, res *beaconchain.DKGResult, sigs map[beaconchain.GroupMemberIndex][]byte) {
		s := seats[m.idx]
		submitted[m.idx] = true
		desc := fmt.Sprintf("seat %d (n=%d h=%d layout=%v kinds=%v) submitted %d signatures %v", m.idx, w.n, w.h, layout, kinds, len(sigs), c13SigKeys(sigs))
		own, ok := sigs[beaconchain.GroupMemberIndex(m.idx)]
		if !ok || !verify(s.hash, own, s.pub) {
			r.Failf("C13:beacon-own-signature-missing", "%s: its own valid signature is not in the set", desc)
			return
		}
		for _, ji := range c13SigKeys(sigs) { // sorted: the first violation reported must not depend on map order
			sig := sigs[beaconchain.GroupMemberIndex(ji)]
			if ji == m.idx {
				continue
			}
			if ji < 1 || ji > w.n {
				r.Failf("C13:beacon-signature-of-non-member", "%s: entry for index %d outside the group", desc, ji)
				return
			}
			if seats[ji].excluded {
				r.Failf("C13:beacon-signature-of-non-operating-member", "%s: entry for seat %d which is inactive/disqualified in the submitter's result", desc, ji)
				return
			}
			if !verify(s.hash, sig, seats[ji].pub) {
				r.Failf("C13:beacon-invalid-supporting-signature", "%s: the entry for seat %d does not verify over the submitter's own result hash under the network key of seat %d's operator", desc, ji, ji)
				return
			}
		}
		if len(sigs) < need {
			r.Failf("C13:beacon-submitted-below-threshold", "%s: fewer than the required %d (honest threshold %d + half of the dishonest remainder %d)", desc, need, w.h, w.n-w.h)
			return
		}
		if len(sigs) < w.n {
			r.Probe("submitted-with-partial-support")
		}
		r.Probe("submission-checked")
	}

	logger := log.Logger("verif-c13")
	for _, s := range seats[1:] {
		if s.kind > 1 {
			continue
		}
		s := s
		s.m.entered = true
		go func() {
			defer func() {
				if p := recover(); p != nil {
					r.Failf("panic:result.Publish", "seat %d: %v", s.idx, p)
				}
				s.m.done = true
			}()
			mv := group.NewMembershipValidator(logger, selected, s.m.sign)
			s.m.err = Publish(logger, session, group.MemberIndex(s.idx), s.result.Group, mv, s.result, s.ch,
				&c47Chain{w: w, m: s.m}, s.m.blocks, w.start)
		}()
	}
	synctest.Wait()

	var pool []*c13Flight
	receivers := func(from int) []int {
		out := []int{}
		for _, s := range seats[1:] {
			if s.kind <= 1 && s.node.Index != from {
				out = append(out, s.idx)
			}
		}
		return out
	}
	var honestSent []*verifadapt.Envelope
	collect := func() {
		for _, e := range sn.Drain() {
			pool = append(pool, &c13Flight{env: e, left: receivers(e.From)})
			honestSent = append(honestSent, e)
		}
	}
	var forgers []*c13Seat
	for _, s := range seats[1:] {
		if s.kind == 2 {
			forgers = append(forgers, s)
		}
	}
	forgeBudget := 0
	if tp.Chance("forgeries", 3, 4) {
		forgeBudget = 1 + tp.Choose("forge-budget", 8)
	}
	dropW := []int{0, 1, 3}[tp.Weighted("network-quality", 3, 2, 1)]
	seq := uint64(1 << 20)
	typ := (&DKGResultHashSignatureMessage{}).Type()
	push := func(from *verifadapt.NetNode, msg *DKGResultHashSignatureMessage) {
		payload, err := msg.Marshal()
		if err != nil {
			panic(err)
		}
		seq++
		pool = append(pool, &c13Flight{forged: true, left: receivers(from.Index), env: &verifadapt.Envelope{From: from.Index, Channel: c13Channel,
			Type: typ, Payload: payload, Seqno: seq, Ctx: context.Background(), Strategy: net.StandardRetransmissionStrategy}})
	}
	signWith := func(priv *operator.PrivateKey, h beaconchain.DKGResultHash) []byte {
		sig, err := local_v1.NewSigner(priv).Sign(h[:])
		if err != nil {
			panic(err)
		}
		return sig
	}
	forge := func() {
		// sender: a Byzantine seat or the outsider
		var from *verifadapt.NetNode
		var priv *operator.PrivateKey
		var pub []byte
		idx := 0
		pickN := len(forgers) + 1
		if p := tp.Choose("forger", pickN); p < len(forgers) {
			b := forgers[p]
			from, priv, pub, idx = b.node, b.priv, b.pub, b.idx
		} else {
			from, priv, pub = outNode, outsider.priv, outsider.raw
			idx = 1 + tp.Choose("outsider-claims", w.n)
			r.Fault("forged-by-non-member")
		}
		fw := make([]int, len(c13Kinds))
		for i := range fw {
			fw[i] = 2
		}
		fw[0] = 5
		k := tp.Weighted("forge-kind", fw...)
		msg := &DKGResultHashSignatureMessage{senderIndex: group.MemberIndex(idx), resultHash: h0, signature: signWith(priv, h0), publicKey: pub, sessionID: session}
		other := 1 + tp.Choose("other-seat", w.n)
		switch k {
		case 1:
			msg.resultHash, msg.signature = h1, signWith(priv, h1)
		case 2:
			msg.signature = tp.Bytes("junk-sig", []int{0, 1, 64, 65, 70}[tp.Choose("junk-len", 5)])
		case 3:
			msg.signature = signWith(priv, h1)
		case 4:
			msg.publicKey, msg.signature = stranger.raw, signWith(stranger.priv, h0)
		case 5:
			msg.senderIndex = group.MemberIndex(other)
		case 6:
			rc := receivers(from.Index)
			msg.senderIndex = group.MemberIndex(rc[tp.Choose("victim", len(rc))])
		case 7:
			msg.sessionID = session + "-other"
		case 8:
			if len(honestSent) == 0 {
				break
			}
			e := honestSent[tp.Choose("replayed", len(honestSent))]
			seq++
			pool = append(pool, &c13Flight{forged: true, left: receivers(from.Index), env: &verifadapt.Envelope{From: from.Index, Channel: c13Channel,
				Type: typ, Payload: e.Payload, Seqno: seq, Ctx: context.Background(), Strategy: net.StandardRetransmissionStrategy}})
			r.Fault("forged:" + c13Kinds[k])
			return
		case 9:
			msg.senderIndex = group.MemberIndex([]int{0, w.n + 1}[tp.Choose("bad-index", 2)])
		case 10:
			first := *msg
			first.publicKey, first.signature = stranger.raw, signWith(stranger.priv, h1)
			first.resultHash = h1
			push(from, &first)
		}
		push(from, msg)
		r.Fault("forged:" + c13Kinds[k])
		r.Logf("forge from-node=%d claims=%d kind=%s", from.Index, int(msg.senderIndex), c13Kinds[k])
	}

	windowEnd := w.start + 1 + 5 // documented length of the signing state (delay 1, active 5); only shapes the schedule
	horizon := windowEnd + uint64(w.n)*w.step + 4
	height := w.start
	tick := func() {
		height++
		for _, s := range seats[1:] {
			if s.kind <= 1 && !s.m.done {
				s.m.blocks.Advance(height)
			}
		}
		r.AddSim(0, 1)
		synctest.Wait()
		collect()
	}
	for steps := 0; ; steps++ {
		if r.Failed() {
			return
		}
		open := 0
		for _, s := range seats[1:] {
			if s.kind <= 1 && !s.m.done {
				open++
			}
		}
		if open == 0 || height >= horizon {
			break
		}
		if steps > 900 {
			r.Inconclusive("step-cap")
			return
		}
		r.Step()
		type ev struct{ p, to int }
		var dl []ev
		for pi, f := range pool {
			for _, to := range f.left {
				if !seats[to].m.done {
					dl = append(dl, ev{pi, to})
				}
			}
		}
		wTick, wDel, wForge := 1, 0, 0
		if len(dl) > 0 {
			wDel = 16
		}
		if forgeBudget > 0 && height > w.start && height < windowEnd+1 {
			wForge = 3
		}
		if height >= windowEnd {
			wTick, wForge = 6, 0
			if wDel > 0 {
				wDel = 2
			}
		}
		switch tp.Weighted("event", wTick, wDel, wForge) {
		case 0:
			tick()
			r.Logf("tick -> %d", height)
		case 1:
			pick := dl[tp.Choose("deliver", len(dl))]
			f := pool[pick.p]
			fate := tp.Weighted("fate", 14, dropW, 1)
			if fate != 2 {
				nl := f.left[:0:0]
				for _, x := range f.left {
					if x != pick.to {
						nl = append(nl, x)
					}
				}
				f.left = nl
			}
			if fate == 1 {
				r.Fault("message-drop")
				r.Logf("drop from-node=%d seq=%d to=%d", f.env.From, f.env.Seqno, pick.to)
				break
			}
			if fate == 2 {
				r.Fault("message-duplicate")
			}
			if height >= windowEnd {
				r.Fault("message-after-signing-window")
			}
			if pick.p != 0 {
				r.NonTrivial()
			}
			sn.Deliver(f.env, seats[pick.to].node.Index)
			synctest.Wait()
			collect()
			r.Logf("deliver from-node=%d seq=%d forged=%v to=%d at=%d", f.env.From, f.env.Seqno, f.forged, pick.to, height)
		case 2:
			forgeBudget--
			forge()
		}
	}
	synctest.Wait()
	for _, s := range seats[1:] {
		if s.kind <= 1 && !submitted[s.idx] {
			r.Probe("seat-did-not-submit")
		}
	}
}

func c13SigKeys(sigs map[beaconchain.GroupMemberIndex][]byte) []int {
	out := []int{}
	for k := range sigs {
		out = append(out, int(k))
	}
	sort.Ints(out)
	return out
}
