package result

// C47 (beacon DKG result submission part) and the stub beacon chain shared
// with C13 in this package.
//
// Every member of a group runs the REAL SubmittingMember.SubmitDKGResult on its
// own simulated block counter against a stub chain. The tape decides group
// size, thresholds, block step, start block, when each member enters the
// submission phase, per-member block arrival, when submitted transactions are
// mined, when each member's DKGResultSubmission callback fires, competing
// outside submissions (same key or a superseding different key) and chain
// errors.

import (
	"bytes"
	"errors"
	"fmt"
	"testing"
	"testing/synctest"

	"github.com/ipfs/go-log/v2"
	"golang.org/x/crypto/sha3"

	beaconchain "github.com/keep-network/keep-core/pkg/beacon/chain"
	"github.com/keep-network/keep-core/pkg/beacon/event"
	"github.com/keep-network/keep-core/pkg/chain"
	"github.com/keep-network/keep-core/pkg/internal/verifadapt"
	"github.com/keep-network/keep-core/pkg/protocol/group"
	"github.com/keep-network/keep-core/pkg/subscription"

	"verifsim"
)

type c47Tx struct {
	member int
	key    []byte
}

type c47Member struct {
	idx    int
	blocks *verifadapt.NodeBlocks
	sign   chain.Signing // used by C13 only

	handlers   map[int]func(*event.DKGResultSubmission)
	nextHandle int

	entered, done      bool
	err                error
	slots              []uint64
	notified           bool
	observedRegistered bool
	eventPending       bool
	submits            int
	regFault           bool
	parkMode           int // 0 no gate, 1 park right after the registration query was answered, 2 right before
	parked             bool
	missedEvent        bool // the chain emitted the event while this member's routine ran without any subscription
	submitFault        bool
	nSigs              int
}

type c47World struct {
	r        *verifsim.Run
	n, h     int
	step     uint64
	start    uint64
	members  []*c47Member // index 0 unused
	accepted bool
	accKey   []byte
	accBy    int
	mempool  []*c47Tx
	stop     bool

	gates      *verifsim.Gates // scheduling points at the chain queries (C47 only)
	slotOracle bool
	// onSubmit lets other properties (C13) observe the submission arguments.
	onSubmit func(m *c47Member, idx beaconchain.GroupMemberIndex, res *beaconchain.DKGResult, sigs map[beaconchain.GroupMemberIndex][]byte)
}

type c47Chain struct {
	beaconchain.Interface // nil: anything not modelled panics and is reported
	w                     *c47World
	m                     *c47Member
}

func (c *c47Chain) GetConfig() *beaconchain.Config {
	return &beaconchain.Config{GroupSize: c.w.n, HonestThreshold: c.w.h, ResultPublicationBlockStep: c.w.step,
		RelayEntryTimeout: uint64(c.w.n) * c.w.step}
}

func (c *c47Chain) Signing() chain.Signing { return c.m.sign }

func (c *c47Chain) CalculateDKGResultHash(res *beaconchain.DKGResult) (beaconchain.DKGResultHash, error) {
	return beaconchain.DKGResultHash(sha3.Sum256([]byte(fmt.Sprint(res)))), nil
}

func (c *c47Chain) OnDKGResultSubmitted(h func(*event.DKGResultSubmission)) subscription.EventSubscription {
	m := c.m
	m.nextHandle++
	id := m.nextHandle
	m.handlers[id] = h
	if c.w.accepted {
		// subscribed after the fact: a chain does not replay past events
		c.w.r.Probe("subscribed-after-acceptance")
	}
	return subscription.NewEventSubscription(func() { delete(m.handlers, id) })
}

func (c *c47Chain) IsGroupRegistered(key []byte) (bool, error) {
	if c.m.regFault {
		c.w.r.Fault("registration-query-error")
		return false, errors.New("injected: query failed")
	}
	park := func() {
		c.m.parked = true
		c.w.gates.PointAs(fmt.Sprintf("query-%d", c.m.idx), "IsGroupRegistered")
		c.m.parked = false
	}
	if c.w.gates != nil && c.m.parkMode == 2 {
		park()
	}
	reg := c.w.accepted && bytes.Equal(c.w.accKey, key)
	if c.w.gates != nil && c.m.parkMode == 1 {
		// the answer is already fixed; the member sits between the query and
		// whatever it does next while the simulator moves the chain on
		defer park()
	}
	if reg {
		c.m.observedRegistered = true
		c.w.r.Probe("entered-after-group-registered")
	}
	return reg, nil
}

func (c *c47Chain) SubmitDKGResult(idx beaconchain.GroupMemberIndex, res *beaconchain.DKGResult, sigs map[beaconchain.GroupMemberIndex][]byte) error {
	w, m := c.w, c.m
	height := m.blocks.Height()
	m.submits++
	w.r.Logf("submit member=%d as=%d at=%d slots=%v sigs=%d notified=%v accepted=%v", m.idx, idx, height, m.slots, len(sigs), m.notified, w.accepted)
	if w.slotOracle {
		if int(idx) != m.idx {
			w.r.Failf("C47:dkg-submit-foreign-index", "member %d submitted as participant %d", m.idx, idx)
		}
		if m.notified {
			w.r.Failf("C47:dkg-submit-after-notified", "member %d called SubmitDKGResult at its block %d after its DKGResultSubmission callback had been invoked (system quiescent since)", m.idx, height)
		}
		if m.missedEvent {
			w.r.Failf("C47:dkg-submit-after-unobserved-result", "member %d called SubmitDKGResult at its block %d although a result had been accepted and its event emitted while the member's submission routine was already running - the member had no subscription at that moment and never learned about it", m.idx, height)
		}
		if m.observedRegistered {
			w.r.Failf("C47:dkg-submit-after-registered", "member %d called SubmitDKGResult at its block %d although IsGroupRegistered had told it the group is registered", m.idx, height)
		}
		if len(m.slots) == 0 {
			w.r.Failf("C47:dkg-submit-without-slot", "member %d called SubmitDKGResult at its block %d without having waited for an eligibility block", m.idx, height)
		} else if s := m.slots[len(m.slots)-1]; height < s {
			w.r.Failf("C47:dkg-submit-before-slot", "member %d called SubmitDKGResult at its block %d before the block %d it waited for (start %d, step %d)", m.idx, height, s, w.start, w.step)
		}
	}
	if w.onSubmit != nil {
		w.onSubmit(m, idx, res, sigs)
	}
	if m.submitFault {
		w.r.Fault("submit-error")
		return errors.New("injected: transaction failed")
	}
	if w.accepted {
		w.r.Probe("submit-rejected-already-accepted")
		return errors.New("execution reverted: result already submitted")
	}
	w.mempool = append(w.mempool, &c47Tx{member: m.idx, key: append([]byte(nil), res.GroupPublicKey...)})
	if len(w.mempool) > 1 {
		w.r.Probe("several-transactions-in-mempool")
	}
	return nil
}

func (w *c47World) accept(by int, key []byte) {
	w.accepted, w.accBy, w.accKey = true, by, key
	for _, m := range w.members[1:] {
		if m.entered && !m.done {
			if len(m.handlers) > 0 {
				m.eventPending = true
			} else {
				m.missedEvent = true
				w.r.Probe("event-emitted-while-member-unsubscribed")
			}
		}
	}
}

func (w *c47World) onRequest(m *c47Member, target uint64) {
	m.slots = append(m.slots, target)
	w.r.Logf("slot member=%d block=%d (start+%d)", m.idx, target, int64(target)-int64(w.start))
	if !w.slotOracle {
		return
	}
	if target < w.start+uint64(m.idx-1) {
		w.r.Failf("C47:dkg-slot-too-early-for-index", "member %d waits for block %d with submission start %d: the %d members with lower indexes cannot all have distinct earlier slots", m.idx, target, w.start, m.idx-1)
		w.stop = true
	}
	for _, o := range w.members[1:] {
		if o == m {
			continue
		}
		for _, s := range o.slots {
			if s != target && (o.idx < m.idx) != (s < target) {
				w.r.Failf("C47:dkg-slot-order", "members %d and %d wait for blocks %d and %d: the order of the slots does not follow the member indexes", o.idx, m.idx, s, target)
				w.stop = true
			}
			if s == target {
				w.r.Failf("C47:dkg-slot-shared", "members %d and %d both wait for block %d to submit (start %d, step %d, n %d)", o.idx, m.idx, target, w.start, w.step, w.n)
				w.stop = true
			}
		}
	}
}

// notify fires the member's DKGResultSubmission callbacks and waits for
// quiescence; from then on the member counts as notified.
func (w *c47World) notify(m *c47Member) {
	m.eventPending = false
	top := uint64(0)
	for _, o := range w.members[1:] {
		if hh := o.blocks.Height(); hh > top {
			top = hh
		}
	}
	for id := 1; id <= m.nextHandle; id++ {
		if h, ok := m.handlers[id]; ok {
			go h(&event.DKGResultSubmission{MemberIndex: uint32(w.accBy), GroupPublicKey: w.accKey, BlockNumber: top})
		}
	}
	synctest.Wait()
	m.notified = true
}

func init() {
	verifScenarios["C47"] = verifsim.Scenario{Bubble: true, Fn: c47Run}
}

func c47Run(t *testing.T, r *verifsim.Run) {
	tp := r.T
	w := &c47World{r: r, slotOracle: true, gates: verifsim.NewGates()}
	defer w.gates.ReleaseAll()
	w.n = 2 + tp.Choose("n", 7)
	minH := w.n/2 + 1
	w.h = minH + tp.Choose("h", w.n-minH+1)
	w.step = uint64(1 + tp.Choose("step", 3))
	w.start = uint64(1 + tp.Choose("start", 40))
	need := w.h + (w.n-w.h)/2
	key := tp.Bytes("group-key", 128)
	otherKey := append([]byte{0xff}, key[1:]...)
	result := &beaconchain.DKGResult{GroupPublicKey: key, Misbehaved: []byte{}}
	w.members = make([]*c47Member, w.n+1)
	for i := 1; i <= w.n; i++ {
		m := &c47Member{idx: i, handlers: map[int]func(*event.DKGResultSubmission){}, nSigs: w.n}
		late := uint64(0)
		if tp.Chance("late", 1, 5) {
			late = uint64(1 + tp.Choose("late-by", w.n*int(w.step)+2))
			r.Fault("member-late")
		}
		m.blocks = verifadapt.NewNodeBlocks(w.start + late)
		if tp.Chance("few-signatures", 1, 10) {
			m.nSigs = tp.Choose("n-sigs", need)
			r.Fault("too-few-signatures")
		} else if need < w.n {
			m.nSigs = need + tp.Choose("n-sigs-ok", w.n-need+1)
		}
		m.regFault = tp.Chance("reg-fault", 1, 20)
		m.parkMode = tp.Weighted("park-at-query", 3, 2, 1)
		m.submitFault = tp.Chance("submit-fault", 1, 15)
		mm := m
		m.blocks.OnRequest = func(target, cur uint64) { w.onRequest(mm, target) }
		w.members[i] = m
	}
	r.Logf("cfg n=%d h=%d step=%d start=%d need=%d", w.n, w.h, w.step, w.start, need)
	logger := log.Logger("verif-c47")
	horizon := w.start + uint64(w.n)*w.step + 3

	enter := func(m *c47Member) {
		m.entered = true
		sigs := map[group.MemberIndex][]byte{}
		for k := 0; k < m.nSigs; k++ {
			// own signature first, then the lowest other indexes
			j := (m.idx-1+k)%w.n + 1
			sigs[group.MemberIndex(j)] = []byte{byte(j)}
		}
		go func() {
			defer func() {
				if p := recover(); p != nil {
					r.Failf("panic:SubmitDKGResult", "member %d: %v", m.idx, p)
					m.done = true
				}
			}()
			m.err = NewSubmittingMember(logger, group.MemberIndex(m.idx)).SubmitDKGResult(result, sigs, &c47Chain{w: w, m: m}, m.blocks, w.start)
			m.done = true
		}()
		synctest.Wait()
		if m.nSigs < need && m.submits > 0 {
			r.Probe("submitted-below-signature-threshold") // C13's subject; recorded only
		}
	}
	outside := tp.Weighted("outside-competitor", 5, 1, 1) // none, same key, superseding key
	for steps := 0; ; steps++ {
		if w.stop || r.Failed() {
			return
		}
		open := 0
		for _, m := range w.members[1:] {
			if !m.done {
				open++
			}
		}
		if open == 0 {
			break
		}
		if steps > 700 {
			r.Inconclusive("step-cap")
			return
		}
		r.Step()
		type ev struct {
			kind string
			a    int
		}
		kinds := map[string][]ev{}
		for _, m := range w.members[1:] {
			if m.done {
				continue
			}
			if !m.entered {
				kinds["enter"] = append(kinds["enter"], ev{"enter", m.idx})
				continue
			}
			if m.blocks.Height() < horizon {
				kinds["block"] = append(kinds["block"], ev{"block", m.idx})
			}
			if m.parked {
				// no callback while the member sits at the query: a callback and
				// an already reached slot would become ready in the same instant
				kinds["release"] = append(kinds["release"], ev{"release", m.idx})
			} else if m.eventPending && len(m.handlers) > 0 {
				kinds["notify"] = append(kinds["notify"], ev{"notify", m.idx})
			}
		}
		for ti := range w.mempool {
			kinds["mine"] = append(kinds["mine"], ev{"mine", ti})
		}
		if outside > 0 && !w.accepted && steps > 2 {
			kinds["outside"] = []ev{{"outside", 0}}
		}
		order := []string{"enter", "block", "mine", "notify", "outside", "release"}
		weight := map[string]int{"enter": 8, "block": 6, "mine": 5, "notify": 4, "outside": 2, "release": 4}
		avail, ws := []string{}, []int{}
		for _, kd := range order {
			if len(kinds[kd]) > 0 {
				avail = append(avail, kd)
				ws = append(ws, weight[kd])
			}
		}
		if len(avail) == 0 {
			// only members waiting for an event that will never come (all
			// entered, waiting beyond the horizon): nothing left to explore
			r.Probe("ended-with-members-still-waiting")
			break
		}
		kd := avail[tp.Weighted("event", ws...)]
		pick := kinds[kd][tp.Choose(kd, len(kinds[kd]))]
		switch kd {
		case "enter":
			m := w.members[pick.a]
			enter(m)
			if pick.a != 1 {
				r.NonTrivial()
			}
			r.Logf("enter member=%d at=%d sigs=%d done=%v", m.idx, m.blocks.Height(), m.nSigs, m.done)
		case "block":
			m := w.members[pick.a]
			by := 1 + tp.Weighted("burst", 6, 1, 1, 1)
			for k := 0; k < by && !m.done && m.blocks.Height() < horizon; k++ {
				m.blocks.Advance(m.blocks.Height() + 1)
				r.AddSim(0, 1)
				synctest.Wait()
			}
			if by > 1 {
				r.Fault("block-burst")
			}
			r.Logf("block member=%d -> %d done=%v", m.idx, m.blocks.Height(), m.done)
		case "mine":
			tx := w.mempool[pick.a]
			w.mempool = append(w.mempool[:pick.a:pick.a], w.mempool[pick.a+1:]...)
			if pick.a != 0 {
				r.Fault("mined-out-of-order")
			}
			if !w.accepted {
				w.accept(tx.member, tx.key)
				r.Logf("mined tx of member=%d: accepted", tx.member)
			} else {
				r.Probe("late-transaction-reverted")
				r.Logf("mined tx of member=%d: reverted", tx.member)
			}
		case "release":
			m := w.members[pick.a]
			w.gates.Release(fmt.Sprintf("query-%d", m.idx))
			synctest.Wait()
			r.Fault("member-held-at-chain-query")
			r.Logf("release member=%d accepted=%v done=%v", m.idx, w.accepted, m.done)
		case "notify":
			m := w.members[pick.a]
			waiting := len(m.slots) > 0
			w.notify(m)
			if waiting {
				r.Probe("notified-while-waiting-for-slot")
			}
			r.Logf("notify member=%d done=%v", m.idx, m.done)
		case "outside":
			if outside == 1 {
				w.accept(0, key)
				r.Fault("competing-outside-submission")
			} else {
				w.accept(0, otherKey)
				r.Fault("superseding-outside-submission")
			}
			outside = 0
			r.Logf("outside submission accepted")
		}
	}
	synctest.Wait()
	if r.Failed() {
		return
	}
	seen := map[uint64]int{}
	for _, m := range w.members[1:] {
		for _, s := range m.slots {
			if o, dup := seen[s]; dup && o != m.idx {
				r.Failf("C47:dkg-slot-shared", "members %d and %d share slot block %d", o, m.idx, s)
			}
			seen[s] = m.idx
		}
		if m.submits > 0 {
			r.Probe("some-member-submitted")
		}
	}
}
