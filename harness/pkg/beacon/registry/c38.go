package registry

// C38 (part 2 of 2): the real Groups registry + persistentStorage + Membership
// / ThresholdSigner marshaling on a simulated disk. Histories, fault
// enumeration and oracle: verifadapt.RunRegistryScenario. "archive(e)" is
// UnregisterStaleGroups with exactly group e reported stale by the chain stub
// (one stale group per sweep: the order in which the real code walks its map
// cannot be pinned); "archive-skip(e)" passes e as the latest group, which
// must be left alone.

import (
	"bytes"
	"fmt"
	"math/big"
	"sync"
	"testing"

	bn256 "github.com/ethereum/go-ethereum/crypto/bn256/cloudflare"
	"github.com/ipfs/go-log"

	"github.com/keep-network/keep-core/pkg/beacon/dkg"
	"github.com/keep-network/keep-core/pkg/beacon/event"
	"github.com/keep-network/keep-core/pkg/chain"
	"github.com/keep-network/keep-core/pkg/internal/verifadapt"
	"github.com/keep-network/keep-core/pkg/protocol/group"
	"github.com/keep-network/keep-core/pkg/subscription"

	"verifsim"
)

const (
	c38Groups  = 3
	c38Members = 3
)

var (
	c38Once sync.Once
	c38Keys []*bn256.G2
)

func c38Load() {
	c38Once.Do(func() {
		for e := 0; e < c38Groups; e++ {
			c38Keys = append(c38Keys, new(bn256.G2).ScalarBaseMult(big.NewInt(int64(70+13*e))))
		}
	})
}

func c38Membership(e, m int) *Membership {
	share := new(bn256.G2).ScalarBaseMult(big.NewInt(int64(1000*e + m)))
	return &Membership{
		Signer: dkg.NewThresholdSigner(
			group.MemberIndex(m),
			c38Keys[e],
			big.NewInt(int64(1000*e+m)),
			// one entry only: protobuf map encoding order is not stable, and the
			// oracle compares stored and re-marshalled bytes
			map[group.MemberIndex]*bn256.G2{group.MemberIndex(m): share},
			[]chain.Address{chain.Address(fmt.Sprintf("operator-%d", e)), "operator-b"},
		),
		ChannelName: fmt.Sprintf("channel-%d", e),
	}
}

type c38Chain struct {
	stale []byte
}

func (c *c38Chain) OnGroupRegistered(func(groupRegistration *event.GroupRegistration)) subscription.EventSubscription {
	panic("not used")
}
func (c *c38Chain) IsGroupRegistered(groupPublicKey []byte) (bool, error) { panic("not used") }
func (c *c38Chain) IsStaleGroup(groupPublicKey []byte) (bool, error) {
	return c.stale != nil && bytes.Equal(c.stale, groupPublicKey), nil
}

func c38Dump(g *Groups) ([]verifadapt.RegRecord, string) {
	var recs []verifadapt.RegRecord
	for e, key := range c38Keys {
		for _, ms := range g.GetGroup(key.Marshal()) {
			if ms == nil || ms.Signer == nil {
				return nil, fmt.Sprintf("group e%d: nil membership", e)
			}
			if !bytes.Equal(ms.Signer.GroupPublicKeyBytes(), key.Marshal()) {
				return nil, fmt.Sprintf("group e%d: lookup returns a membership of another group", e)
			}
			b, err := ms.Marshal()
			if err != nil {
				return nil, fmt.Sprintf("group e%d: loaded membership cannot be marshalled: %v", e, err)
			}
			recs = append(recs, verifadapt.RegRecord{Entity: e, Member: int(ms.Signer.MemberID()), Material: verifadapt.RegMaterial(b)})
		}
	}
	g.mutex.Lock()
	n := len(g.myGroups)
	nonEmpty := 0
	for _, ms := range g.myGroups {
		if len(ms) > 0 {
			nonEmpty++
		}
	}
	g.mutex.Unlock()
	seen := map[int]bool{}
	for _, r := range recs {
		seen[r.Entity] = true
	}
	if nonEmpty != len(seen) {
		return nil, fmt.Sprintf("registry holds %d groups (%d non-empty), lookups by the known group keys find %d", n, nonEmpty, len(seen))
	}
	return recs, ""
}

func init() {
	verifScenarios["C38"] = verifsim.Scenario{Bubble: false, Fn: c38Run}
}

func c38Run(t *testing.T, r *verifsim.Run) {
	c38Load()
	lg := log.Logger("verif-c38")
	verifadapt.RunRegistryScenario(r, verifadapt.RegSUT{
		Name:     "beacon group registry",
		Entities: c38Groups,
		Members:  c38Members,
		Open: func(h *verifadapt.SimDiskHandle) (verifadapt.RegInst, error) {
			ch := &c38Chain{}
			g := NewGroupRegistry(lg, ch, h)
			g.LoadExistingGroups()
			return verifadapt.RegInst{
				Register: func(e, m int) error {
					ms := c38Membership(e, m)
					return g.RegisterGroup(ms.Signer, ms.ChannelName)
				},
				Archive: func(e int, skip bool) error {
					ch.stale = c38Keys[e].Marshal()
					latest := []byte{0}
					if skip {
						latest = c38Keys[e].Marshal()
					}
					g.UnregisterStaleGroups(latest)
					ch.stale = nil
					return nil
				},
				Dump: func() ([]verifadapt.RegRecord, string) { return c38Dump(g) },
			}, nil
		},
	})
}
