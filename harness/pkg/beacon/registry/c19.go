package registry

// C19 (beacon membership records): memberships are registered through the
// real Groups registry / persistentStorage on a simulated disk, durable files
// are then corrupted as a crash or a bad disk would (torn prefix of any
// length, empty file, bit flips, protobuf-level edits, also of the embedded
// ThresholdSigner record), and the node restarts (NewGroupRegistry +
// LoadExistingGroups). The per-file work of start-up runs in goroutines
// keep-core spawns (a panic there kills the process), so each durable file
// first goes through the same calls (Membership.Unmarshal, the group key
// lookup key) in a recoverable pre-flight; then the real start-up path runs.

import (
	"fmt"
	"math/big"
	"sort"
	"testing"

	bn256 "github.com/ethereum/go-ethereum/crypto/bn256/cloudflare"
	"github.com/ipfs/go-log"

	"github.com/keep-network/keep-core/pkg/beacon/dkg"
	"github.com/keep-network/keep-core/pkg/beacon/event"
	"github.com/keep-network/keep-core/pkg/chain"
	"github.com/keep-network/keep-core/pkg/internal/verifadapt"
	"github.com/keep-network/keep-core/pkg/protocol/group"
	"github.com/keep-network/keep-core/pkg/subscription"

	"verifsim"
)

func init() {
	verifScenarios["C19"] = verifsim.Scenario{Bubble: false, Fn: c19Run, MinBudget: 150}
}

type c19Chain struct{}

func (c19Chain) OnGroupRegistered(func(groupRegistration *event.GroupRegistration)) subscription.EventSubscription {
	panic("not used")
}
func (c19Chain) IsGroupRegistered(groupPublicKey []byte) (bool, error) { return true, nil }
func (c19Chain) IsStaleGroup(groupPublicKey []byte) (bool, error)      { return false, nil }

func c19Scalar(tp *verifsim.Tape, label string) *big.Int {
	v := new(big.Int).SetBytes(tp.Bytes(label, 32))
	v.Mod(v, bn256.Order)
	if v.Sign() == 0 {
		v.SetInt64(1)
	}
	return v
}

func c19Run(t *testing.T, r *verifsim.Run) {
	tp := r.T
	lg := log.Logger("verif-c19-registry")
	disk := verifadapt.NewSimDisk()
	g := NewGroupRegistry(lg, c19Chain{}, disk.Handle())
	g.LoadExistingGroups()

	nGroups := 1 + tp.Choose("groups", 2)
	type rec struct {
		ms   *Membership
		file string
	}
	var saved []rec
	for e := 0; e < nGroups; e++ {
		gpk := new(bn256.G2).ScalarBaseMult(c19Scalar(tp, "group-key"))
		size := 2 + tp.Choose("group-size", 3)
		nMine := 1 + tp.Choose("my-seats", 2)
		shares := map[group.MemberIndex]*bn256.G2{}
		var ops []chain.Address
		for i := 1; i <= size; i++ {
			shares[group.MemberIndex(i)] = new(bn256.G2).ScalarBaseMult(c19Scalar(tp, "pub-share"))
			ops = append(ops, chain.Address(fmt.Sprintf("operator-%d-%d", e, i)))
		}
		for m := 1; m <= nMine; m++ {
			signer := dkg.NewThresholdSigner(group.MemberIndex(m), gpk, c19Scalar(tp, "priv-share"), shares, ops)
			channel := fmt.Sprintf("channel-%d", e)
			if err := g.RegisterGroup(signer, channel); err != nil {
				r.Failf("C19:valid-record-not-saved:beacon-membership", "RegisterGroup failed on a healthy disk: %v", err)
				return
			}
			saved = append(saved, rec{&Membership{Signer: signer, ChannelName: channel}, fmt.Sprintf("membership_%d", m)})
		}
	}
	files := disk.CurrentFiles()
	if len(files) != len(saved) {
		r.Failf("C19:valid-record-not-saved:beacon-membership", "%d memberships registered, %d files on disk", len(saved), len(files))
		return
	}
	r.Probe("record:beacon-membership")
	r.Probe("record:beacon-threshold-signer")

	intact := map[string]bool{}
	var kinds []string
	for _, f := range files {
		var nb []byte
		var kind string
		if tp.Chance("corrupt-signer-only", 1, 4) {
			// the embedded ThresholdSigner record (field 1 of pb.Membership)
			fs, ok := verifadapt.PBParse(f.Data)
			if !ok {
				r.Inconclusive("saved-membership-not-protobuf")
				return
			}
			kind = "intact"
			for i := range fs {
				if fs[i].Num == 1 {
					var sub string
					fs[i].Data, sub = verifadapt.CorruptFile(tp, fs[i].Data)
					if sub != "intact" {
						kind = "signer:" + sub
					}
				}
			}
			nb = verifadapt.PBBuild(fs)
			if kind == "intact" {
				nb = f.Data
			}
		} else {
			nb, kind = verifadapt.CorruptFile(tp, f.Data)
		}
		kinds = append(kinds, kind)
		if kind == "intact" {
			intact[f.Dir+"/"+f.Name] = true
			continue
		}
		r.Fault("disk:" + kind)
		disk.PutCurrent(f.Dir, f.Name, nb)
	}
	r.Logf("membership files: %v", kinds)

	// pre-flight of the per-file start-up work
	for _, f := range disk.CurrentFiles() {
		ms := &Membership{}
		var uerr error
		if p, v, stk := verifadapt.GuardedCall(func() { uerr = ms.Unmarshal(f.Data) }); p {
			r.Failf("C19:startup-panic:beacon-membership:"+verifadapt.PanicSite(stk),
				"restart with a damaged membership file: Membership.Unmarshal (called from a goroutine of persistentStorage.readAll without recover, i.e. the node dies at start-up) panics on file %s/%s with %d bytes: %v\n%s",
				f.Dir, f.Name, len(f.Data), v, stk)
			return
		}
		if uerr != nil {
			r.Probe("damaged-membership-file-rejected")
			continue
		}
		if p, v, stk := verifadapt.GuardedCall(func() {
			_ = groupKeyToString(ms.Signer.GroupPublicKeyBytes())
			_ = ms.Signer.MemberID()
		}); p {
			r.Failf("C19:startup-panic:beacon-membership:"+verifadapt.PanicSite(stk),
				"restart with a damaged membership file: Membership.Unmarshal ACCEPTS file %s/%s (%d bytes) and LoadExistingGroups' next step on the returned value panics: %v\n%s",
				f.Dir, f.Name, len(f.Data), v, stk)
			return
		}
		if !intact[f.Dir+"/"+f.Name] {
			r.Probe("damaged-membership-file-accepted-as-record")
		}
	}
	// real start-up
	g2 := NewGroupRegistry(lg, c19Chain{}, disk.Reopen())
	if p, v, stk := verifadapt.GuardedCall(func() { g2.LoadExistingGroups() }); p {
		r.Failf("C19:startup-panic:beacon-membership:"+verifadapt.PanicSite(stk), "LoadExistingGroups panicked: %v\n%s", v, stk)
		return
	}
	for _, s := range saved {
		dir := fmt.Sprintf("%x", s.ms.Signer.GroupPublicKeyBytesCompressed())
		if !intact[dir+"/"+s.file] {
			continue
		}
		loaded := g2.GetGroup(s.ms.Signer.GroupPublicKeyBytes())
		sort.Slice(loaded, func(i, j int) bool { return loaded[i].Signer.MemberID() < loaded[j].Signer.MemberID() })
		want := verifadapt.Canon(s.ms)
		found := false
		d := ""
		for _, l := range loaded {
			c := verifadapt.Canon(l)
			if c == want {
				found = true
			} else if l.Signer.MemberID() == s.ms.Signer.MemberID() {
				d = verifadapt.CanonDiff(want, c)
			}
		}
		if !found {
			r.Failf("C19:roundtrip-mismatch:beacon-membership", "the intact membership record %s/%s did not load back equal after the restart (%d memberships of the group loaded) %s", dir, s.file, len(loaded), d)
			return
		}
		r.Probe("intact-membership-record-loaded-equal")
	}
}
