package beacon

import (
	"testing"

	"verifsim"
)

var verifScenarios = map[string]verifsim.Scenario{}

func TestVerif(t *testing.T) { verifsim.Main(t, verifScenarios) }
