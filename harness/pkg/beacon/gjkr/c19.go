package gjkr

// C19 (GJKR part): the real gjkr.Execute runs on n members over the simulated
// network (approach of c01.go, honest code on every seat). One seat is
// "hostile on the wire": the envelopes it publishes are replaced by
// tape-corrupted copies (verifadapt mutation recipes), optionally followed by
// the genuine one. The victims are the other, RUNNING members: a panic in
// their unmarshalers (Net.Decode) or in their protocol goroutine (state
// Receive and everything the phases compute from accepted messages) is a
// violation. In addition an observer node with the real RegisterUnmarshallers
// registration receives every genuine envelope (round-trip oracle) and a batch
// of corruptions of the first envelope of each type (hostile oracle), which
// guarantees that every registered message type is hit in every run;
// accusation / revealed-key messages, which are empty in honest runs, are
// also built with tape keys.
//
// Message contents come from crypto/rand, and what a byte-level corruption
// does to the protocol depends on them. Therefore the whole plan of a run
// (which recipes hit which message type) is drawn from the tape BEFORE the
// protocol starts, and the event log carries only that plan: tape consumption
// and fingerprint do not depend on key material.

import (
	"fmt"
	"math/big"
	"runtime/debug"
	"sort"
	"strings"
	"testing"
	"testing/synctest"

	"github.com/ipfs/go-log/v2"
	"github.com/keep-network/keep-core/pkg/chain"
	"github.com/keep-network/keep-core/pkg/chain/local_v1"
	"github.com/keep-network/keep-core/pkg/crypto/ephemeral"
	"github.com/keep-network/keep-core/pkg/internal/verifadapt"
	"github.com/keep-network/keep-core/pkg/net"
	"github.com/keep-network/keep-core/pkg/protocol/group"

	"verifsim"
)

func init() {
	verifScenarios["C19"] = verifsim.Scenario{Bubble: true, Fn: c19Run, MinBudget: 60}
}

type c19Member struct {
	idx    group.MemberIndex
	node   *verifadapt.NetNode
	blocks *verifadapt.NodeBlocks
	done   bool
	err    error
	res    *Result
}

var c19Types = []string{
	"gjkr/ephemeral_public_key",
	"gjkr/member_commitments",
	"gjkr/peer_shares",
	"gjkr/secret_shares_accusations",
	"gjkr/member_public_key_share_points",
	"gjkr/points_accusations_message",
	"gjkr/misbehaved_ephemeral_keys_message",
}

type c19Plan struct {
	observer    []verifadapt.MutationRecipe // corruptions of the first envelope of the type, for the observer
	inProtocol  []verifadapt.MutationRecipe // corrupted copies the hostile seat publishes instead
	genuineToo  bool                        // ... followed by the genuine message
	usedObs     bool
	usedHostile bool
}

func c19Key(tp *verifsim.Tape, label string) *ephemeral.PrivateKey {
	b := tp.Bytes(label, 32)
	b[0] &= 0x7f
	b[31] |= 1
	return ephemeral.UnmarshalPrivateKey(b)
}

func c19Names(rs []verifadapt.MutationRecipe) string {
	var s []string
	for _, rc := range rs {
		s = append(s, rc.Requested())
	}
	return strings.Join(s, ",")
}

func c19Run(t *testing.T, r *verifsim.Run) {
	tp := r.T
	n := 3 + tp.Choose("n", 2)
	thr := 1
	session := "c19-session"
	hostileSeat := group.MemberIndex(1 + tp.Choose("hostile-seat", n))
	start := uint64(2 + tp.Choose("start", 3))
	r.Logf("cfg n=%d hostile-seat=%d start=%d", n, hostileSeat, start)

	// ---- the plan (all tape decisions of the protocol part) ----
	plan := map[string]*c19Plan{}
	for _, typ := range c19Types {
		p := &c19Plan{}
		for i, k := 0, 2+tp.Choose("observer-attacks", 5); i < k; i++ {
			p.observer = append(p.observer, verifadapt.DrawRecipe(tp))
		}
		for i, k := 0, tp.Weighted("hostile-copies", 2, 6, 2); i < k; i++ {
			p.inProtocol = append(p.inProtocol, verifadapt.DrawRecipe(tp))
		}
		p.genuineToo = len(p.inProtocol) == 0 || tp.Chance("hostile-genuine-too", 1, 2)
		plan[typ] = p
		r.Logf("plan %s: observer [%s] in-protocol [%s] genuine-too=%v", typ, c19Names(p.observer), c19Names(p.inProtocol), p.genuineToo)
	}

	sn := verifadapt.NewNet()
	logger := log.Logger("verif-c19-gjkr")
	var addrs []chain.Address
	var signing chain.Signing
	var members []*c19Member
	for i := 1; i <= n; i++ {
		nn := sn.AddNode(local_v1.DefaultCurve)
		RegisterUnmarshallers(nn.Channel("gjkr"))
		if signing == nil {
			signing = local_v1.NewSigner(nn.Priv)
		}
		a, err := signing.PublicKeyToAddress(nn.Pub)
		if err != nil {
			panic(err)
		}
		addrs = append(addrs, a)
		members = append(members, &c19Member{idx: group.MemberIndex(i), node: nn, blocks: verifadapt.NewNodeBlocks(0)})
	}
	observer := sn.AddNode(local_v1.DefaultCurve)
	RegisterUnmarshallers(observer.Channel("gjkr"))
	hostileNode := members[int(hostileSeat)-1].node
	h := verifadapt.NewHostile(r, "C19", sn, hostileNode.Index, observer.Index, "gjkr")

	mv := group.NewMembershipValidator(logger, addrs, signing)
	seed := big.NewInt(int64(1000 + tp.Choose("seed", 1000)))
	var injected []string
	for _, mb := range members {
		mb := mb
		go func() {
			defer func() {
				if p := recover(); p != nil {
					mb.done = true
					mb.err = fmt.Errorf("panic")
					r.Failf("C19:handler-panic:gjkr-protocol",
						"member %d (running the real gjkr.Execute) panicked after corrupted messages of the hostile seat %d were delivered [%s]: %v\n%s",
						mb.idx, hostileSeat, strings.Join(injected, " "), p, c19Trim(string(debug.Stack())))
				}
			}()
			mb.res, _, mb.err = Execute(logger, seed, session, mb.idx, n, mb.blocks, mb.node.Channel("gjkr"), thr, mv, start)
			mb.done = true
		}()
	}
	synctest.Wait()

	forgedSeq := uint64(100000)
	limit := start + ProtocolBlocks() + 3
	for b := uint64(1); b <= limit && !r.Failed(); b++ {
		for _, mb := range members {
			mb.blocks.Advance(b)
		}
		synctest.Wait()
		r.AddSim(0, 1)
		envs := sn.Drain()
		if len(envs) == 0 {
			continue
		}
		var wire []*verifadapt.Envelope
		for _, e := range envs {
			// observer: round trip of the genuine message, then corruptions of it
			h.From = e.From
			h.RoundTripPayload(e.Sent.(net.TaggedMarshaler), e.Payload)
			if r.Failed() {
				return
			}
			p := plan[e.Type]
			if p != nil && !p.usedObs {
				p.usedObs = true
				h.AttackWith(e.Type, e.Payload, p.observer)
				if r.Failed() {
					return
				}
			}
			if e.From != hostileNode.Index || p == nil || p.usedHostile {
				wire = append(wire, e)
				continue
			}
			// the hostile seat: corrupted copies go out first (the first message
			// of a sender wins in every phase)
			p.usedHostile = true
			basis := verifadapt.PBCanonical(e.Payload)
			for _, rc := range p.inProtocol {
				mut, kind := rc.Apply(basis)
				forgedSeq++
				wire = append(wire, &verifadapt.Envelope{From: e.From, Channel: e.Channel, Type: e.Type, Payload: mut, Seqno: forgedSeq})
				injected = append(injected, e.Type+":"+kind)
				r.Fault("in-protocol:" + kind)
				r.Probe("in-protocol-type:" + e.Type)
			}
			if p.genuineToo {
				wire = append(wire, e)
			}
		}
		for _, mb := range members {
			sn.DeliverBatch(wire, mb.node.Index)
		}
		synctest.Wait()
		r.Step()
		if h.CheckNetPanic("the traffic of block " + fmt.Sprint(b)) {
			return
		}
		alld := true
		for _, mb := range members {
			if !mb.done {
				alld = false
			}
		}
		if alld {
			break
		}
	}
	synctest.Wait()
	for _, mb := range members {
		if mb.res != nil {
			mb.res.GroupPublicKeyShares()
		}
		if mb.done && mb.err == nil {
			r.Probe("member-finished")
		} else if mb.done {
			r.Probe("member-returned-error")
		}
	}
	if r.Failed() {
		return
	}
	for _, typ := range c19Types {
		if !plan[typ].usedObs {
			r.Probe("type-not-captured-from-the-run:" + typ)
		}
	}

	// accusation / key-reveal messages with content (honest runs send empty maps)
	h.From = hostileNode.Index
	others := []int{}
	for i := 1; i <= n; i++ {
		if group.MemberIndex(i) != hostileSeat {
			others = append(others, i)
		}
	}
	sort.Ints(others)
	keys := func(label string) map[group.MemberIndex]*ephemeral.PrivateKey {
		m := map[group.MemberIndex]*ephemeral.PrivateKey{}
		k := 1 + tp.Choose(label+"-count", len(others))
		for i := 0; i < k; i++ {
			m[group.MemberIndex(others[i])] = c19Key(tp, label+"-key")
		}
		return m
	}
	built := []net.TaggedMarshaler{
		&SecretSharesAccusationsMessage{senderID: hostileSeat, sessionID: session, accusedMembersKeys: keys("ssa")},
		&PointsAccusationsMessage{senderID: hostileSeat, sessionID: session, accusedMembersKeys: keys("pa")},
		&MisbehavedEphemeralKeysMessage{senderID: hostileSeat, sessionID: session, privateKeys: keys("mek")},
	}
	for _, m := range built {
		p := h.RoundTrip(m)
		if r.Failed() || p == nil {
			return
		}
		h.Attack(m.Type(), p, 3+tp.Choose("attacks-built", 6))
		if r.Failed() {
			return
		}
	}
}

func c19Trim(s string) string {
	var out []string
	for _, l := range strings.Split(s, "\n") {
		if strings.Contains(l, "keep-network") || strings.Contains(l, "panic") {
			out = append(out, strings.TrimSpace(l))
		}
		if len(out) >= 16 {
			break
		}
	}
	return strings.Join(out, "\n")
}
