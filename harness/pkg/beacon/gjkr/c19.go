package gjkr

// C19 (GJKR part): the real gjkr.Execute runs on n members over the simulated
// network (approach of c01.go, honest code on every seat). One seat is
// "hostile on the wire": every envelope it publishes is replaced by
// tape-corrupted copies (verifadapt.Mutate), optionally followed by the
// genuine one. The victims are the other, RUNNING members: a panic in their
// unmarshalers (Net.Decode) or in their protocol goroutine (state Receive and
// everything the phases compute from accepted messages) is a violation.
// In addition an observer node with the real RegisterUnmarshallers
// registration receives every genuine envelope (round-trip oracle) and a batch
// of corruptions of each (hostile oracle), which guarantees that every
// registered message type is hit in every run; accusation / revealed-key
// messages, which are empty in honest runs, are also built with tape keys.

import (
	"fmt"
	"math/big"
	"runtime/debug"
	"sort"
	"strings"
	"testing"
	"testing/synctest"

	"github.com/ipfs/go-log/v2"
	"github.com/keep-network/keep-core/pkg/chain"
	"github.com/keep-network/keep-core/pkg/chain/local_v1"
	"github.com/keep-network/keep-core/pkg/crypto/ephemeral"
	"github.com/keep-network/keep-core/pkg/internal/verifadapt"
	"github.com/keep-network/keep-core/pkg/net"
	"github.com/keep-network/keep-core/pkg/protocol/group"

	"verifsim"
)

func init() {
	verifScenarios["C19"] = verifsim.Scenario{Bubble: true, Fn: c19Run, MinBudget: 60}
}

type c19Member struct {
	idx    group.MemberIndex
	node   *verifadapt.NetNode
	blocks *verifadapt.NodeBlocks
	done   bool
	err    error
	res    *Result
}

var c19Types = []string{
	"gjkr/ephemeral_public_key",
	"gjkr/member_commitments",
	"gjkr/peer_shares",
	"gjkr/secret_shares_accusations",
	"gjkr/member_public_key_share_points",
	"gjkr/points_accusations_message",
	"gjkr/misbehaved_ephemeral_keys_message",
}

func c19Key(tp *verifsim.Tape, label string) *ephemeral.PrivateKey {
	b := tp.Bytes(label, 32)
	b[0] &= 0x7f
	b[31] |= 1
	return ephemeral.UnmarshalPrivateKey(b)
}

func c19Run(t *testing.T, r *verifsim.Run) {
	tp := r.T
	n := 3 + tp.Choose("n", 2)
	thr := 1
	session := "c19-session"
	hostileSeat := group.MemberIndex(1 + tp.Choose("hostile-seat", n))
	start := uint64(2 + tp.Choose("start", 3))
	r.Logf("cfg n=%d hostile-seat=%d start=%d", n, hostileSeat, start)

	sn := verifadapt.NewNet()
	logger := log.Logger("verif-c19-gjkr")
	var addrs []chain.Address
	var signing chain.Signing
	var members []*c19Member
	for i := 1; i <= n; i++ {
		nn := sn.AddNode(local_v1.DefaultCurve)
		RegisterUnmarshallers(nn.Channel("gjkr"))
		if signing == nil {
			signing = local_v1.NewSigner(nn.Priv)
		}
		a, err := signing.PublicKeyToAddress(nn.Pub)
		if err != nil {
			panic(err)
		}
		addrs = append(addrs, a)
		members = append(members, &c19Member{idx: group.MemberIndex(i), node: nn, blocks: verifadapt.NewNodeBlocks(0)})
	}
	observer := sn.AddNode(local_v1.DefaultCurve)
	RegisterUnmarshallers(observer.Channel("gjkr"))
	hostileNode := members[int(hostileSeat)-1].node
	h := verifadapt.NewHostile(r, "C19", sn, hostileNode.Index, observer.Index, "gjkr")

	mv := group.NewMembershipValidator(logger, addrs, signing)
	seed := big.NewInt(int64(1000 + tp.Choose("seed", 1000)))
	var injected []string
	for _, mb := range members {
		mb := mb
		go func() {
			defer func() {
				if p := recover(); p != nil {
					mb.done = true
					mb.err = fmt.Errorf("panic")
					r.Failf("C19:handler-panic:gjkr-protocol",
						"member %d (running the real gjkr.Execute) panicked after corrupted messages of the hostile seat %d were delivered [%s]: %v\n%s",
						mb.idx, hostileSeat, strings.Join(injected, " "), p, c19Trim(string(debug.Stack())))
				}
			}()
			mb.res, _, mb.err = Execute(logger, seed, session, mb.idx, n, mb.blocks, mb.node.Channel("gjkr"), thr, mv, start)
			mb.done = true
		}()
	}
	synctest.Wait()

	seen := map[string]bool{}
	forgedSeq := uint64(100000)
	limit := start + ProtocolBlocks() + 3
	for b := uint64(1); b <= limit && !r.Failed(); b++ {
		for _, mb := range members {
			mb.blocks.Advance(b)
		}
		synctest.Wait()
		r.AddSim(0, 1)
		envs := sn.Drain()
		if len(envs) == 0 {
			continue
		}
		var wire []*verifadapt.Envelope
		for _, e := range envs {
			// observer: round trip of the genuine message, then corruptions of it
			h.From = e.From
			h.RoundTripPayload(e.Sent.(net.TaggedMarshaler), e.Payload)
			if r.Failed() {
				return
			}
			if !seen[e.Type] || tp.Chance("attack-again", 1, 4) {
				seen[e.Type] = true
				h.Attack(e.Type, e.Payload, 2+tp.Choose("attacks", 5))
				if r.Failed() {
					return
				}
			}
			if e.From != hostileNode.Index {
				wire = append(wire, e)
				continue
			}
			// the hostile seat: corrupted copies go out first (first message of a
			// sender wins in every phase)
			k := tp.Weighted("hostile-copies", 2, 6, 2)
			for i := 0; i < k; i++ {
				mut, kind := verifadapt.Mutate(tp, verifadapt.PBCanonical(e.Payload))
				forgedSeq++
				wire = append(wire, &verifadapt.Envelope{From: e.From, Channel: e.Channel, Type: e.Type, Payload: mut, Seqno: forgedSeq})
				injected = append(injected, e.Type+":"+kind)
				r.Fault("in-protocol:" + kind)
				r.Probe("in-protocol-type:" + e.Type)
			}
			if k == 0 || tp.Chance("hostile-genuine-too", 1, 2) {
				wire = append(wire, e)
			}
		}
		r.Logf("block %d: %d sent, %d on the wire", b, len(envs), len(wire))
		for _, mb := range members {
			sn.DeliverBatch(wire, mb.node.Index)
		}
		synctest.Wait()
		r.Step()
		if h.CheckNetPanic("the traffic of block " + fmt.Sprint(b)) {
			return
		}
		alld := true
		for _, mb := range members {
			if !mb.done {
				alld = false
			}
		}
		if alld {
			break
		}
	}
	synctest.Wait()
	for _, mb := range members {
		if mb.res != nil {
			mb.res.GroupPublicKeyShares()
		}
		if mb.done && mb.err == nil {
			r.Probe("member-finished")
		} else if mb.done {
			r.Probe("member-returned-error")
		}
	}
	if r.Failed() {
		return
	}

	// accusation / key-reveal messages with content (honest runs send empty maps)
	h.From = hostileNode.Index
	others := []int{}
	for i := 1; i <= n; i++ {
		if group.MemberIndex(i) != hostileSeat {
			others = append(others, i)
		}
	}
	sort.Ints(others)
	keys := func(label string) map[group.MemberIndex]*ephemeral.PrivateKey {
		m := map[group.MemberIndex]*ephemeral.PrivateKey{}
		k := 1 + tp.Choose(label+"-count", len(others))
		for i := 0; i < k; i++ {
			m[group.MemberIndex(others[i])] = c19Key(tp, label+"-key")
		}
		return m
	}
	built := []net.TaggedMarshaler{
		&SecretSharesAccusationsMessage{senderID: hostileSeat, sessionID: session, accusedMembersKeys: keys("ssa")},
		&PointsAccusationsMessage{senderID: hostileSeat, sessionID: session, accusedMembersKeys: keys("pa")},
		&MisbehavedEphemeralKeysMessage{senderID: hostileSeat, sessionID: session, privateKeys: keys("mek")},
	}
	for _, m := range built {
		p := h.RoundTrip(m)
		if r.Failed() || p == nil {
			return
		}
		h.Attack(m.Type(), p, 3+tp.Choose("attacks-built", 6))
		if r.Failed() {
			return
		}
		seen[m.Type()] = true
	}
	for _, typ := range c19Types {
		if !seen[typ] {
			r.Probe("type-not-captured:" + typ)
		}
	}
}

func c19Trim(s string) string {
	var out []string
	for _, l := range strings.Split(s, "\n") {
		if strings.Contains(l, "keep-network") || strings.Contains(l, "panic") {
			out = append(out, strings.TrimSpace(l))
		}
		if len(out) >= 16 {
			break
		}
	}
	return strings.Join(out, "\n")
}
