package gjkr

// E1: real gjkr.Execute on n members over simulated blocks and broadcast, with
// up to t Byzantine members whose outgoing messages are rewritten by a
// white-box mutator. Oracles for C01 (agreement), C02 (share consistency),
// C12 (claimed index) and C14 (phase timing of the real GJKR states).

import (
	"fmt"
	"os"
	"math/big"
	"sort"
	"testing"
	"testing/synctest"

	bn256 "github.com/ethereum/go-ethereum/crypto/bn256/cloudflare"
	"github.com/ipfs/go-log/v2"
	"github.com/keep-network/keep-core/pkg/chain"
	"github.com/keep-network/keep-core/pkg/chain/local_v1"
	"github.com/keep-network/keep-core/pkg/crypto/ephemeral"
	"github.com/keep-network/keep-core/pkg/internal/verifadapt"
	"github.com/keep-network/keep-core/pkg/net"
	"github.com/keep-network/keep-core/pkg/protocol/group"
	"github.com/keep-network/keep-core/pkg/protocol/state"

	"verifsim"
)

func init() {
	verifScenarios["C01"] = verifsim.Scenario{Bubble: true, Fn: func(t *testing.T, r *verifsim.Run) { c01Run(t, r, "C01") }, MinBudget: 60}
	verifScenarios["C02"] = verifsim.Scenario{Bubble: true, Fn: func(t *testing.T, r *verifsim.Run) { c01Run(t, r, "C02") }, MinBudget: 60}
	verifScenarios["C12"] = verifsim.Scenario{Bubble: true, Fn: func(t *testing.T, r *verifsim.Run) { c01Run(t, r, "C12") }, MinBudget: 60}
	verifScenarios["C14"] = verifsim.Scenario{Bubble: true, Fn: func(t *testing.T, r *verifsim.Run) { c01Run(t, r, "C14") }, MinBudget: 40}
}

type c01Member struct {
	idx     group.MemberIndex
	node    *verifadapt.NetNode
	blocks  *verifadapt.NodeBlocks
	ch      *verifadapt.Chan
	corrupt bool
	ek      *EphemeralKeyPairGeneratingMember // corrupt members only
	res     *Result
	end     uint64
	err     error
	done    bool
	silentFrom int // corrupt: phase from which the member is silent (0 = never)
}

// behaviours per message kind; 0 is always "honest"
const (
	c01BHonest = iota
	c01BSilent
	c01BVariantA
	c01BVariantB
	c01BVariantC
	c01BVariantD
)

type c01Sim struct {
	r       *verifsim.Run
	tp      *verifsim.Tape
	n, t    int
	members []*c01Member
	sn      *verifadapt.Net
	session string
	// wire knowledge for the mutator
	p1 map[group.MemberIndex]*EphemeralPublicKeyMessage // as sent
	honest  []group.MemberIndex
	corrupt []group.MemberIndex
	forgedSeq uint64
	mode string
	// diagnosis of the "accuser disqualified early" pattern (DESIGN §12 H1):
	// phase (4|8) -> accused corrupt member -> honest accusers
	honestAccusers map[int]map[group.MemberIndex]map[group.MemberIndex]bool
	// phase -> corrupt member whose broadcast accusation message carries a
	// genuine (true) accusation
	trueAccuser map[int]map[group.MemberIndex]bool
	// corrupt sender -> members its first broadcast shares message has no entry for
	missingShareFor map[group.MemberIndex][]group.MemberIndex
	// scripted two-member plan (0 = none): planC gives planA a wrong share in
	// phase 3; planA keeps quiet / mixes entries in phase 4 and raises the (true)
	// accusation together with bogus entries in phase 4 or only in phase 8
	plan         int
	planA, planC group.MemberIndex
}

func (s *c01Sim) m(idx group.MemberIndex) *c01Member { return s.members[int(idx)-1] }

func (s *c01Sim) randScalar(label string) *big.Int {
	b := s.tp.Bytes(label, 32)
	x := new(big.Int).SetBytes(b)
	x.Mod(x, bn256.Order)
	if x.Sign() == 0 {
		x.SetInt64(1)
	}
	return x
}

// symKey computes the symmetric key corrupt member c shares with member o.
func (s *c01Sim) symKey(c, o group.MemberIndex) ephemeral.SymmetricKey {
	cm := s.m(c)
	if cm.ek == nil {
		return nil
	}
	kp, ok := cm.ek.ephemeralKeyPairs[o]
	if !ok {
		return nil
	}
	om, ok := s.p1[o]
	if !ok {
		return nil
	}
	pub, ok := om.ephemeralPublicKeys[c]
	if !ok || pub == nil {
		return nil
	}
	return kp.PrivateKey.Ecdh(pub)
}

func (s *c01Sim) forge(from *c01Member, msg net.TaggedMarshaler) *verifadapt.Envelope {
	payload, err := msg.Marshal()
	if err != nil {
		return nil
	}
	s.forgedSeq++
	return &verifadapt.Envelope{From: from.node.Index, Channel: "gjkr", Type: msg.Type(), Payload: payload, Seqno: 100000 + s.forgedSeq, Sent: msg}
}

func (s *c01Sim) pickMember(label string, pool []group.MemberIndex) group.MemberIndex {
	if len(pool) == 0 {
		return 1
	}
	return pool[s.tp.Choose(label, len(pool))]
}

func (s *c01Sim) others(c group.MemberIndex) []group.MemberIndex {
	out := []group.MemberIndex{}
	for i := 1; i <= s.n; i++ {
		if group.MemberIndex(i) != c {
			out = append(out, group.MemberIndex(i))
		}
	}
	return out
}

// mutate rewrites one outgoing envelope of corrupt member c. It returns the
// envelopes to broadcast instead (possibly none, possibly several).
func (s *c01Sim) mutate(c *c01Member, e *verifadapt.Envelope, phase int) []*verifadapt.Envelope {
	tp, r := s.tp, s.r
	if c.silentFrom != 0 && phase >= c.silentFrom {
		r.Fault("byz-crashed-silent")
		return nil
	}
	if s.mode == "C12" {
		return s.mutateC12(c, e)
	}
	if s.plan != 0 {
		if planned, ok := s.mutatePlanned(c, e); ok {
			return planned
		}
		if c.idx == s.planA || c.idx == s.planC {
			// the two plan members otherwise follow the protocol, so that the
			// scripted multi-step history is not destroyed by unrelated deviations
			return []*verifadapt.Envelope{e}
		}
	}
	out := []*verifadapt.Envelope{}
	// optional impersonation / foreign session copy sent BEFORE the genuine message
	switch tp.Weighted("byz-extra", 12, 2, 1, 1) {
	case 1: // claim an honest member's index with own network key
		if v := s.pickMember("imp-victim", s.honest); true {
			if f := s.forge(c, c01Reindex(e.Sent, v, s.session)); f != nil {
				out = append(out, f)
				r.Fault("byz-claim-other-index")
			}
		}
	case 2: // same content, other session
		if f := s.forge(c, c01Reindex(e.Sent, c.idx, s.session+"-other")); f != nil {
			out = append(out, f)
			r.Fault("byz-other-session")
		}
	case 3: // claim index 0 / n+1
		v := group.MemberIndex(0)
		if tp.Chance("imp-high", 1, 2) {
			v = group.MemberIndex(s.n + 1)
		}
		if f := s.forge(c, c01Reindex(e.Sent, v, s.session)); f != nil {
			out = append(out, f)
			r.Fault("byz-claim-bad-index")
		}
	}
	switch m := e.Sent.(type) {
	case *EphemeralPublicKeyMessage:
		switch tp.Weighted("byz-p1", 10, 2, 2) {
		case 0:
			out = append(out, e)
		case 1:
			r.Fault("byz-p1-silent")
		case 2: // omit the key for one member
			cp := &EphemeralPublicKeyMessage{senderID: m.senderID, sessionID: m.sessionID, ephemeralPublicKeys: map[group.MemberIndex]*ephemeral.PublicKey{}}
			victim := s.pickMember("p1-omit", s.others(c.idx))
			for k, v := range m.ephemeralPublicKeys {
				if k != victim {
					cp.ephemeralPublicKeys[k] = v
				}
			}
			if f := s.forge(c, cp); f != nil {
				out = append(out, f)
				r.Fault("byz-p1-missing-key")
			}
		}
	case *PeerSharesMessage:
		switch tp.Weighted("byz-p3s", 6, 1, 6, 2, 2) {
		case 0:
			out = append(out, e)
		case 1:
			r.Fault("byz-p3-shares-silent")
		case 2, 3, 4: // bad shares for chosen receivers
			cp := newPeerSharesMessage(m.senderID, m.sessionID)
			for k, v := range m.shares {
				cp.shares[k] = v
			}
			nv := 1 + tp.Choose("p3-victims", 2)
			for i := 0; i < nv; i++ {
				victim := s.pickMember("p3-victim", s.others(c.idx))
				kind := tp.Choose("p3-kind", 3)
				switch kind {
				case 0: // well-formed encryption of a wrong share
					if key := s.symKey(c.idx, victim); key != nil {
						ws := s.randScalar("p3-wrong-share")
						wt := s.randScalar("p3-wrong-share-t")
						if err := cp.addShares(victim, ws, wt, key); err == nil {
							r.Fault("byz-p3-inconsistent-share")
						}
					}
				case 1: // undecryptable garbage
					cp.shares[victim] = &peerShares{encryptedShareS: tp.Bytes("p3-garbage", 48), encryptedShareT: tp.Bytes("p3-garbage-t", 48)}
					r.Fault("byz-p3-garbage-share")
				case 2: // no entry for the victim
					delete(cp.shares, victim)
					r.Fault("byz-p3-missing-share")
				}
			}
			if f := s.forge(c, cp); f != nil {
				out = append(out, f)
			}
		}
	case *MemberCommitmentsMessage:
		switch tp.Weighted("byz-p3c", 12, 1, 1, 1) {
		case 0:
			out = append(out, e)
		case 1:
			r.Fault("byz-p3-commitments-silent")
		case 2: // wrong count
			cp := &MemberCommitmentsMessage{senderID: m.senderID, sessionID: m.sessionID, commitments: append([]*bn256.G1(nil), m.commitments...)}
			if tp.Chance("p3c-add", 1, 2) {
				cp.commitments = append(cp.commitments, new(bn256.G1).ScalarBaseMult(big.NewInt(7)))
			} else if len(cp.commitments) > 0 {
				cp.commitments = cp.commitments[:len(cp.commitments)-1]
			}
			if f := s.forge(c, cp); f != nil {
				out = append(out, f)
				r.Fault("byz-p3-commitment-count")
			}
		case 3: // one commitment replaced
			cp := &MemberCommitmentsMessage{senderID: m.senderID, sessionID: m.sessionID, commitments: append([]*bn256.G1(nil), m.commitments...)}
			if len(cp.commitments) > 0 {
				cp.commitments[tp.Choose("p3c-which", len(cp.commitments))] = new(bn256.G1).ScalarBaseMult(s.randScalar("p3c-rand"))
			}
			if f := s.forge(c, cp); f != nil {
				out = append(out, f)
				r.Fault("byz-p3-wrong-commitment")
			}
		}
	case *SecretSharesAccusationsMessage:
		keys := s.mutateAccusations(c, m.accusedMembersKeys, "p4")
		if keys == nil {
			r.Fault("byz-p4-silent")
		} else if f := s.forge(c, &SecretSharesAccusationsMessage{senderID: m.senderID, sessionID: m.sessionID, accusedMembersKeys: keys}); f != nil {
			out = append(out, f)
		}
	case *MemberPublicKeySharePointsMessage:
		switch tp.Weighted("byz-p7", 8, 1, 3, 1, 4, 2) {
		case 5: // too MANY points: the real polynomial plus delta*prod(x-h) over all honest receivers h,
			// i.e. consistent with every honest member's share but of higher degree
			poly := []*big.Int{s.randScalar("p7x-delta")}
			for _, h := range s.honest {
				root := big.NewInt(int64(h))
				next := make([]*big.Int, len(poly)+1)
				for d := range next {
					next[d] = big.NewInt(0)
				}
				for d, cf := range poly {
					next[d+1].Add(next[d+1], cf)
					next[d].Sub(next[d], new(big.Int).Mul(cf, root))
				}
				for d := range next {
					next[d].Mod(next[d], bn256.Order)
				}
				poly = next
			}
			cp := &MemberPublicKeySharePointsMessage{senderID: m.senderID, sessionID: m.sessionID, publicKeySharePoints: append([]*bn256.G2(nil), m.publicKeySharePoints...)}
			for d, cf := range poly {
				pt := new(bn256.G2).ScalarBaseMult(cf)
				if d < len(cp.publicKeySharePoints) {
					cp.publicKeySharePoints[d] = new(bn256.G2).Add(cp.publicKeySharePoints[d], pt)
				} else {
					cp.publicKeySharePoints = append(cp.publicKeySharePoints, pt)
				}
			}
			if f := s.forge(c, cp); f != nil {
				out = append(out, f)
				r.Fault("byz-p7-extra-degree-points-consistent-with-honest-shares")
			}
		case 4: // points of a polynomial that agrees with the real one only at a chosen subset of receivers
			k := 1 + tp.Choose("p7-subset-size", len(m.publicKeySharePoints)-1+0)
			if k > len(m.publicKeySharePoints)-1 {
				k = len(m.publicKeySharePoints) - 1
			}
			if k < 1 {
				out = append(out, e)
				break
			}
			oth := s.others(c.idx)
			pm := tp.Perm("p7-subset", len(oth))
			// p(x) = delta * prod_{i in K} (x - i), degree k <= t
			poly := []*big.Int{s.randScalar("p7-delta")}
			for j := 0; j < k; j++ {
				root := big.NewInt(int64(oth[pm[j]]))
				next := make([]*big.Int, len(poly)+1)
				for d := range next {
					next[d] = big.NewInt(0)
				}
				for d, cf := range poly {
					// (cf x^d) * (x - root)
					next[d+1].Add(next[d+1], cf)
					next[d].Sub(next[d], new(big.Int).Mul(cf, root))
				}
				for d := range next {
					next[d].Mod(next[d], bn256.Order)
				}
				poly = next
			}
			cp := &MemberPublicKeySharePointsMessage{senderID: m.senderID, sessionID: m.sessionID, publicKeySharePoints: append([]*bn256.G2(nil), m.publicKeySharePoints...)}
			for d, cf := range poly {
				if d < len(cp.publicKeySharePoints) {
					cp.publicKeySharePoints[d] = new(bn256.G2).Add(cp.publicKeySharePoints[d], new(bn256.G2).ScalarBaseMult(cf))
				}
			}
			if f := s.forge(c, cp); f != nil {
				out = append(out, f)
				r.Fault("byz-p7-points-valid-for-subset-only")
			}
		case 0:
			out = append(out, e)
		case 1:
			r.Fault("byz-p7-silent")
		case 2: // wrong points
			cp := &MemberPublicKeySharePointsMessage{senderID: m.senderID, sessionID: m.sessionID, publicKeySharePoints: append([]*bn256.G2(nil), m.publicKeySharePoints...)}
			if len(cp.publicKeySharePoints) > 0 {
				cp.publicKeySharePoints[tp.Choose("p7-which", len(cp.publicKeySharePoints))] = new(bn256.G2).ScalarBaseMult(s.randScalar("p7-rand"))
			}
			if f := s.forge(c, cp); f != nil {
				out = append(out, f)
				r.Fault("byz-p7-wrong-points")
			}
		case 3: // wrong count
			cp := &MemberPublicKeySharePointsMessage{senderID: m.senderID, sessionID: m.sessionID, publicKeySharePoints: append([]*bn256.G2(nil), m.publicKeySharePoints...)}
			if len(cp.publicKeySharePoints) > 0 {
				cp.publicKeySharePoints = cp.publicKeySharePoints[:len(cp.publicKeySharePoints)-1]
			}
			if f := s.forge(c, cp); f != nil {
				out = append(out, f)
				r.Fault("byz-p7-point-count")
			}
		}
	case *PointsAccusationsMessage:
		keys := s.mutateAccusations(c, m.accusedMembersKeys, "p8")
		if keys == nil {
			r.Fault("byz-p8-silent")
		} else if f := s.forge(c, &PointsAccusationsMessage{senderID: m.senderID, sessionID: m.sessionID, accusedMembersKeys: keys}); f != nil {
			out = append(out, f)
		}
	case *MisbehavedEphemeralKeysMessage:
		switch tp.Weighted("byz-p10", 8, 1, 2, 2, 1, 1, 2) {
		case 6: // additionally reveal the key shared with another corrupt member
			cp := &MisbehavedEphemeralKeysMessage{senderID: m.senderID, sessionID: m.sessionID, privateKeys: map[group.MemberIndex]*ephemeral.PrivateKey{}}
			for k, v := range m.privateKeys {
				cp.privateKeys[k] = v
			}
			if len(s.corrupt) > 1 {
				v := s.pickMember("p10-corrupt", s.corrupt)
				if kp, ok := c.ek.ephemeralKeyPairs[v]; ok && v != c.idx {
					cp.privateKeys[v] = kp.PrivateKey
				}
			}
			if f := s.forge(c, cp); f != nil {
				out = append(out, f)
				r.Fault("byz-p10-reveal-for-corrupt-member")
			}
		case 0:
			out = append(out, e)
		case 1:
			r.Fault("byz-p10-silent")
		case 2: // reveal the key shared with an (operating) honest member too
			cp := &MisbehavedEphemeralKeysMessage{senderID: m.senderID, sessionID: m.sessionID, privateKeys: map[group.MemberIndex]*ephemeral.PrivateKey{}}
			for k, v := range m.privateKeys {
				cp.privateKeys[k] = v
			}
			v := s.pickMember("p10-extra", s.honest)
			if kp, ok := c.ek.ephemeralKeyPairs[v]; ok {
				cp.privateKeys[v] = kp.PrivateKey
			}
			if f := s.forge(c, cp); f != nil {
				out = append(out, f)
				r.Fault("byz-p10-extra-key")
			}
		case 3: // reveal nothing
			cp := &MisbehavedEphemeralKeysMessage{senderID: m.senderID, sessionID: m.sessionID, privateKeys: map[group.MemberIndex]*ephemeral.PrivateKey{}}
			if f := s.forge(c, cp); f != nil {
				out = append(out, f)
				r.Fault("byz-p10-no-keys")
			}
		case 5: // reveal a key "for" itself next to the genuine ones
			cp := &MisbehavedEphemeralKeysMessage{senderID: m.senderID, sessionID: m.sessionID, privateKeys: map[group.MemberIndex]*ephemeral.PrivateKey{}}
			for k, v := range m.privateKeys {
				cp.privateKeys[k] = v
			}
			if kp, ok := c.ek.ephemeralKeyPairs[s.pickMember("p10-self-key", s.others(c.idx))]; ok {
				cp.privateKeys[c.idx] = kp.PrivateKey
			}
			if f := s.forge(c, cp); f != nil {
				out = append(out, f)
				r.Fault("byz-p10-self-key")
			}
		case 4: // wrong keys for everything revealed
			cp := &MisbehavedEphemeralKeysMessage{senderID: m.senderID, sessionID: m.sessionID, privateKeys: map[group.MemberIndex]*ephemeral.PrivateKey{}}
			ids := []int{}
			for k := range m.privateKeys {
				ids = append(ids, int(k))
			}
			sort.Ints(ids)
			for _, k := range ids {
				cp.privateKeys[group.MemberIndex(k)] = ephemeral.UnmarshalPrivateKey(s.randScalar("p10-wrong").Bytes())
			}
			if f := s.forge(c, cp); f != nil {
				out = append(out, f)
				r.Fault("byz-p10-wrong-keys")
			}
		}
	default:
		out = append(out, e)
	}
	// conflicting duplicate: the genuine message after the mutated one (first wins)
	if len(out) > 0 && out[len(out)-1] != e && tp.Chance("byz-dup-conflict", 1, 6) {
		out = append(out, e)
		r.Fault("byz-conflicting-duplicate")
	}
	return out
}

// mutateC12: the corrupt member follows the protocol but additionally
// broadcasts messages that claim a member index its network key does not hold
// (an honest member's, 0, n+1, 255) and, acting as an honest member's
// concurrent other session, messages with a foreign session id. The forged
// content is chosen so that ACCEPTING it damages an honest member (first
// message per sender wins), which the agreement oracle then exposes.
func (s *c01Sim) mutateC12(c *c01Member, e *verifadapt.Envelope) []*verifadapt.Envelope {
	tp, r := s.tp, s.r
	out := []*verifadapt.Envelope{}
	k := tp.Weighted("c12-forge", 3, 5, 2, 2)
	for i := 0; i < k; i++ {
		kind := tp.Weighted("c12-kind", 6, 2, 3)
		switch kind {
		case 0: // claim an honest member's seat
			v := s.pickMember("c12-victim", s.honest)
			if f := s.forge(c, s.damaging(c, e.Sent, v, s.session)); f != nil {
				out = append(out, f)
				r.Fault("claim-honest-seat")
			}
		case 1: // out-of-range seats
			v := []group.MemberIndex{0, group.MemberIndex(s.n + 1), 255}[tp.Choose("c12-oor", 3)]
			if f := s.forge(c, s.damaging(c, e.Sent, v, s.session)); f != nil {
				out = append(out, f)
				r.Fault("claim-out-of-range-seat")
			}
		case 2: // an honest operator's OTHER session talks on the same channel
			v := s.pickMember("c12-session-victim", s.honest)
			if f := s.forge(s.m(v), s.damaging(c, e.Sent, v, s.session+"-other")); f != nil {
				out = append(out, f)
				r.Fault("foreign-session-message-from-honest-operator")
			}
		}
	}
	return append(out, e)
}

// damaging builds a message of the same kind as m, under claimed sender idx,
// whose acceptance in place of idx's genuine message hurts idx.
func (s *c01Sim) damaging(c *c01Member, m net.TaggedMarshaler, idx group.MemberIndex, session string) net.TaggedMarshaler {
	switch x := m.(type) {
	case *SecretSharesAccusationsMessage:
		w := s.pickMember("c12-accused", s.honest)
		return &SecretSharesAccusationsMessage{senderID: idx, sessionID: session, accusedMembersKeys: map[group.MemberIndex]*ephemeral.PrivateKey{
			w: ephemeral.UnmarshalPrivateKey(s.randScalar("c12-key").Bytes())}}
	case *PointsAccusationsMessage:
		w := s.pickMember("c12-accused", s.honest)
		return &PointsAccusationsMessage{senderID: idx, sessionID: session, accusedMembersKeys: map[group.MemberIndex]*ephemeral.PrivateKey{
			w: ephemeral.UnmarshalPrivateKey(s.randScalar("c12-key").Bytes())}}
	case *MisbehavedEphemeralKeysMessage:
		w := s.pickMember("c12-revealed", s.honest)
		return &MisbehavedEphemeralKeysMessage{senderID: idx, sessionID: session, privateKeys: map[group.MemberIndex]*ephemeral.PrivateKey{
			w: ephemeral.UnmarshalPrivateKey(s.randScalar("c12-key").Bytes())}}
	default:
		// the corrupt member's own (well-formed) content under the victim's name:
		// keys / commitments / shares / points that do not fit the victim's real ones
		_ = x
		return c01Reindex(m, idx, session)
	}
}

// mutatePlanned implements the scripted two-member plans; ok=false means the
// message is not part of the plan and takes the ordinary random path.
func (s *c01Sim) mutatePlanned(c *c01Member, e *verifadapt.Envelope) ([]*verifadapt.Envelope, bool) {
	tp, r := s.tp, s.r
	bogus := func(keys map[group.MemberIndex]*ephemeral.PrivateKey, tag string) {
		// one or two extra entries of other kinds next to the true accusation
		n := 1 + tp.Choose(tag+"-extra", 2)
		for i := 0; i < n; i++ {
			v := s.pickMember(tag+"-extra-victim", s.honest)
			if tp.Chance(tag+"-extra-wrongkey", 2, 3) {
				keys[v] = ephemeral.UnmarshalPrivateKey(s.randScalar(tag + "-extra-key").Bytes())
			} else if kp, ok := s.m(s.planA).ek.ephemeralKeyPairs[v]; ok {
				keys[v] = kp.PrivateKey // false accusation with the real key
			}
		}
	}
	switch m := e.Sent.(type) {
	case *PeerSharesMessage:
		if c.idx != s.planC {
			return nil, false
		}
		cp := newPeerSharesMessage(m.senderID, m.sessionID)
		for k, v := range m.shares {
			cp.shares[k] = v
		}
		if key := s.symKey(c.idx, s.planA); key != nil {
			if err := cp.addShares(s.planA, s.randScalar("plan-wrong-share"), s.randScalar("plan-wrong-share-t"), key); err == nil {
				r.Fault("byz-plan-wrong-share-for-accomplice")
			}
		}
		if f := s.forge(c, cp); f != nil {
			return []*verifadapt.Envelope{f}, true
		}
	case *SecretSharesAccusationsMessage:
		if c.idx != s.planA {
			return nil, false
		}
		keys := map[group.MemberIndex]*ephemeral.PrivateKey{}
		if s.plan == 2 { // raise it now, mixed with bogus entries
			if kp, ok := c.ek.ephemeralKeyPairs[s.planC]; ok {
				keys[s.planC] = kp.PrivateKey
			}
			bogus(keys, "plan-p4")
			r.Fault("byz-plan-mixed-accusations-p4")
		} else {
			r.Fault("byz-plan-accusation-withheld-p4")
		}
		if f := s.forge(c, &SecretSharesAccusationsMessage{senderID: m.senderID, sessionID: m.sessionID, accusedMembersKeys: keys}); f != nil {
			return []*verifadapt.Envelope{f}, true
		}
	case *PointsAccusationsMessage:
		if c.idx != s.planA || s.plan != 1 {
			return nil, false
		}
		keys := map[group.MemberIndex]*ephemeral.PrivateKey{}
		if kp, ok := c.ek.ephemeralKeyPairs[s.planC]; ok {
			keys[s.planC] = kp.PrivateKey
		}
		bogus(keys, "plan-p8")
		r.Fault("byz-plan-mixed-accusations-p8")
		if f := s.forge(c, &PointsAccusationsMessage{senderID: m.senderID, sessionID: m.sessionID, accusedMembersKeys: keys}); f != nil {
			return []*verifadapt.Envelope{f}, true
		}
	}
	return nil, false
}

// noteAccusations records who accused whom in phases 4 and 8 (diagnosis only).
func (s *c01Sim) noteAccusations(mb *c01Member, genuine *verifadapt.Envelope, wire []*verifadapt.Envelope) {
	keysOf := func(m net.TaggedMarshaler) (int, group.MemberIndex, map[group.MemberIndex]*ephemeral.PrivateKey) {
		switch x := m.(type) {
		case *SecretSharesAccusationsMessage:
			return 4, x.senderID, x.accusedMembersKeys
		case *PointsAccusationsMessage:
			return 8, x.senderID, x.accusedMembersKeys
		}
		return 0, 0, nil
	}
	if _, ok := genuine.Sent.(*PeerSharesMessage); ok && mb.corrupt {
		for _, w := range wire {
			if ps, ok := w.Sent.(*PeerSharesMessage); ok && ps.senderID == mb.idx {
				for i := 1; i <= s.n; i++ {
					if _, has := ps.shares[group.MemberIndex(i)]; !has && group.MemberIndex(i) != mb.idx {
						s.missingShareFor[mb.idx] = append(s.missingShareFor[mb.idx], group.MemberIndex(i))
					}
				}
				break
			}
		}
		return
	}
	ph, _, gk := keysOf(genuine.Sent)
	if ph == 0 {
		return
	}
	if !mb.corrupt {
		for acc := range gk {
			if s.honestAccusers[ph][acc] == nil {
				s.honestAccusers[ph][acc] = map[group.MemberIndex]bool{}
			}
			s.honestAccusers[ph][acc][mb.idx] = true
		}
		return
	}
	for _, w := range wire {
		wph, sender, wk := keysOf(w.Sent)
		if wph != ph || sender != mb.idx || w.Sent == nil {
			continue
		}
		for acc, key := range wk {
			if g, ok := gk[acc]; ok && g == key {
				s.trueAccuser[ph][mb.idx] = true
			}
		}
		break // first message of the sender wins
	}
}

// earlyDQTag names the known H1 pattern when it occurred in this run: a
// corrupt member C whose broadcast phase-4/8 message carries a true accusation
// was accused (hence locally disqualified before reception) by some but not
// all honest members, so only those drop C's accusations.
func (s *c01Sim) earlyDQTag() string {
	for _, ph := range []int{4, 8} {
		for _, c := range s.corrupt {
			if !s.trueAccuser[ph][c] {
				continue
			}
			k := len(s.honestAccusers[ph][c])
			if k > 0 && k < len(s.honest) {
				return fmt.Sprintf(":accuser-disqualified-before-its-phase%d-accusation-was-received", ph)
			}
		}
	}
	// second manifestation of the same root cause: whether a shares message is
	// complete is judged against the receiver's own operating set, which a
	// private phase-4 disqualification of member X has already reduced for
	// some honest members only.
	for _, c := range s.corrupt {
		for _, x := range s.missingShareFor[c] {
			k := len(s.honestAccusers[4][x])
			if k > 0 && k < len(s.honest) {
				return ":shares-message-completeness-judged-after-private-phase4-disqualification"
			}
		}
	}
	return ""
}

// mutateAccusations returns the accusation map a corrupt member sends; nil = silent.
func (s *c01Sim) mutateAccusations(c *c01Member, genuine map[group.MemberIndex]*ephemeral.PrivateKey, tag string) map[group.MemberIndex]*ephemeral.PrivateKey {
	tp, r := s.tp, s.r
	keys := map[group.MemberIndex]*ephemeral.PrivateKey{}
	for k, v := range genuine {
		keys[k] = v
	}
	if len(genuine) > 0 {
		r.Probe("corrupt-member-has-true-accusation-" + tag)
	}
	// up to three modifications in one message, so that messages with several
	// entries of different kinds occur (resolution walks a Go map: the order in
	// which one member sees the entries is not the order another member sees)
	nmods := tp.Weighted("byz-"+tag+"-mods", 9, 6, 3, 2)
	for mi := 0; mi < nmods; mi++ {
		switch tp.Weighted("byz-"+tag, 0, 1, 3, 2, 1, 1, 1, 3) {
		case 1:
			return nil
		case 2: // false accusation against an honest member with the real key
			v := s.pickMember(tag+"-false-victim", s.honest)
			if kp, ok := c.ek.ephemeralKeyPairs[v]; ok {
				keys[v] = kp.PrivateKey
				r.Fault("byz-" + tag + "-false-accusation")
			}
		case 3: // accusation with a key that does not match
			v := s.pickMember(tag+"-wrongkey-victim", s.others(c.idx))
			keys[v] = ephemeral.UnmarshalPrivateKey(s.randScalar(tag + "-wrong-key").Bytes())
			r.Fault("byz-" + tag + "-wrong-key-accusation")
		case 4: // accuse self
			if kp, ok := c.ek.ephemeralKeyPairs[s.pickMember(tag+"-self-key", s.others(c.idx))]; ok {
				keys[c.idx] = kp.PrivateKey
				r.Fault("byz-" + tag + "-accuse-self")
			}
		case 5: // accuse a non-existent index
			idx := group.MemberIndex(0)
			if tp.Chance(tag+"-hi", 1, 2) {
				idx = group.MemberIndex(s.n + 1 + tp.Choose(tag+"-hi-off", 3))
			}
			keys[idx] = ephemeral.UnmarshalPrivateKey(s.randScalar(tag + "-nx-key").Bytes())
			r.Fault("byz-" + tag + "-accuse-nonexistent")
		case 6: // drop the genuine accusations
			keys = map[group.MemberIndex]*ephemeral.PrivateKey{}
			r.Fault("byz-" + tag + "-withhold-accusations")
		case 7: // accuse another corrupt member with the real key (true if that
			// member sent this one a bad share earlier, false otherwise; possibly
			// held back from phase 4 and raised only in phase 8)
			if len(s.corrupt) > 1 {
				v := s.pickMember(tag+"-corrupt-victim", s.corrupt)
				if v != c.idx {
					if kp, ok := c.ek.ephemeralKeyPairs[v]; ok {
						keys[v] = kp.PrivateKey
						r.Fault("byz-" + tag + "-accuse-corrupt-member")
					}
				}
			}
		}
	}
	if len(keys) >= 2 {
		r.Probe("accusation-message-with-several-entries-" + tag)
	}
	return keys
}

// c01Reindex copies a message under another claimed sender index / session.
func c01Reindex(m net.TaggedMarshaler, idx group.MemberIndex, session string) net.TaggedMarshaler {
	switch x := m.(type) {
	case *EphemeralPublicKeyMessage:
		return &EphemeralPublicKeyMessage{senderID: idx, ephemeralPublicKeys: x.ephemeralPublicKeys, sessionID: session}
	case *MemberCommitmentsMessage:
		return &MemberCommitmentsMessage{senderID: idx, commitments: x.commitments, sessionID: session}
	case *PeerSharesMessage:
		return &PeerSharesMessage{senderID: idx, shares: x.shares, sessionID: session}
	case *SecretSharesAccusationsMessage:
		return &SecretSharesAccusationsMessage{senderID: idx, accusedMembersKeys: x.accusedMembersKeys, sessionID: session}
	case *MemberPublicKeySharePointsMessage:
		return &MemberPublicKeySharePointsMessage{senderID: idx, publicKeySharePoints: x.publicKeySharePoints, sessionID: session}
	case *PointsAccusationsMessage:
		return &PointsAccusationsMessage{senderID: idx, accusedMembersKeys: x.accusedMembersKeys, sessionID: session}
	case *MisbehavedEphemeralKeysMessage:
		return &MisbehavedEphemeralKeysMessage{senderID: idx, privateKeys: x.privateKeys, sessionID: session}
	}
	return m
}

func c01SenderOf(e *verifadapt.Envelope) group.MemberIndex {
	if sd, ok := e.Sent.(interface{ SenderID() group.MemberIndex }); ok {
		return sd.SenderID()
	}
	return 0
}

func c01Phase(m net.TaggedMarshaler) int {
	switch m.(type) {
	case *EphemeralPublicKeyMessage:
		return 1
	case *PeerSharesMessage, *MemberCommitmentsMessage:
		return 3
	case *SecretSharesAccusationsMessage:
		return 4
	case *MemberPublicKeySharePointsMessage:
		return 7
	case *PointsAccusationsMessage:
		return 8
	case *MisbehavedEphemeralKeysMessage:
		return 10
	}
	return 0
}

func c01Run(t *testing.T, r *verifsim.Run, mode string) {
	tp := r.T
	s := &c01Sim{r: r, tp: tp, session: "verif-session", p1: map[group.MemberIndex]*EphemeralPublicKeyMessage{}, mode: mode,
		honestAccusers: map[int]map[group.MemberIndex]map[group.MemberIndex]bool{4: {}, 8: {}},
		trueAccuser:    map[int]map[group.MemberIndex]bool{4: {}, 8: {}}, missingShareFor: map[group.MemberIndex][]group.MemberIndex{}}
	// --- configuration (0 = smallest) ---
	sizes := []int{3, 4, 5, 6, 7}
	if r.Tier == "thorough" {
		sizes = []int{3, 4, 5, 6, 7, 8, 9}
	}
	s.n = sizes[tp.Choose("n", len(sizes))]
	maxT := (s.n - 1) / 2
	s.t = 1 + tp.Choose("t", maxT)
	nCorrupt := 0
	if mode != "C14" {
		// weights favour the full corruption budget
		w := make([]int, s.t+1)
		for i := range w {
			w[i] = 1 + 2*i
		}
		nCorrupt = tp.Weighted("corrupt-count", w...)
	}
	// operator layout: seat i and i+1 may belong to the same operator (same
	// network key). Corruption is per operator.
	opOf := make([]int, s.n+1)
	nOps := 0
	for i := 1; i <= s.n; i++ {
		if i > 1 && tp.Chance("same-operator", 1, 6) {
			opOf[i] = opOf[i-1]
			r.Probe("multi-seat-operator")
		} else {
			opOf[i] = nOps
			nOps++
		}
	}
	seatsOf := make([][]int, nOps)
	for i := 1; i <= s.n; i++ {
		seatsOf[opOf[i]] = append(seatsOf[opOf[i]], i)
	}
	perm := tp.Perm("corrupt-who", nOps)
	isCorrupt := map[int]bool{}
	got := 0
	for _, op := range perm {
		if got+len(seatsOf[op]) <= nCorrupt {
			for _, seat := range seatsOf[op] {
				isCorrupt[seat] = true
			}
			got += len(seatsOf[op])
		}
	}
	nCorrupt = got
	start := uint64(2 + tp.Choose("start", 4))
	r.Logf("cfg mode=%s n=%d t=%d corrupt=%d operators=%v start=%d", mode, s.n, s.t, nCorrupt, opOf[1:], start)

	// --- nodes, keys, membership ---
	s.sn = verifadapt.NewNet()
	logger := log.Logger("verif-gjkr")
	var addrs []chain.Address
	var signing chain.Signing
	opNode := make([]*verifadapt.NetNode, nOps)
	for i := 1; i <= s.n; i++ {
		nn := opNode[opOf[i]]
		if nn == nil {
			nn = s.sn.AddNode(local_v1.DefaultCurve)
			opNode[opOf[i]] = nn
			RegisterUnmarshallers(nn.Channel("gjkr"))
		}
		if signing == nil {
			signing = local_v1.NewSigner(nn.Priv)
		}
		a, err := signing.PublicKeyToAddress(nn.Pub)
		if err != nil {
			panic(err)
		}
		addrs = append(addrs, a)
		mb := &c01Member{idx: group.MemberIndex(i), node: nn, blocks: verifadapt.NewNodeBlocks(0), ch: nn.Channel("gjkr"), corrupt: isCorrupt[i]}
		s.members = append(s.members, mb)
		if mb.corrupt {
			s.corrupt = append(s.corrupt, mb.idx)
			if mode != "C12" && tp.Chance("byz-crash", 1, 6) {
				phases := []int{1, 3, 4, 7, 8, 10}
				mb.silentFrom = phases[tp.Choose("byz-crash-phase", len(phases))]
			}
		} else {
			s.honest = append(s.honest, mb.idx)
		}
	}
	mv := group.NewMembershipValidator(logger, addrs, signing)
	if mode != "C12" && mode != "C14" && len(s.corrupt) >= 2 {
		s.plan = tp.Weighted("byz-plan", 6, 1, 1)
		if s.plan != 0 {
			pp := tp.Perm("byz-plan-who", len(s.corrupt))
			s.planA, s.planC = s.corrupt[pp[0]], s.corrupt[pp[1]]
			s.m(s.planA).silentFrom, s.m(s.planC).silentFrom = 0, 0
			r.Fault(fmt.Sprintf("byz-plan-%d", s.plan))
			r.Logf("plan %d: accomplice A=%d, wrong-share sender C=%d", s.plan, s.planA, s.planC)
		}
	}
	seed := big.NewInt(int64(1000 + tp.Choose("seed", 1000)))

	for _, mb := range s.members {
		mb := mb
		if mb.corrupt {
			lm, _ := NewMember(logger, mb.idx, s.n, s.t, mv, seed, s.session)
			mb.ek = lm.InitializeEphemeralKeysGeneration()
			go func() {
				defer func() {
					if p := recover(); p != nil {
						mb.err = fmt.Errorf("corrupt member replica panicked: %v", p)
						mb.done = true
					}
				}()
				sm := state.NewSyncMachine(logger, mb.ch, mb.blocks, &ephemeralKeyPairGenerationState{channel: mb.ch, member: mb.ek})
				last, end, err := sm.Execute(start)
				mb.end, mb.err = end, err
				if fs, ok := last.(*finalizationState); ok {
					mb.res = fs.result()
				}
				mb.done = true
			}()
		} else {
			go func() {
				mb.res, mb.end, mb.err = Execute(logger, seed, s.session, mb.idx, s.n, mb.blocks, mb.ch, s.t, mv, start)
				mb.done = true
			}()
		}
	}
	synctest.Wait()

	perReceiver := tp.Chance("per-receiver-orders", 1, 2)
	total := ProtocolBlocks()
	limit := start + total + 3
	// pending deliveries: per block offset
	type pending struct {
		at   uint64
		envs []*verifadapt.Envelope
	}
	var queue []pending
	for b := uint64(1); b <= limit; b++ {
		for _, mb := range s.members {
			mb.blocks.Advance(b)
		}
		synctest.Wait()
		r.AddSim(0, 1)
		r.Step()
		envs := s.sn.Drain()
		if len(envs) > 0 {
			// Byzantine rewriting, in canonical sender order
			var outgoing []*verifadapt.Envelope
			for _, e := range envs {
				mb := s.m(e.Sent.(interface{ SenderID() group.MemberIndex }).SenderID())
				if m1, ok := e.Sent.(*EphemeralPublicKeyMessage); ok {
					s.p1[mb.idx] = m1
				}
				if mb.corrupt {
					mut := s.mutate(mb, e, c01Phase(e.Sent))
					s.noteAccusations(mb, e, mut)
					outgoing = append(outgoing, mut...)
				} else {
					s.noteAccusations(mb, e, nil)
					outgoing = append(outgoing, e)
				}
			}
			// in-window delay (all receivers alike: consistent broadcast, synchronous model)
			delay := uint64(0)
			if tp.Chance("delay-batch", 1, 5) {
				delay = uint64(1 + tp.Choose("delay-blocks", 3))
				r.Fault("in-window-delay")
			}
			queue = append(queue, pending{at: b + delay, envs: outgoing})
			r.Logf("block %d: %d sent, %d on the wire, delay %d", b, len(envs), len(outgoing), delay)
		}
		// deliver what is due
		var due []*verifadapt.Envelope
		rest := queue[:0]
		for _, p := range queue {
			if p.at <= b {
				due = append(due, p.envs...)
			} else {
				rest = append(rest, p)
			}
		}
		queue = rest
		if len(due) > 0 {
			// cross-sender interleaving that keeps each sender's own order
			// (consistent broadcast). Either one global interleaving or - half of
			// the runs - an independent one per receiver.
			interleave := func() []*verifadapt.Envelope {
				bySender := map[int][]*verifadapt.Envelope{}
				var senders []int
				for _, e := range due {
					key := e.From*1000 + int(c01SenderOf(e))
					if _, ok := bySender[key]; !ok {
						senders = append(senders, key)
					}
					bySender[key] = append(bySender[key], e)
				}
				sort.Ints(senders)
				var order []*verifadapt.Envelope
				for len(senders) > 0 {
					i := tp.Choose("interleave", len(senders))
					if i != 0 {
						r.NonTrivial()
					}
					sd := senders[i]
					order = append(order, bySender[sd][0])
					bySender[sd] = bySender[sd][1:]
					if len(bySender[sd]) == 0 {
						senders = append(senders[:i], senders[i+1:]...)
					}
				}
				// retransmission duplicates (same seqno) at random places
				if tp.Chance("retransmit", 1, 4) {
					k := tp.Choose("retransmit-which", len(order))
					order = append(order, order[k])
					r.Fault("retransmission-duplicate")
				}
				return order
			}
			if perReceiver {
				for _, nn := range s.sn.Nodes {
					s.sn.DeliverBatch(interleave(), nn.Index)
				}
				r.Fault("per-receiver-interleaving")
			} else {
				order := interleave()
				for _, nn := range s.sn.Nodes {
					s.sn.DeliverBatch(order, nn.Index)
				}
			}
			synctest.Wait()
		}
		alld := true
		for _, mb := range s.members {
			if !mb.done {
				alld = false
			}
		}
		if alld {
			break
		}
	}
	synctest.Wait()
	// drain the asynchronous public key share computation (keeps the bubble clean)
	shares := map[group.MemberIndex]map[group.MemberIndex]*bn256.G2{}
	for _, mb := range s.members {
		if mb.res != nil {
			shares[mb.idx] = mb.res.GroupPublicKeyShares()
		}
	}

	// ---- oracles ----
	var fin []*c01Member
	abortTag := s.earlyDQTag()
	if abortTag != "" {
		r.Probe("early-dq-pattern-present")
	}
	for _, idx := range s.honest {
		mb := s.m(idx)
		if !mb.done {
			r.Failf(mode+":honest-not-finished", "honest member %d did not return by block %d", idx, limit)
			return
		}
		if mb.err != nil {
			r.Probe("honest-member-returned-error")
			r.Logf("honest %d error: %v", idx, mb.err)
			if os.Getenv("VERIF_STRICT_HONEST_ERRORS") != "" {
				// diagnosis aid, off in registered checks: the statement only
				// speaks about members that finish
				r.Failf(mode+":honest-abort["+c01Normalize(mb.err.Error())+"]", "honest member %d aborted: %v", idx, mb.err)
				return
			}
			if abortTag == "" {
				abortTag = ":after-honest-abort[" + c01Normalize(mb.err.Error()) + "]"
			}
			continue
		}
		fin = append(fin, mb)
	}
	setOf := func(g *group.Group) []int {
		m := map[int]bool{}
		for _, x := range g.InactiveMemberIndexes() {
			m[int(x)] = true
		}
		for _, x := range g.DisqualifiedMemberIndexes() {
			m[int(x)] = true
		}
		out := []int{}
		for k := range m {
			out = append(out, k)
		}
		sort.Ints(out)
		return out
	}
	if mode == "C14" {
		for _, mb := range fin {
			if mb.end != start+total {
				r.Failf("C14:gjkr-end-block", "member %d finished GJKR at block %d, want start %d + ProtocolBlocks %d", mb.idx, mb.end, start, total)
				return
			}
		}
		return
	}
	if len(fin) == 0 {
		return
	}
	ref := fin[0]
	refSet := setOf(ref.res.Group)
	if len(refSet) > 0 {
		r.Probe("some-member-marked-misbehaving")
	}
	for _, x := range refSet {
		if !isCorrupt[x] {
			cls := "C01:honest-member-marked-misbehaving"
			if mode == "C12" {
				cls = "C12:honest-member-marked-misbehaving"
			}
			if mode == "C01" || mode == "C12" {
				r.Failf(cls+abortTag, "honest member %d marks honest member %d as inactive/disqualified (IA=%v DQ=%v)", ref.idx, x, ref.res.Group.InactiveMemberIndexes(), ref.res.Group.DisqualifiedMemberIndexes())
				return
			}
		}
	}
	for _, mb := range fin[1:] {
		ms := setOf(mb.res.Group)
		for _, x := range ms {
			if !isCorrupt[x] && (mode == "C01" || mode == "C12") {
				r.Failf(mode+":honest-member-marked-misbehaving"+abortTag, "honest member %d marks honest member %d as inactive/disqualified", mb.idx, x)
				return
			}
		}
		if mode == "C01" || mode == "C12" {
			if fmt.Sprint(ms) != fmt.Sprint(refSet) {
				r.Failf(mode+":misbehaved-sets-differ"+abortTag, "honest members %d and %d disagree on inactive+disqualified: %v vs %v (IA/DQ %v/%v vs %v/%v)", ref.idx, mb.idx, refSet, ms,
					ref.res.Group.InactiveMemberIndexes(), ref.res.Group.DisqualifiedMemberIndexes(), mb.res.Group.InactiveMemberIndexes(), mb.res.Group.DisqualifiedMemberIndexes())
				return
			}
			if string(ref.res.GroupPublicKey.Marshal()) != string(mb.res.GroupPublicKey.Marshal()) {
				r.Failf(mode+":group-keys-differ"+abortTag, "honest members %d and %d output different group public keys (misbehaved sets %v / %v)", ref.idx, mb.idx, refSet, ms)
				return
			}
		}
	}
	if mode == "C02" {
		// the premise: runs covered by the agreement property
		for _, mb := range fin[1:] {
			if string(ref.res.GroupPublicKey.Marshal()) != string(mb.res.GroupPublicKey.Marshal()) || fmt.Sprint(setOf(mb.res.Group)) != fmt.Sprint(refSet) {
				r.Probe("agreement-premise-broken-skipped")
				return
			}
		}
		g2 := func(x *big.Int) *bn256.G2 { return new(bn256.G2).ScalarBaseMult(x) }
		for _, a := range fin {
			for _, b := range fin {
				if a == b {
					continue
				}
				p, ok := shares[b.idx][a.idx]
				if !ok || p == nil {
					r.Failf("C02:public-share-missing", "honest member %d has no public key share for honest member %d", b.idx, a.idx)
					return
				}
				if string(g2(a.res.GroupPrivateKeyShare).Marshal()) != string(p.Marshal()) {
					r.Failf("C02:public-share-mismatch", "share_%d * G2 differs from the public key share member %d computed for %d (misbehaved %v)", a.idx, b.idx, a.idx, refSet)
					return
				}
			}
		}
		// every (t+1)-subset of honest finishers (sampled when there are many)
		k := s.t + 1
		if len(fin) >= k {
			subsets := c01Subsets(len(fin), k)
			maxS := 12
			for si, sub := range subsets {
				if si >= maxS {
					break
				}
				xs := make([]int64, k)
				ys := make([]*big.Int, k)
				for j, fi := range sub {
					xs[j] = int64(fin[fi].idx)
					ys[j] = fin[fi].res.GroupPrivateKeyShare
				}
				secret := c01Interpolate0(xs, ys)
				if string(g2(secret).Marshal()) != string(ref.res.GroupPublicKey.Marshal()) {
					r.Failf("C02:interpolation-mismatch", "shares of honest members %v interpolate to a secret whose public key is not the group public key (t=%d, misbehaved %v)", xs, s.t, refSet)
					return
				}
			}
			r.Probe("interpolation-checked")
		}
		if len(refSet) > 0 {
			// was a QUAL member reconstructed? (disqualified/inactive after phase 5)
			r.Probe("runs-with-misbehaviour")
		}
	}
}

// c01Normalize strips run-specific numbers from an error text so that it can
// be part of a stable violation class.
func c01Normalize(e string) string {
	out := []byte{}
	for i := 0; i < len(e); i++ {
		ch := e[i]
		switch {
		case ch >= '0' && ch <= '9':
			if len(out) == 0 || out[len(out)-1] != 'N' {
				out = append(out, 'N')
			}
		case ch == ' ':
			out = append(out, '_')
		case (ch >= 'a' && ch <= 'z') || (ch >= 'A' && ch <= 'Z') || ch == '[' || ch == ']' || ch == '-':
			out = append(out, ch)
		}
	}
	if len(out) > 90 {
		out = out[:90]
	}
	return string(out)
}

func c01Subsets(n, k int) [][]int {
	var out [][]int
	idx := make([]int, k)
	var rec func(start, d int)
	rec = func(start, d int) {
		if d == k {
			out = append(out, append([]int(nil), idx...))
			return
		}
		for i := start; i < n; i++ {
			idx[d] = i
			rec(i+1, d+1)
		}
	}
	rec(0, 0)
	return out
}

// c01Interpolate0 is an independent Lagrange interpolation at x=0 over the
// BN254 group order.
func c01Interpolate0(xs []int64, ys []*big.Int) *big.Int {
	q := bn256.Order
	res := big.NewInt(0)
	for i := range xs {
		num, den := big.NewInt(1), big.NewInt(1)
		for j := range xs {
			if i == j {
				continue
			}
			num.Mul(num, big.NewInt(-xs[j]))
			num.Mod(num, q)
			den.Mul(den, big.NewInt(xs[i]-xs[j]))
			den.Mod(den, q)
		}
		l := new(big.Int).Mul(num, new(big.Int).ModInverse(den, q))
		l.Mod(l, q)
		term := new(big.Int).Mul(l, ys[i])
		res.Add(res, term)
		res.Mod(res, q)
	}
	return res
}
