package entry

// C47 (relay entry part) and the relay-entry round engine shared with C03.
//
// All members of a dealer-made threshold group run the REAL entry.SignAndSubmit
// on a simulated broadcast network (verifadapt.Net), per-member block counters
// (verifadapt.NodeBlocks) and a stub beacon chain. The tape decides group size,
// threshold, block step, start block, who is up, who is late, per-member block
// arrival, per-receiver delivery / loss / duplication of share messages, when
// submitted transactions are mined, when each member is notified about the
// accepted entry, competing outside submissions and chain errors. The previous
// entry is steered so that the residue `new entry mod group size` covers every
// value, 0 in particular.

import (
	"context"
	"encoding/hex"
	"errors"
	"fmt"
	"math/big"
	"testing"
	"testing/synctest"

	bn256 "github.com/ethereum/go-ethereum/crypto/bn256/cloudflare"
	"github.com/ipfs/go-log/v2"
	beaconchain "github.com/keep-network/keep-core/pkg/beacon/chain"
	"github.com/keep-network/keep-core/pkg/beacon/dkg"
	"github.com/keep-network/keep-core/pkg/beacon/event"
	"github.com/keep-network/keep-core/pkg/chain"
	"github.com/keep-network/keep-core/pkg/chain/local_v1"
	"github.com/keep-network/keep-core/pkg/internal/verifadapt"
	"github.com/keep-network/keep-core/pkg/net"
	"github.com/keep-network/keep-core/pkg/protocol/group"
	"github.com/keep-network/keep-core/pkg/subscription"

	"verifsim"
)

const c47Channel = "c47-relay"

// ---------------------------------------------------------------- dealer ---

type c47Group struct {
	n, h      int
	secret    *big.Int   // f(0)
	shares    []*big.Int // shares[i] = f(i), index 0 unused
	pubShares map[group.MemberIndex]*bn256.G2
	gpk       *bn256.G2
}

func c47Scalar(tp *verifsim.Tape, label string) *big.Int {
	v := new(big.Int).SetBytes(tp.Bytes(label, 32))
	v.Mod(v, bn256.Order)
	if v.Sign() == 0 {
		v.SetInt64(1)
	}
	return v
}

// c47Deal creates a Shamir sharing of a random secret with a polynomial of
// degree h-1 (h shares are needed and sufficient).
func c47Deal(tp *verifsim.Tape, n, h int) *c47Group {
	g := &c47Group{n: n, h: h, shares: make([]*big.Int, n+1), pubShares: map[group.MemberIndex]*bn256.G2{}}
	coef := make([]*big.Int, h)
	for k := range coef {
		coef[k] = c47Scalar(tp, "coef")
	}
	g.secret = coef[0]
	for i := 1; i <= n; i++ {
		x := big.NewInt(int64(i))
		acc := big.NewInt(0)
		for k := h - 1; k >= 0; k-- {
			acc.Mul(acc, x)
			acc.Add(acc, coef[k])
			acc.Mod(acc, bn256.Order)
		}
		g.shares[i] = acc
		g.pubShares[group.MemberIndex(i)] = new(bn256.G2).ScalarBaseMult(acc)
	}
	g.gpk = new(bn256.G2).ScalarBaseMult(g.secret)
	return g
}

// ----------------------------------------------------------------- world ---

type c47Sub struct {
	member int
	height uint64
	entry  []byte
}

type c47Tx struct {
	member int // 0 = outside competitor
	entry  []byte
}

type c47Member struct {
	idx    int // 1-based member index
	up     bool
	byz    bool
	helper bool // C03 large shapes: does not run the protocol, only ever contributes its valid share
	node   *verifadapt.NetNode
	blocks *verifadapt.NodeBlocks
	ch     *verifadapt.Chan
	signer *dkg.ThresholdSigner

	handlers   map[int]func(*event.RelayEntrySubmitted)
	nextHandle int

	started, done bool
	err           error
	sawTimeoutReq bool
	slots         []uint64
	notified      bool
	eventPending  bool
	submits       int
	submitFault   int // 0 none, 1 tx error, 2 tx error + status query error
}

type c47World struct {
	r  *verifsim.Run
	tp *verifsim.Tape

	n, h    int
	step    uint64
	timeout uint64
	start   uint64
	grp     *c47Group
	prev    *bn256.G1
	prevB   []byte
	session string
	residue int

	sn      *verifadapt.Net
	members []*c47Member // index 0 unused

	accepted   bool
	acceptedBy int
	mempool    []*c47Tx
	subs       []c47Sub
	stop       bool // a violation that makes further scheduling meaningless

	shape   int          // C03: 0 small group, 1 large threshold, 2 wide group with low threshold
	preload []*c47Flight // C03: share messages of the non-running members queued before the round starts

	slotOracle bool // C47 clauses on
	onSubmit   func(m *c47Member, entry []byte)
}

type c47Chain struct {
	beaconchain.Interface // nil: any call not modelled here panics => reported
	w                     *c47World
	m                     *c47Member
}

func (c *c47Chain) GetConfig() *beaconchain.Config {
	return &beaconchain.Config{
		GroupSize:                  c.w.n,
		HonestThreshold:            c.w.h,
		ResultPublicationBlockStep: c.w.step,
		RelayEntryTimeout:          c.w.timeout,
	}
}

func (c *c47Chain) OnRelayEntrySubmitted(h func(*event.RelayEntrySubmitted)) subscription.EventSubscription {
	m := c.m
	m.nextHandle++
	id := m.nextHandle
	m.handlers[id] = h
	return subscription.NewEventSubscription(func() { delete(m.handlers, id) })
}

func (c *c47Chain) IsEntryInProgress() (bool, error) {
	if c.m.submitFault == 2 {
		c.w.r.Fault("status-query-error")
		return false, errors.New("injected: status query failed")
	}
	return !c.w.accepted, nil
}

// SubmitRelayEntry is called by the member's own goroutine while the simulator
// waits for quiescence and no other member runs, so it is serialised.
func (c *c47Chain) SubmitRelayEntry(entry []byte) error {
	w, m := c.w, c.m
	height := m.blocks.Height()
	m.submits++
	w.subs = append(w.subs, c47Sub{m.idx, height, append([]byte(nil), entry...)})
	w.r.Logf("submit member=%d at=%d slots=%v notified=%v accepted=%v", m.idx, height, m.slots, m.notified, w.accepted)
	if w.slotOracle {
		if m.notified {
			w.r.Failf("C47:relay-submit-after-notified", "member %d called SubmitRelayEntry at its block %d after it had been notified (callback invoked, system quiescent) that the relay entry was already submitted", m.idx, height)
		}
		if len(m.slots) == 0 {
			w.r.Failf("C47:relay-submit-without-slot", "member %d called SubmitRelayEntry at its block %d without having waited for any eligibility block", m.idx, height)
		} else if s := m.slots[len(m.slots)-1]; height < s {
			w.r.Failf("C47:relay-submit-before-slot", "member %d called SubmitRelayEntry at its block %d, before the block %d it was waiting for (start %d, step %d, n %d)", m.idx, height, s, w.start, w.step, w.n)
		}
	}
	if w.onSubmit != nil {
		w.onSubmit(m, entry)
	}
	if m.submitFault != 0 {
		w.r.Fault("submit-error")
		return errors.New("injected: transaction failed")
	}
	if w.accepted {
		w.r.Probe("submit-rejected-entry-no-longer-in-progress")
		return errors.New("execution reverted: no relay request in progress")
	}
	w.mempool = append(w.mempool, &c47Tx{member: m.idx, entry: append([]byte(nil), entry...)})
	if len(w.mempool) > 1 {
		w.r.Probe("several-transactions-in-mempool")
	}
	return nil
}

func (w *c47World) accept(by int) {
	w.accepted = true
	w.acceptedBy = by
	for _, m := range w.members[1:] {
		if m.started && !m.done {
			m.eventPending = true
		}
	}
}

// onRequest observes every block a member asks a waiter for. The first request
// for start+timeout is the relay-entry timeout waiter; every other request is
// an eligibility slot.
func (w *c47World) onRequest(m *c47Member, target uint64) {
	limit := w.start + w.timeout
	if !m.sawTimeoutReq && target == limit {
		m.sawTimeoutReq = true
		return
	}
	m.slots = append(m.slots, target)
	w.r.Logf("slot member=%d block=%d (start+%d)", m.idx, target, int64(target)-int64(w.start))
	if m.idx == w.n {
		w.r.Probe("last-member-reached-slot-computation")
	}
	if !w.slotOracle {
		return
	}
	if target >= limit {
		w.r.Failf("C47:relay-slot-not-before-timeout", "member %d of %d waits for block %d = start %d + %d to submit, which is not strictly before start + RelayEntryTimeout = %d (block step %d, new entry mod group size = %d)", m.idx, w.n, target, w.start, target-w.start, limit, w.step, w.residue)
		w.stop = true
	}
	for _, o := range w.members[1:] {
		if o == m {
			continue
		}
		for _, s := range o.slots {
			if s == target {
				w.r.Failf("C47:relay-slot-shared", "members %d and %d both wait for block %d to submit the same entry (start %d, step %d, n %d, entry mod n = %d)", o.idx, m.idx, target, w.start, w.step, w.n, w.residue)
				w.stop = true
			}
		}
	}
}

type c47Flight struct {
	env    *verifadapt.Envelope
	left   []int // receivers (member idx) not yet served
	forged bool
}

type c47Opts struct {
	byzantine bool // C03: adversarial members, forged traffic, no slot oracle
}

// c47Setup draws the configuration, deals the group and creates the members.
func c47Setup(r *verifsim.Run, opts c47Opts) *c47World {
	tp := r.T
	w := &c47World{r: r, tp: tp, slotOracle: !opts.byzantine}
	w.n = 2 + tp.Choose("n", 6) // 2..7
	minH := w.n/2 + 1
	w.h = minH + tp.Choose("h", w.n-minH+1)
	if opts.byzantine {
		// C03 only: besides the small groups, (1) large groups with large
		// thresholds (up to the production 33-of-64) and (2) wide groups with a
		// low threshold, where few members run the protocol and the others only
		// contribute shares (simulator-made); member indexes reach two digits.
		switch w.shape = tp.Weighted("group-shape", 6, 2, 2); w.shape {
		case 1:
			w.n = []int{16, 24, 32, 48, 64}[tp.Weighted("large-n", 4, 4, 3, 1, 1)]
			w.h = w.n/2 + 1 + tp.Choose("large-h-extra", 3)
			r.Probe(fmt.Sprintf("large-threshold-%d-of-%d", w.h, w.n))
		case 2:
			w.n = []int{12, 16, 22, 24, 33}[tp.Choose("wide-n", 5)]
			w.h = 2 + tp.Choose("wide-h", 3)
			r.Probe("wide-group-low-threshold")
		}
	}
	w.step = uint64(1 + tp.Choose("step", 3))
	// Premise (both chain implementations of the repository configure it so):
	// the timeout leaves room for one step per member.
	extra := uint64(tp.Weighted("extra-timeout", 6, 1, 1))
	if opts.byzantine {
		extra += w.step // keep C03 runs clear of the slot==timeout corner
	}
	w.timeout = uint64(w.n)*w.step + extra
	w.start = uint64(1 + tp.Choose("start", 30))
	w.grp = c47Deal(tp, w.n, w.h)

	// previous entry, steered towards a residue of the new entry mod n
	k := c47Scalar(tp, "prev")
	mode := tp.Weighted("residue-mode", 2, 3, 2) // 0 unsteered, 1 residue 0, 2 tape-chosen residue
	want := -1
	switch mode {
	case 1:
		want = 0
	case 2:
		want = tp.Choose("residue", w.n)
	}
	for try := 0; ; try++ {
		w.prev = new(bn256.G1).ScalarBaseMult(k)
		sig := new(bn256.G1).ScalarMult(w.prev, w.grp.secret)
		w.residue = int(new(big.Int).Mod(new(big.Int).SetBytes(sig.Marshal()), big.NewInt(int64(w.n))).Int64())
		if want < 0 || w.residue == want || try > 200 {
			break
		}
		k.Add(k, big.NewInt(1))
	}
	w.prevB = w.prev.Marshal()
	w.session = hex.EncodeToString(w.prevB)
	if w.residue == 0 {
		r.Probe("entry-mod-n-is-zero")
	}

	w.sn = verifadapt.NewNet()
	w.members = make([]*c47Member, w.n+1)
	maxByz := 0
	if opts.byzantine {
		maxByz = w.n - w.h
	}
	nByz := 0
	for i := 1; i <= w.n; i++ {
		m := &c47Member{idx: i, up: true, handlers: map[int]func(*event.RelayEntrySubmitted){}}
		m.node = w.sn.AddNode(local_v1.DefaultCurve)
		m.ch = m.node.Channel(c47Channel)
		RegisterUnmarshallers(m.ch)
		if w.shape != 0 {
			// roles are assigned after the loop
		} else if nByz < maxByz && tp.Chance("byzantine", 1, 2) {
			m.byz = true
			nByz++
		} else if tp.Chance("down", 1, 8) {
			m.up = false
			r.Fault("member-down")
		}
		late := uint64(0)
		if m.up && !m.byz && w.shape == 0 && tp.Chance("late", 1, 6) {
			late = uint64(1 + tp.Choose("late-by", int(w.timeout)))
			r.Fault("member-late")
		}
		m.blocks = verifadapt.NewNodeBlocks(w.start + late)
		m.submitFault = tp.Weighted("submit-fault", 14, 1, 1)
		m.signer = dkg.NewThresholdSigner(group.MemberIndex(i), w.grp.gpk, w.grp.shares[i], w.grp.pubShares, []chain.Address{})
		mm := m
		m.blocks.OnRequest = func(target, cur uint64) { w.onRequest(mm, target) }
		w.members[i] = m
	}
	running := []int{}
	if w.shape != 0 {
		// a few members run the real protocol, at indexes whose decimal forms
		// are prefixes / concatenations of each other or at the top of the group
		cands := []int{1, 11, 2, 12, 22, 3, 13, 21, 31, 10, w.n, w.n - 1, w.n / 2}
		k := 1 + tp.Choose("running", 2)
		if w.shape == 2 {
			k = 3 + tp.Choose("running-wide", 4)
		}
		isRunning := map[int]bool{}
		for tries := 0; len(isRunning) < k && tries < 40; tries++ {
			x := 1 + tp.Choose("running-any", w.n)
			if tp.Chance("running-special", 3, 4) {
				x = cands[tp.Choose("running-which", len(cands))]
			}
			if x >= 1 && x <= w.n {
				isRunning[x] = true
			}
		}
		for _, m := range w.members[1:] {
			if isRunning[m.idx] {
				running = append(running, m.idx)
				continue
			}
			m.helper = true
			if nByz < maxByz && tp.Chance("byzantine", 1, 6) {
				m.byz = true // adversarial: may send anything
				nByz++
			}
		}
	}
	r.Logf("cfg n=%d h=%d step=%d timeout=%d start=%d residue=%d byz=%d shape=%d running=%v", w.n, w.h, w.step, w.timeout, w.start, w.residue, nByz, w.shape, running)
	return w
}

func (w *c47World) startMembers() {
	logger := log.Logger("verif-c47")
	for _, m := range w.members[1:] {
		if !m.up || m.byz || m.helper {
			continue
		}
		m := m
		m.started = true
		go func() {
			defer func() {
				if p := recover(); p != nil {
					w.r.Failf("panic:SignAndSubmit", "member %d: SignAndSubmit panicked: %v", m.idx, p)
					m.done = true
				}
			}()
			m.err = SignAndSubmit(logger, m.blocks, m.ch, &c47Chain{w: w, m: m}, w.prevB, w.h, m.signer, w.start)
			m.done = true
		}()
		synctest.Wait()
		w.r.Logf("started member=%d at=%d done=%v", m.idx, m.blocks.Height(), m.done)
	}
}

// forge is set by C03 to produce adversarial share messages.
type c47Forger func(w *c47World, b *c47Member) (payload []byte, desc string)

// c47Loop runs the event loop until every started member returned.
func (w *c47World) loop(forge c47Forger) {
	r, tp := w.r, w.tp
	var pool []*c47Flight
	honestRecv := func() []int {
		out := []int{}
		for _, m := range w.members[1:] {
			if m.started {
				out = append(out, m.idx)
			}
		}
		return out
	}
	collect := func() {
		for _, e := range w.sn.Drain() {
			left := []int{}
			for _, x := range honestRecv() {
				if x != e.From+1 { // own messages are ignored by the protocol anyway
					left = append(left, x)
				}
			}
			pool = append(pool, &c47Flight{env: e, left: left})
		}
	}
	collect()
	for _, f := range w.preload {
		f.left = honestRecv()
		pool = append(pool, f)
	}
	var byz []*c47Member
	for _, m := range w.members[1:] {
		if m.byz {
			byz = append(byz, m)
		}
	}
	forgeBudget := 0
	if forge != nil && len(byz) > 0 {
		forgeBudget = 2 + tp.Choose("forge-budget", 10)
	}
	externalLeft := 0
	if tp.Chance("outside-competitor", 1, 4) {
		externalLeft = 1
	}
	forgedSeq := uint64(1 << 20)
	for steps := 0; ; steps++ {
		if w.stop || r.Failed() {
			return
		}
		alive := 0
		for _, m := range w.members[1:] {
			if m.started && !m.done {
				alive++
			}
		}
		if alive == 0 {
			return
		}
		if steps > 1500 {
			r.Inconclusive("step-cap")
			return
		}
		r.Step()
		type ev struct {
			kind string
			a, b int
		}
		kinds := map[string][]ev{}
		for _, m := range w.members[1:] {
			if !m.started || m.done {
				continue
			}
			if m.blocks.Height() < w.start+w.timeout+1 {
				kinds["block"] = append(kinds["block"], ev{"block", m.idx, 0})
			}
			if m.eventPending && len(m.handlers) > 0 {
				kinds["notify"] = append(kinds["notify"], ev{"notify", m.idx, 0})
			}
		}
		for pi, f := range pool {
			for _, to := range f.left {
				if w.members[to].done {
					continue
				}
				kinds["deliver"] = append(kinds["deliver"], ev{"deliver", pi, to})
			}
		}
		for ti := range w.mempool {
			kinds["mine"] = append(kinds["mine"], ev{"mine", ti, 0})
		}
		if externalLeft > 0 && !w.accepted {
			kinds["external"] = []ev{{"external", 0, 0}}
		}
		if forgeBudget > 0 {
			for _, b := range byz {
				kinds["forge"] = append(kinds["forge"], ev{"forge", b.idx, 0})
			}
		}
		order := []string{"deliver", "block", "mine", "notify", "forge", "external"}
		weight := map[string]int{"deliver": 8, "block": 5, "mine": 6, "notify": 4, "forge": 5, "external": 0}
		if steps > 3 {
			weight["external"] = 1
		}
		if w.shape != 0 && len(kinds["deliver"]) > 0 {
			weight["block"] = 1 // many shares to hand over before the round times out
		}
		avail := []string{}
		ws := []int{}
		for _, kd := range order {
			if len(kinds[kd]) > 0 && weight[kd] > 0 {
				avail = append(avail, kd)
				ws = append(ws, weight[kd])
			}
		}
		if len(avail) == 0 {
			r.Inconclusive("no-events")
			return
		}
		kd := avail[tp.Weighted("event", ws...)]
		cands := kinds[kd]
		pick := cands[tp.Choose(kd, len(cands))]
		switch kd {
		case "block":
			m := w.members[pick.a]
			by := 1 + tp.Weighted("burst", 6, 1, 1, 1)
			for k := 0; k < by && !m.done && m.blocks.Height() < w.start+w.timeout+1; k++ {
				m.blocks.Advance(m.blocks.Height() + 1)
				r.AddSim(0, 1)
				synctest.Wait()
			}
			if by > 1 {
				r.Fault("block-burst")
			}
			r.Logf("block member=%d -> %d done=%v", m.idx, m.blocks.Height(), m.done)
		case "deliver":
			f := pool[pick.a]
			to := pick.b
			fate := tp.Weighted("fate", 10, 2, 2) // deliver, drop, deliver and keep a copy in flight
			if fate != 2 {
				nl := f.left[:0:0]
				for _, x := range f.left {
					if x != to {
						nl = append(nl, x)
					}
				}
				f.left = nl
			}
			switch fate {
			case 1:
				r.Fault("message-drop")
				r.Logf("drop from=%d seq=%d to=%d", f.env.From+1, f.env.Seqno, to)
			default:
				if fate == 2 {
					r.Fault("message-duplicate")
				}
				if pick.a != 0 {
					r.NonTrivial()
				}
				hn := w.sn.Deliver(f.env, to-1)
				synctest.Wait()
				r.Logf("deliver from=%d seq=%d forged=%v to=%d handlers=%d done=%v", f.env.From+1, f.env.Seqno, f.forged, to, hn, w.members[to].done)
			}
		case "mine":
			tx := w.mempool[pick.a]
			w.mempool = append(w.mempool[:pick.a:pick.a], w.mempool[pick.a+1:]...)
			if pick.a != 0 {
				r.Fault("mined-out-of-order")
			}
			if !w.accepted {
				w.accept(tx.member)
				r.Logf("mined tx of member=%d: accepted", tx.member)
			} else {
				r.Probe("late-transaction-reverted")
				r.Logf("mined tx of member=%d: reverted", tx.member)
			}
		case "notify":
			m := w.members[pick.a]
			m.eventPending = false
			hs := []func(*event.RelayEntrySubmitted){}
			for id := 1; id <= m.nextHandle; id++ {
				if h, ok := m.handlers[id]; ok {
					hs = append(hs, h)
				}
			}
			top := uint64(0)
			for _, o := range w.members[1:] {
				if hh := o.blocks.Height(); hh > top {
					top = hh
				}
			}
			inLoop := len(m.slots) == 0
			for _, h := range hs {
				h := h
				go h(&event.RelayEntrySubmitted{BlockNumber: top})
			}
			synctest.Wait()
			m.notified = true
			if inLoop {
				r.Probe("notified-while-collecting-shares")
			} else if m.submits > 0 {
				r.Probe("notified-after-own-submission")
			} else {
				r.Probe("notified-while-waiting-for-slot")
			}
			r.Logf("notify member=%d done=%v", m.idx, m.done)
		case "external":
			externalLeft--
			w.accept(0)
			r.Fault("competing-outside-submission")
			r.Logf("external submission accepted")
		case "forge":
			forgeBudget--
			b := w.members[pick.a]
			payload, desc := forge(w, b)
			forgedSeq++
			env := &verifadapt.Envelope{From: b.node.Index, Channel: c47Channel, Type: (&SignatureShareMessage{}).Type(),
				Payload: payload, Seqno: forgedSeq, Ctx: context.Background(), Strategy: net.StandardRetransmissionStrategy}
			pool = append(pool, &c47Flight{env: env, left: honestRecv(), forged: true})
			r.Fault("forged:" + desc)
			r.Logf("forge by=%d kind=%s seq=%d", b.idx, desc, forgedSeq)
		}
		collect()
	}
}

func (w *c47World) finish() { synctest.Wait() }

func init() {
	verifScenarios["C47"] = verifsim.Scenario{Bubble: true, Fn: c47Run}
}

func c47Run(t *testing.T, r *verifsim.Run) {
	w := c47Setup(r, c47Opts{})
	w.startMembers()
	w.loop(nil)
	w.finish()
	if r.Failed() {
		return
	}
	// end-of-run restatement over everything observed: slots pairwise distinct
	// and strictly below the timeout block
	seen := map[uint64]int{}
	for _, m := range w.members[1:] {
		for _, s := range m.slots {
			if o, dup := seen[s]; dup && o != m.idx {
				r.Failf("C47:relay-slot-shared", "members %d and %d share slot block %d", o, m.idx, s)
			}
			seen[s] = m.idx
			if s >= w.start+w.timeout {
				r.Failf("C47:relay-slot-not-before-timeout", "member %d slot %d >= start %d + timeout %d", m.idx, s, w.start, w.timeout)
			}
		}
	}
	if len(w.subs) > 0 {
		r.Probe("some-member-submitted")
	}
	_ = fmt.Sprintf
}
