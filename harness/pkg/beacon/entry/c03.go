package entry

// C03: threshold BLS recovery yields the unique group signature, end to end.
//
// Same relay-entry round engine as C47 (c47.go): the honest members of a
// dealer-made group run the REAL SignAndSubmit; up to n-h members are
// Byzantine: they do not run the protocol, the simulator forges their share
// messages (authenticated as coming from their node) in the kinds listed in
// c03Kinds, at tape-chosen instants, and decides per receiver delivery order,
// loss and duplication. Members may be down or late; submissions compete.
//
// Oracle, at every SubmitRelayEntry call of an honest member: the entry is a
// G1 point and e(entry, g2) == e(previousEntry, groupPublicKey) (checked here
// with bn256.PairingCheck, not through keep-core's bls package), and all
// honest submissions of the run are byte-equal.

import (
	"bytes"
	"context"
	"encoding/hex"
	"fmt"
	"math/big"
	"testing"

	bn256 "github.com/ethereum/go-ethereum/crypto/bn256/cloudflare"
	"github.com/keep-network/keep-core/pkg/internal/verifadapt"
	"github.com/keep-network/keep-core/pkg/net"
	"github.com/keep-network/keep-core/pkg/protocol/group"

	"verifsim"
)

var c03Kinds = []string{
	"own-valid-share",             // benign
	"random-point",                // a valid G1 point that is no share
	"share-of-other-message",      // f(b)*otherEntry under the current session id
	"share-of-other-session",      // f(b)*otherEntry with the other session id
	"own-share-foreign-index",     // f(b)*entry claimed to come from honest j
	"malformed-share-bytes",       // wrong length / not on the curve
	"malformed-payload",           // not a protobuf message
	"replayed-honest-share",       // f(j)*entry under index j, sent by b's node
	"index-outside-group",         // index 0 / n+1 / 255
	"negated-share",               // -(f(b)*entry)
	"foreign-share-other-message", // f(j)*otherEntry under index j
	"point-at-infinity",
	"random-point-foreign-index", // a well-formed non-share under honest j's index (j's real share usually arrived before)
}

func c03Forge(w *c47World, b *c47Member) ([]byte, string) {
	tp := w.tp
	ws := make([]int, len(c03Kinds))
	for i := range ws {
		ws[i] = 2
	}
	ws[0] = 4
	ws[1], ws[12] = 4, 4 // a valid share followed by a well-formed invalid one of the same claimed sender
	k := tp.Weighted("forge-kind", ws...)
	other := new(bn256.G1).ScalarBaseMult(big.NewInt(int64(7 + tp.Choose("other-entry", 5))))
	otherSession := hex.EncodeToString(other.Marshal())
	honest := []int{}
	for _, m := range w.members[1:] {
		if !m.byz {
			honest = append(honest, m.idx)
		}
	}
	j := honest[tp.Choose("victim", len(honest))]
	own := new(bn256.G1).ScalarMult(w.prev, w.grp.shares[b.idx])
	sender, share, session := b.idx, own.Marshal(), w.session
	switch k {
	case 1:
		share = new(bn256.G1).ScalarBaseMult(c47Scalar(tp, "rnd-point")).Marshal()
	case 2:
		share = new(bn256.G1).ScalarMult(other, w.grp.shares[b.idx]).Marshal()
	case 3:
		share = new(bn256.G1).ScalarMult(other, w.grp.shares[b.idx]).Marshal()
		session = otherSession
	case 4:
		sender = j
	case 5:
		ln := []int{0, 1, 32, 63, 64, 65, 128}[tp.Choose("len", 7)]
		share = tp.Bytes("junk", ln)
	case 6:
		return tp.Bytes("junk-payload", 1+tp.Choose("junk-len", 40)), c03Kinds[k]
	case 7:
		sender = j
		share = new(bn256.G1).ScalarMult(w.prev, w.grp.shares[j]).Marshal()
	case 8:
		sender = []int{0, w.n + 1, 255}[tp.Choose("bad-index", 3)]
		if tp.Chance("bad-index-random-point", 1, 2) {
			share = new(bn256.G1).ScalarBaseMult(c47Scalar(tp, "rnd-point")).Marshal()
		}
	case 9:
		share = new(bn256.G1).Neg(own).Marshal()
	case 10:
		sender = j
		share = new(bn256.G1).ScalarMult(other, w.grp.shares[j]).Marshal()
	case 11:
		share = make([]byte, 64)
	case 12:
		sender = j
		share = new(bn256.G1).ScalarBaseMult(c47Scalar(tp, "rnd-point")).Marshal()
	}
	msg := NewSignatureShareMessage(group.MemberIndex(sender), share, session)
	payload, err := msg.Marshal()
	if err != nil {
		panic(err)
	}
	return payload, c03Kinds[k]
}

// c03Verifies is the BLS verification equation e(sig, g2) == e(msg, pk),
// written out with the pairing library directly.
func c03Verifies(pk *bn256.G2, msg *bn256.G1, sigBytes []byte) (bool, string) {
	sig := new(bn256.G1)
	if rest, err := sig.Unmarshal(sigBytes); err != nil || len(rest) != 0 {
		return false, "entry is not a G1 point"
	}
	g2 := new(bn256.G2).ScalarBaseMult(big.NewInt(1))
	negSig := new(bn256.G1).Neg(sig)
	if !bn256.PairingCheck([]*bn256.G1{negSig, msg}, []*bn256.G2{g2, pk}) {
		return false, "pairing equation does not hold"
	}
	return true, ""
}

func init() {
	verifScenarios["C03"] = verifsim.Scenario{Bubble: true, Fn: c03Run}
}

func c03Run(t *testing.T, r *verifsim.Run) {
	w := c47Setup(r, c47Opts{byzantine: true})
	var first []byte
	firstBy := 0
	w.onSubmit = func(m *c47Member, entry []byte) {
		ok, why := c03Verifies(w.grp.gpk, w.prev, entry)
		if !ok {
			r.Failf("C03:invalid-entry-submitted", "honest member %d of %d (threshold %d) submitted an entry that does not verify under the group public key: %s", m.idx, w.n, w.h, why)
			return
		}
		r.Probe("verified-submission")
		if w.shape == 1 {
			r.Probe(fmt.Sprintf("verified-submission-threshold-%d", w.h))
		} else if w.shape == 2 {
			r.Probe("verified-submission-wide-group")
		}
		if first == nil {
			first, firstBy = append([]byte(nil), entry...), m.idx
			return
		}
		if !bytes.Equal(first, entry) {
			r.Failf("C03:entries-differ", "honest members %d and %d submitted different entries for the same request", firstBy, m.idx)
			return
		}
		if m.idx != firstBy {
			r.Probe("second-member-submitted-equal-entry")
		}
	}
	if w.shape != 0 {
		c03Preload(w)
	}
	w.startMembers()
	w.loop(c03Forge)
	w.finish()
}

// c03Preload queues the valid shares of a tape-chosen subset of the members
// that do not run the protocol (large shapes); each running member takes the
// first threshold-1 shares the simulator happens to hand it, so different
// members recover from different subsets.
func c03Preload(w *c47World) {
	tp := w.tp
	var helpers []*c47Member
	for _, m := range w.members[1:] {
		if m.helper {
			helpers = append(helpers, m)
		}
	}
	if len(helpers) == 0 {
		return
	}
	want := w.h + 1 + tp.Choose("contributors-extra", 3)
	if want > len(helpers) {
		want = len(helpers)
	}
	pick := map[int]bool{}
	switch mode := tp.Weighted("contributors", 3, 3, 2, 2); mode {
	case 0: // the highest indexes
		for i := len(helpers) - want; i < len(helpers); i++ {
			pick[i] = true
		}
	case 1: // a window
		off := tp.Choose("contributors-offset", len(helpers)-want+1)
		for i := off; i < off+want; i++ {
			pick[i] = true
		}
	case 2: // the lowest indexes
		for i := 0; i < want; i++ {
			pick[i] = true
		}
	default:
		for _, i := range tp.Perm("contributors-perm", len(helpers))[:want] {
			pick[i] = true
		}
	}
	seq := uint64(1 << 30)
	for i, b := range helpers {
		if !pick[i] {
			continue
		}
		share := new(bn256.G1).ScalarMult(w.prev, w.grp.shares[b.idx])
		payload, err := NewSignatureShareMessage(group.MemberIndex(b.idx), share.Marshal(), w.session).Marshal()
		if err != nil {
			panic(err)
		}
		seq++
		w.preload = append(w.preload, &c47Flight{forged: true, env: &verifadapt.Envelope{From: b.node.Index, Channel: c47Channel,
			Type: (&SignatureShareMessage{}).Type(), Payload: payload, Seqno: seq, Ctx: context.Background(), Strategy: net.StandardRetransmissionStrategy}})
	}
	w.r.Logf("preloaded %d contributor shares", len(w.preload))
}
