package entry

// C19 (relay entry part): a victim node with the REAL entry.RegisterUnmarshallers
// registration receives valid and tape-corrupted signature share messages over
// the simulated network; every message its unmarshaler accepts is handed to
// the real share validation (extractAndValidateShare) the receive loop of
// SignAndSubmit runs. Oracles: verifadapt.Hostile (round trip, no panic).

import (
	"math/big"
	"testing"

	bn256 "github.com/ethereum/go-ethereum/crypto/bn256/cloudflare"
	"github.com/keep-network/keep-core/pkg/chain/local_v1"
	"github.com/keep-network/keep-core/pkg/internal/verifadapt"
	"github.com/keep-network/keep-core/pkg/protocol/group"

	"verifsim"
)

func init() {
	verifScenarios["C19"] = verifsim.Scenario{Bubble: false, Fn: c19Run, MinBudget: 150}
}

func c19Scalar(tp *verifsim.Tape, label string) *big.Int {
	v := new(big.Int).SetBytes(tp.Bytes(label, 32))
	v.Mod(v, bn256.Order)
	if v.Sign() == 0 {
		v.SetInt64(1)
	}
	return v
}

func c19Run(t *testing.T, r *verifsim.Run) {
	tp := r.T
	sn := verifadapt.NewNet()
	sender := sn.AddNode(local_v1.DefaultCurve)
	victim := sn.AddNode(local_v1.DefaultCurve)
	RegisterUnmarshallers(victim.Channel("relay"))

	// a signer the victim knows: member idx with secret x
	idx := group.MemberIndex(1 + tp.Choose("member", 5))
	x := c19Scalar(tp, "secret")
	previousEntry := new(bn256.G1).ScalarBaseMult(c19Scalar(tp, "previous-entry"))
	pubShares := map[group.MemberIndex]*bn256.G2{idx: new(bn256.G2).ScalarBaseMult(x)}
	share := new(bn256.G1).ScalarMult(previousEntry, x)
	session := "session-" + string(rune('a'+tp.Choose("session", 5)))

	h := verifadapt.NewHostile(r, "C19", sn, sender.Index, victim.Index, "relay")
	validAccepted := 0
	h.OnAccept = func(typ string, m *verifadapt.Message, valid bool) {
		msg := m.Body.(*SignatureShareMessage)
		_ = msg.SenderID()
		_, err := extractAndValidateShare(msg, pubShares, previousEntry)
		if valid && err == nil {
			validAccepted++
		}
		if !valid && err == nil {
			r.Probe("mutated-share-still-verifies")
		}
	}
	r.Logf("cfg member=%d", idx)
	sent := NewSignatureShareMessage(idx, share.Marshal(), session)
	payload := h.RoundTrip(sent)
	if r.Failed() || payload == nil {
		return
	}
	if validAccepted > 0 {
		r.Probe("valid-share-verified-by-real-validation")
	}
	h.Attack(sent.Type(), payload, 6+tp.Choose("attacks", 20))
}
