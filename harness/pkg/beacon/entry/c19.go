package entry

// C19 (relay entry part): the victim is one member RUNNING the real
// entry.SignAndSubmit (real RegisterUnmarshallers registration, real receive
// loop and share validation) on the simulated network, block counter and a
// stub beacon chain. Another group member's node sends it a valid signature
// share message and tape-corrupted copies; every message the victim's
// unmarshaler accepts is delivered to the live handler. Finally the last
// missing valid share arrives and blocks advance: the victim must submit the
// unique threshold signature of the previous entry (the valid shares crossed
// the wire intact). Only exported / stable entry points of the package are
// used (SignAndSubmit, RegisterUnmarshallers, NewSignatureShareMessage).

import (
	"math/big"
	"runtime/debug"
	"testing"
	"testing/synctest"

	bn256 "github.com/ethereum/go-ethereum/crypto/bn256/cloudflare"
	"github.com/ipfs/go-log/v2"
	beaconchain "github.com/keep-network/keep-core/pkg/beacon/chain"
	"github.com/keep-network/keep-core/pkg/beacon/dkg"
	"github.com/keep-network/keep-core/pkg/beacon/event"
	"github.com/keep-network/keep-core/pkg/chain"
	"github.com/keep-network/keep-core/pkg/chain/local_v1"
	"github.com/keep-network/keep-core/pkg/internal/verifadapt"
	"github.com/keep-network/keep-core/pkg/protocol/group"
	"github.com/keep-network/keep-core/pkg/subscription"

	"verifsim"
)

func init() {
	verifScenarios["C19"] = verifsim.Scenario{Bubble: true, Fn: c19Run, MinBudget: 120}
}

func c19Scalar(tp *verifsim.Tape, label string) *big.Int {
	v := new(big.Int).SetBytes(tp.Bytes(label, 32))
	v.Mod(v, bn256.Order)
	if v.Sign() == 0 {
		v.SetInt64(1)
	}
	return v
}

// c19Chain is the part of the beacon chain SignAndSubmit uses; any other call
// hits the nil embedded interface and panics (=> reported).
type c19Chain struct {
	beaconchain.Interface
	n, h      int
	submitted [][]byte
	handler   func(*event.RelayEntrySubmitted)
}

func (c *c19Chain) GetConfig() *beaconchain.Config {
	return &beaconchain.Config{GroupSize: c.n, HonestThreshold: c.h, ResultPublicationBlockStep: 2, RelayEntryTimeout: 500}
}

func (c *c19Chain) OnRelayEntrySubmitted(h func(*event.RelayEntrySubmitted)) subscription.EventSubscription {
	c.handler = h
	return subscription.NewEventSubscription(func() { c.handler = nil })
}

func (c *c19Chain) IsEntryInProgress() (bool, error) { return len(c.submitted) == 0, nil }

func (c *c19Chain) SubmitRelayEntry(entry []byte) error {
	c.submitted = append(c.submitted, append([]byte(nil), entry...))
	return nil
}

func c19Run(t *testing.T, r *verifsim.Run) {
	tp := r.T
	const n, h = 3, 3
	// dealer: f of degree h-1, share_i = f(i)
	coef := []*big.Int{c19Scalar(tp, "secret"), c19Scalar(tp, "coef-1"), c19Scalar(tp, "coef-2")}
	f := func(x int64) *big.Int {
		acc := big.NewInt(0)
		for d := len(coef) - 1; d >= 0; d-- {
			acc.Mul(acc, big.NewInt(x))
			acc.Add(acc, coef[d])
			acc.Mod(acc, bn256.Order)
		}
		return acc
	}
	pubShares := map[group.MemberIndex]*bn256.G2{}
	for i := 1; i <= n; i++ {
		pubShares[group.MemberIndex(i)] = new(bn256.G2).ScalarBaseMult(f(int64(i)))
	}
	gpk := new(bn256.G2).ScalarBaseMult(coef[0])
	previousEntry := new(bn256.G1).ScalarBaseMult(c19Scalar(tp, "previous-entry"))
	prevBytes := previousEntry.Marshal()
	want := new(bn256.G1).ScalarMult(previousEntry, coef[0]).Marshal()
	session := "" // SignAndSubmit's session id is the hex of the previous entry
	for _, b := range prevBytes {
		const hexd = "0123456789abcdef"
		session += string(hexd[b>>4]) + string(hexd[b&15])
	}

	sn := verifadapt.NewNet()
	victim := sn.AddNode(local_v1.DefaultCurve)
	sender := sn.AddNode(local_v1.DefaultCurve)
	ch := victim.Channel("relay")
	RegisterUnmarshallers(ch)
	blocks := verifadapt.NewNodeBlocks(1)
	start := uint64(2 + tp.Choose("start", 4))
	bc := &c19Chain{n: n, h: h}
	signer := dkg.NewThresholdSigner(1, gpk, f(1), pubShares, []chain.Address{"op-1", "op-2", "op-3"})
	logger := log.Logger("verif-c19-entry")
	r.Logf("cfg start=%d", start)

	done := false
	var runErr error
	go func() {
		defer func() {
			if p := recover(); p != nil {
				done = true
				r.Failf("C19:handler-panic:relay/signature/share", "the running SignAndSubmit panicked after corrupted share messages were delivered: %v\n%s", p, debug.Stack())
			}
		}()
		runErr = SignAndSubmit(logger, blocks, ch, bc, prevBytes, h, signer, start)
		done = true
	}()
	synctest.Wait()
	sn.Drain() // the victim's own share

	share := func(i int64) []byte { return new(bn256.G1).ScalarMult(previousEntry, f(i)).Marshal() }
	h2 := verifadapt.NewHostile(r, "C19", sn, sender.Index, victim.Index, "relay")
	h2.OnAccept = func(typ string, m *verifadapt.Message, valid bool) {
		if sn.Deliver(m.OrigSeqEnv, victim.Index) > 0 {
			r.Probe("delivered-to-running-SignAndSubmit")
		}
		synctest.Wait()
	}
	sent := NewSignatureShareMessage(2, share(2), session)
	payload := h2.RoundTrip(sent)
	if r.Failed() || payload == nil {
		return
	}
	h2.Attack(sent.Type(), payload, 6+tp.Choose("attacks", 20))
	if r.Failed() {
		return
	}
	if done {
		r.Failf("C19:relay-finished-early", "SignAndSubmit returned (%v) with only two of three valid shares available", runErr)
		return
	}
	// the last valid share, then blocks until the victim's submission slot
	h2.RoundTrip(NewSignatureShareMessage(3, share(3), session))
	if r.Failed() {
		return
	}
	for b := uint64(2); b <= start+uint64(2*n)+2 && len(bc.submitted) == 0 && !done; b++ {
		blocks.Advance(b)
		synctest.Wait()
		r.AddSim(0, 1)
	}
	// the chain confirms the entry: the member leaves its submitter loop
	if hd := bc.handler; hd != nil && len(bc.submitted) > 0 {
		go hd(&event.RelayEntrySubmitted{BlockNumber: blocks.Height()})
		synctest.Wait()
	}
	if len(bc.submitted) == 0 {
		r.Failf("C19:valid-share-lost", "the victim received valid shares of members 2 and 3 (threshold 3) but did not submit a relay entry (returned=%v err=%v)", done, runErr)
		return
	}
	if !verifadapt.BytesEqual(bc.submitted[0], want) {
		r.Failf("C19:valid-share-lost", "the victim submitted an entry that is not the group's signature of the previous entry although only its own and the two valid shares can have passed validation")
		return
	}
	r.Probe("entry-submitted-from-valid-shares")
}
