package event

// C37 (pkg/beacon/event part): the real beacon event Deduplicator
// (NewDeduplicator + NotifyDKGStarted) under concurrent deliveries and clock
// jumps. Engine and oracle: verifadapt.C37Run.

import (
	"math/big"
	"testing"

	"github.com/keep-network/keep-core/pkg/internal/verifadapt"

	"verifsim"
)

func init() {
	verifScenarios["C37"] = verifsim.Scenario{Bubble: true, Fn: c37Run}
}

// c37Chain is never consulted by NotifyDKGStarted.
type c37Chain struct{}

func (c37Chain) CurrentRequestStartBlock() (*big.Int, error)  { return big.NewInt(0), nil }
func (c37Chain) CurrentRequestPreviousEntry() ([]byte, error) { return nil, nil }

func c37Run(t *testing.T, r *verifsim.Run) {
	tp := r.T
	d := NewDeduplicator(c37Chain{})
	nEvents := 1 + tp.Choose("events", 4)
	var seeds []*big.Int
	for len(seeds) < nEvents {
		var s *big.Int
		if len(seeds) == 0 || tp.Chance("fresh", 1, 2) {
			switch tp.Choose("seed-size", 4) {
			case 0:
				s = big.NewInt(int64(tp.Choose("seed-small", 4096)))
			case 1:
				s = new(big.Int).SetUint64(tp.Uint64("seed-64"))
			case 2:
				s = new(big.Int).SetBytes(tp.Bytes("seed-256", 32))
			default:
				s = new(big.Int).SetBytes(tp.Bytes("seed-128", 16))
			}
		} else {
			base := seeds[tp.Choose("base", len(seeds))]
			switch tp.Choose("near", 6) {
			case 0:
				s = new(big.Int).Add(base, big.NewInt(1))
			case 1:
				s = new(big.Int).Lsh(base, 4) // hex text gains a trailing 0
			case 2:
				s = new(big.Int).Rsh(base, 4) // hex text loses its last digit
			case 3: // differs only above bit 64
				s = new(big.Int).Add(base, new(big.Int).Lsh(big.NewInt(1), 64))
			case 4: // differs only above bit 128
				s = new(big.Int).Add(base, new(big.Int).Lsh(big.NewInt(1), 128))
			default:
				s = new(big.Int).Lsh(base, 8)
			}
		}
		for _, o := range seeds {
			if o.Cmp(s) == 0 {
				r.Inconclusive("generator-duplicate")
				return
			}
		}
		seeds = append(seeds, s)
	}
	cfg := verifadapt.C37Config{Func: "beacon.NotifyDKGStarted", Period: DKGSeedCachePeriod}
	for _, s := range seeds {
		s := s
		cfg.Events = append(cfg.Events, verifadapt.C37Event{
			Desc:    "seed=0x" + s.Text(16),
			Deliver: func() bool { return d.NotifyDKGStarted(new(big.Int).Set(s)) },
		})
	}
	cfg.MakeBurst = func(base uint64, n int) []verifadapt.C37Event {
		var out []verifadapt.C37Event
		for i := 0; i < n; i++ {
			b := make([]byte, 24)
			for j := 0; j < 24; j += 8 {
				v := verifsim.Mix(base, uint64(i*8+j/8+1))
				for k := 0; k < 8; k++ {
					b[j+k] = byte(v >> (8 * uint(k)))
				}
			}
			b[0] |= 0x80
			s := new(big.Int).SetBytes(b)
			dup := false
			for _, o := range seeds {
				if o.Cmp(s) == 0 {
					dup = true
				}
			}
			if dup {
				continue
			}
			seeds = append(seeds, s)
			out = append(out, verifadapt.C37Event{
				Desc:    "seed=0x" + s.Text(16),
				Deliver: func() bool { return d.NotifyDKGStarted(new(big.Int).Set(s)) },
			})
		}
		return out
	}
	r.Logf("kind=%s period=%v events=%d", cfg.Func, cfg.Period, len(cfg.Events))
	for i, e := range cfg.Events {
		r.Logf("event %d: %s", i, e.Desc)
	}
	verifadapt.C37Run(r, cfg)
}
