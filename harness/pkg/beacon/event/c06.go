package event

// C06: relay entry request deduplication. The real Deduplicator
// (NotifyRelayEntryStarted) receives notifications derived from a generated
// chain history (new previous entry, retry with the same previous entry,
// reorganisations that bring older requests / older start blocks back,
// notifications from abandoned forks); deliveries are in order, duplicated,
// stale, and concurrent (gated at entry; at the chain-stub seam only when the
// deduplicator's own mutex is NOT held, which a TryLock probe decides); the
// answers of the chain stub, including errors and a chain change between its
// two queries, belong to the history. Oracle: sequential reference model
// written from the statement + porcupine linearizability of the stamped
// invoke/return history + direct invariants.

import (
	"encoding/binary"
	"encoding/hex"
	"errors"
	"fmt"
	"math/big"
	"sort"
	"sync"
	"testing"
	"testing/synctest"
	"time"

	"github.com/anishathalye/porcupine"

	"verifsim"
)

func init() {
	verifScenarios["C06"] = verifsim.Scenario{Bubble: true, Fn: c06Run}
}

type c06Req struct {
	start uint64
	prev  string // hex of the previous entry
}

func (q c06Req) String() string { return fmt.Sprintf("(start=%d prev=%s)", q.start, q.prev) }

type c06Op struct {
	id    int
	req   c06Req
	label string
	fault int     // 0 none, 1 error on the previous-entry query, 2 error on the start-block query
	mid   *c06Req // chain moves to this request between the two queries
	free  bool    // executed in the ungated final batch

	seqI, seqR        uint64
	asked             bool
	gotPrev, gotStart bool
	ansPrev           string
	ansStart          uint64
	faultHit          bool
	midApplied        bool
	midParked         bool
	accepted          bool
	errd              bool
	done              bool
	panicked          string
}

// confirmed: the chain stub reported exactly this (prev,start) as current to this call.
func (o *c06Op) confirmed() bool {
	return o.gotPrev && o.gotStart && o.ansPrev == o.req.prev && o.ansStart == o.req.start
}

type c06Sim struct {
	r       *verifsim.Run
	gates   *verifsim.Gates
	d       *Deduplicator
	mu      sync.Mutex
	cur     c06Req
	byLabel map[string]*c06Op
	free    bool
}

func (s *c06Sim) callerOp() *c06Op {
	label := s.gates.Label()
	s.mu.Lock()
	defer s.mu.Unlock()
	return s.byLabel[label]
}

// maybePark turns the chain query into a scheduling point, but only if the
// deduplicator's mutex is not held by the caller (never park under a mutex).
func (s *c06Sim) maybePark(op *c06Op, site string) {
	s.mu.Lock()
	free := s.free
	s.mu.Unlock()
	if op == nil || free {
		return
	}
	if s.d.relayEntryMutex.TryLock() {
		s.d.relayEntryMutex.Unlock()
		s.mu.Lock()
		op.midParked = true
		s.mu.Unlock()
		s.gates.Point(site)
	}
}

func (s *c06Sim) CurrentRequestPreviousEntry() ([]byte, error) {
	op := s.callerOp()
	s.maybePark(op, "chain-prev")
	s.mu.Lock()
	defer s.mu.Unlock()
	b, _ := hex.DecodeString(s.cur.prev)
	if op == nil {
		return b, nil
	}
	op.asked = true
	if op.fault == 1 {
		op.faultHit = true
		return nil, errors.New("c06: injected chain error (previous entry)")
	}
	op.ansPrev, op.gotPrev = s.cur.prev, true
	if op.mid != nil && !op.midApplied {
		s.cur = *op.mid
		op.midApplied = true
	}
	return b, nil
}

func (s *c06Sim) CurrentRequestStartBlock() (*big.Int, error) {
	op := s.callerOp()
	s.maybePark(op, "chain-start")
	s.mu.Lock()
	defer s.mu.Unlock()
	if op == nil {
		return new(big.Int).SetUint64(s.cur.start), nil
	}
	op.asked = true
	if op.fault == 2 {
		op.faultHit = true
		return nil, errors.New("c06: injected chain error (start block)")
	}
	op.ansStart, op.gotStart = s.cur.start, true
	return new(big.Int).SetUint64(s.cur.start), nil
}

// ---- reference model, written from the property statement ----

type c06Model struct {
	has   bool
	start uint64
	prev  string
}

type c06In struct {
	start     uint64
	prev      string
	confirmed bool
	faultHit  bool
}

type c06Out struct{ accepted, errd bool }

// c06Spec says whether the outcome is allowed in state st, and the next state.
// why names the violated clause.
func c06Spec(st c06Model, in c06In, out c06Out) (ok bool, next c06Model, why string) {
	upd := c06Model{true, in.start, in.prev}
	switch {
	case out.errd:
		// only an injected chain error excuses a failure; nothing is processed
		if !in.faultHit {
			return false, st, "spurious-error"
		}
		return true, st, ""
	case !st.has:
		if !out.accepted {
			return false, st, "first-request-rejected"
		}
		return true, upd, ""
	case in.start <= st.start:
		// same or older request than the one already processed
		if out.accepted {
			return false, st, "stale-or-duplicate-accepted"
		}
		return true, st, ""
	case in.prev != st.prev:
		// genuinely new request with a new previous entry: always processed
		if !out.accepted {
			return false, st, "new-request-rejected"
		}
		return true, upd, ""
	default:
		// later request reusing the previous entry: only when the chain confirms it
		if out.accepted {
			if !in.confirmed {
				return false, st, "unconfirmed-retry-accepted"
			}
			return true, upd, ""
		}
		return true, st, ""
	}
}

func c06Run(t *testing.T, r *verifsim.Run) {
	tp := r.T
	s := &c06Sim{r: r, gates: verifsim.NewGates(), byLabel: map[string]*c06Op{}}
	defer s.gates.ReleaseAll()
	s.d = NewDeduplicator(s)

	entryN := 0
	newEntry := func() string {
		entryN++
		b := make([]byte, 8)
		copy(b, tp.Bytes("entry", 4))
		binary.BigEndian.PutUint32(b[4:], uint32(entryN))
		return hex.EncodeToString(b)
	}
	var entries []string
	entries = append(entries, newEntry())
	s.cur = c06Req{start: 0, prev: entries[0]} // nothing requested yet
	height := uint64(tp.Choose("genesis-height", 50))
	var reqs []c06Req    // every request that ever was current on some fork
	var emitted []c06Req // every notification ever emitted
	var pending []c06Req // emitted, not yet delivered in order
	var ops []*c06Op
	model := c06Model{}
	modelKnown := true

	setCur := func(q c06Req) {
		s.mu.Lock()
		s.cur = q
		s.mu.Unlock()
	}
	getCur := func() c06Req {
		s.mu.Lock()
		defer s.mu.Unlock()
		return s.cur
	}

	emit := func(q c06Req) {
		emitted = append(emitted, q)
		pending = append(pending, q)
	}
	makeRequest := func(kind int) c06Req {
		var q c06Req
		switch kind {
		case 0: // the previous request was served: new entry, new request
			e := newEntry()
			entries = append(entries, e)
			q = c06Req{start: height + 1 + uint64(tp.Choose("gap", 3)), prev: e}
		case 1: // timed out / retried: same previous entry, later block
			q = c06Req{start: height + 1 + uint64(tp.Choose("gap", 5)), prev: getCur().prev}
		default: // request on top of an entry seen earlier (after a reorganisation)
			q = c06Req{start: height + 1 + uint64(tp.Choose("gap", 3)), prev: entries[tp.Choose("old-entry", len(entries))]}
		}
		height = q.start
		reqs = append(reqs, q)
		return q
	}
	// judge applies the reference model to a completed, serially executed op
	judge := func(op *c06Op) bool {
		if op.panicked != "" {
			r.Failf("C06:panic", "NotifyRelayEntryStarted%v panicked: %s", op.req, op.panicked)
			return false
		}
		if !modelKnown {
			return true
		}
		in := c06In{op.req.start, op.req.prev, op.confirmed(), op.faultHit}
		ok, next, why := c06Spec(model, in, c06Out{op.accepted, op.errd})
		if !ok {
			r.Failf("C06:"+why, "delivery #%d %v returned accepted=%v error=%v; last processed request: %+v; chain consulted=%v answered prev=%q start=%d (confirms this request: %v), injected chain error hit: %v",
				op.id, op.req, op.accepted, op.errd, model, op.asked, op.ansPrev, op.ansStart, op.confirmed(), op.faultHit)
			return false
		}
		// reach probes
		switch {
		case op.errd:
		case model.has && op.req.start <= model.start:
			r.Probe("stale-or-duplicate-rejected")
		case model.has && op.req.prev == model.prev && op.accepted:
			r.Probe("confirmed-retry-accepted")
		case model.has && op.req.prev == model.prev && !op.confirmed():
			r.Probe("unconfirmed-same-entry-rejected")
		case model.has && op.req.prev == model.prev:
			r.Probe("confirmed-retry-rejected")
		}
		if op.gotPrev && op.gotStart && op.midApplied {
			r.Probe("chain-changed-between-the-two-queries")
		}
		model = next
		return true
	}

	planOp := func(q c06Req, allowMid bool) *c06Op {
		op := &c06Op{id: len(ops), req: q, label: fmt.Sprintf("op%03d", len(ops))}
		op.fault = tp.Weighted("chain-fault", 14, 1, 1)
		if allowMid && tp.Chance("mid-change", 1, 8) {
			m := makeRequest(tp.Choose("mid-kind", 2))
			emit(m)
			op.mid = &m
		}
		ops = append(ops, op)
		s.mu.Lock()
		s.byLabel[op.label] = op
		s.mu.Unlock()
		return op
	}
	spawn := func(op *c06Op) {
		op.seqI = r.Seq()
		go func() {
			s.gates.Enter(op.label)
			defer s.gates.Leave()
			s.gates.Point("entry")
			var acc bool
			var err error
			var pan string
			func() {
				defer func() {
					if p := recover(); p != nil {
						pan = fmt.Sprint(p)
					}
				}()
				acc, err = s.d.NotifyRelayEntryStarted(op.req.start, op.req.prev)
			}()
			s.mu.Lock()
			op.accepted, op.errd, op.panicked, op.done = acc, err != nil, pan, true
			op.seqR = r.Seq()
			s.mu.Unlock()
		}()
	}
	// runGated executes a batch with the tape choosing who proceeds at every gate
	runGated := func(batch []*c06Op) bool {
		for _, op := range batch {
			spawn(op)
		}
		guard := 0
		for {
			synctest.Wait()
			parked := s.gates.List()
			if len(parked) == 0 {
				break
			}
			guard++
			if guard > 100 {
				r.Inconclusive("gate-step-cap")
				return false
			}
			i := tp.Choose("sched", len(parked))
			if i != 0 {
				r.Fault("interleave")
			}
			r.Logf("run %s from %s", parked[i].Label, parked[i].Site)
			s.gates.Release(parked[i].Label)
		}
		s.mu.Lock() // happens-before edge from the finished calls
		s.mu.Unlock()
		done := append([]*c06Op(nil), batch...)
		sort.Slice(done, func(i, j int) bool { return done[i].seqR < done[j].seqR })
		anyMidPark := false
		for _, op := range done {
			if !op.done {
				r.Inconclusive("delivery-not-finished")
				return false
			}
			if op.midParked {
				anyMidPark = true
			}
		}
		if anyMidPark && len(batch) > 1 {
			// calls interleaved inside the deduplicator (possible only when it
			// does not hold its mutex): no serial order known any more
			modelKnown = false
			r.Probe("interleaved-inside-deduplicator")
		}
		for _, op := range done {
			r.Logf("op %d %v -> accepted=%v err=%v asked=%v ans=(%s,%d) fault=%v", op.id, op.req, op.accepted, op.errd, op.asked, op.ansPrev, op.ansStart, op.faultHit)
			if op.faultHit {
				r.Fault("chain-query-error")
			}
			if op.midApplied {
				r.Fault("chain-change-between-queries")
			}
		}
		for _, op := range done {
			if !judge(op) {
				return false
			}
			// a planned chain change that the call did not trigger happens now
			if op.mid != nil && !op.midApplied {
				setCur(*op.mid)
				op.midApplied = true
			}
		}
		return true
	}

	pickStale := func() c06Req { return emitted[tp.Choose("which-emitted", len(emitted))] }

	steps := 8 + tp.Choose("steps", 33)
	r.Logf("genesis height=%d entry=%s steps=%d", height, entries[0], steps)
	for step := 0; step < steps && !r.Failed(); step++ {
		r.Step()
		ev := tp.Weighted("event", 6, 3, 2, 3, 3, 2, 2)
		if len(emitted) == 0 || (ev == 0 && len(pending) == 0) {
			ev = 1
		}
		switch ev {
		case 0: // next notification, in order
			q := pending[0]
			pending = pending[1:]
			r.Logf("deliver in order %v chain=%v", q, getCur())
			if !runGated([]*c06Op{planOp(q, true)}) {
				return
			}
		case 1: // chain: new request with a new previous entry
			kind := 0
			if len(reqs) > 1 && tp.Chance("on-old-entry", 1, 5) {
				kind = 2
			}
			q := makeRequest(kind)
			setCur(q)
			emit(q)
			r.AddSim(0, 1)
			r.Logf("chain: new request %v", q)
		case 2: // chain: retry of the current request (same previous entry)
			if getCur().start == 0 {
				continue
			}
			q := makeRequest(1)
			setCur(q)
			emit(q)
			r.Fault("request-retried-same-entry")
			r.Logf("chain: retried request %v", q)
		case 3: // duplicate / stale redelivery
			q := pickStale()
			r.Fault("stale-or-duplicate-delivery")
			r.Logf("redeliver %v chain=%v", q, getCur())
			if !runGated([]*c06Op{planOp(q, true)}) {
				return
			}
		case 4: // concurrent deliveries
			k := 2 + tp.Choose("batch", 3)
			var batch []*c06Op
			for i := 0; i < k; i++ {
				var q c06Req
				switch c := tp.Choose("batch-pick", 3); {
				case c == 0 && len(pending) > 0:
					q = pending[0]
					pending = pending[1:]
				case c == 1 && len(batch) > 0:
					q = batch[0].req // the same notification twice at once
				default:
					q = pickStale()
				}
				batch = append(batch, planOp(q, i == 0))
			}
			r.Fault("concurrent-batch")
			r.Logf("concurrent batch of %d chain=%v", k, getCur())
			if !runGated(batch) {
				return
			}
		case 5: // reorganisation: an older request is current again
			if len(reqs) < 2 {
				continue
			}
			q := reqs[tp.Choose("reorg-to", len(reqs))]
			setCur(q)
			height = q.start
			if tp.Chance("replay-notification", 1, 2) {
				emit(q)
			}
			// later requests may now reuse start blocks of the abandoned fork
			if tp.Chance("height-back", 1, 2) && height > 2 {
				height -= uint64(1 + tp.Choose("back", 2))
			}
			r.Fault("reorg")
			r.Logf("chain: reorganised, current again %v height=%d", q, height)
		case 6: // notification from a fork that does not become the chain
			var q c06Req
			cur := getCur()
			switch tp.Choose("fork-kind", 3) {
			case 0: // same entry, later block, never confirmed
				q = c06Req{start: cur.start + 1 + uint64(tp.Choose("gap", 4)), prev: cur.prev}
			case 1: // same block as the current request, different entry
				e := newEntry()
				entries = append(entries, e)
				q = c06Req{start: cur.start, prev: e}
			default: // later block, entry seen earlier
				q = c06Req{start: cur.start + 1 + uint64(tp.Choose("gap", 4)), prev: entries[tp.Choose("old-entry", len(entries))]}
			}
			if q.start == 0 {
				continue
			}
			emit(q)
			r.Fault("abandoned-fork-notification")
			r.Logf("fork notification %v (chain stays %v)", q, cur)
		}
	}
	if r.Failed() {
		return
	}

	// final ungated batch: the calls run truly in parallel (Go scheduler);
	// outcomes are not logged, only judged (linearizability, race detector)
	if len(emitted) > 0 && tp.Chance("free-batch", 1, 2) {
		k := 2 + tp.Choose("free-k", 3)
		var batch []*c06Op
		for i := 0; i < k; i++ {
			var q c06Req
			if i > 0 && tp.Chance("free-same", 1, 3) {
				q = batch[0].req
			} else {
				q = pickStale()
			}
			op := planOp(q, false)
			op.free = true
			batch = append(batch, op)
		}
		r.Logf("free batch of %d", k)
		r.Fault("parallel-batch-ungated")
		for _, op := range batch {
			spawn(op)
		}
		synctest.Wait()
		s.mu.Lock()
		s.free = true
		s.mu.Unlock()
		for _, op := range batch {
			s.gates.Release(op.label)
		}
		synctest.Wait()
		modelKnown = false
	}
	s.gates.ReleaseAll()
	synctest.Wait()

	// ---- whole-history oracles ----
	s.mu.Lock() // happens-before edge from the finished calls
	s.mu.Unlock()
	for _, op := range ops {
		if !op.done {
			r.Inconclusive("delivery-not-finished")
			return
		}
		if op.panicked != "" {
			r.Failf("C06:panic", "NotifyRelayEntryStarted%v panicked: %s", op.req, op.panicked)
			return
		}
	}
	// at most once per request; accepted start blocks strictly increase
	for i, a := range ops {
		if !a.accepted {
			continue
		}
		for _, b := range ops[i+1:] {
			if !b.accepted {
				continue
			}
			if a.req == b.req {
				r.Failf("C06:request-accepted-twice", "request %v was accepted by delivery #%d and again by delivery #%d", a.req, a.id, b.id)
				return
			}
			x, y := a, b
			if y.seqR < x.seqI {
				x, y = y, x
			}
			if x.seqR < y.seqI && y.req.start <= x.req.start {
				r.Failf("C06:accepted-blocks-not-increasing", "delivery #%d %v was accepted after delivery #%d %v had been accepted and had returned", y.id, y.req, x.id, x.req)
				return
			}
		}
	}
	// linearizability against the reference model
	pm := porcupine.Model{
		Init: func() interface{} { return c06Model{} },
		Step: func(st, in, out interface{}) (bool, interface{}) {
			ok, next, _ := c06Spec(st.(c06Model), in.(c06In), out.(c06Out))
			return ok, next
		},
		Equal: func(a, b interface{}) bool { return a.(c06Model) == b.(c06Model) },
	}
	var hist []porcupine.Operation
	concurrent := false
	for i, op := range ops {
		hist = append(hist, porcupine.Operation{
			ClientId: i,
			Input:    c06In{op.req.start, op.req.prev, op.confirmed(), op.faultHit},
			Call:     int64(op.seqI),
			Output:   c06Out{op.accepted, op.errd},
			Return:   int64(op.seqR),
		})
		if i > 0 && op.seqI < ops[i-1].seqR {
			concurrent = true
		}
	}
	if len(hist) == 0 {
		return
	}
	switch porcupine.CheckOperationsTimeout(pm, hist, 30*time.Second) {
	case porcupine.Unknown:
		r.Inconclusive("porcupine-unknown")
	case porcupine.Illegal:
		var desc []string
		for _, op := range ops {
			desc = append(desc, fmt.Sprintf("#%d%v[%d..%d]->acc=%v,err=%v,confirmed=%v", op.id, op.req, op.seqI, op.seqR, op.accepted, op.errd, op.confirmed()))
		}
		r.Failf("C06:not-linearizable", "no serial order of the deliveries is consistent with the reference model: %v", desc)
	default:
		if concurrent {
			r.Probe("linearizable-with-overlapping-calls")
		}
	}
}
