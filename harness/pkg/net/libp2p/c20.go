package libp2p

// C20: the connection handshake completes exactly for honest peers on the
// same protocol. Two real authenticatedConnections (the real
// newAuthenticatedOutboundConnection / newAuthenticatedInboundConnection,
// hence the real handshake acts, their marshaling, envelope signing and
// identity pinning) talk over two net.Pipe legs joined by a man-in-the-middle
// goroutine owned by the simulator. A run is a sequence of sessions between
// the same two honest peers (roles by tape); the middle records every envelope
// and, per act and by tape, forwards it, flips a bit of the signed message /
// of the signature, rewrites the peer id, replays the same act of an earlier
// session, sends a different recorded act in its place (swap / reflection),
// truncates the frame, closes the connection, or plays a dishonest endpoint
// that re-signs an act (altered or not) with its own key.
//
// Oracle (from the statement; P_i/P_r protocol ids, a1..a3 what happened to
// each act):
//   * all acts forwarded untouched and P_i == P_r  =>  both constructors
//     succeed and each side's RemotePeer is the other honest peer;
//   * the responder succeeds only then -- or when the middle consistently
//     re-signed acts 1 and 3 without changing their content (then it is itself
//     the authenticated initiator and RemotePeer must be the middle's id);
//   * the initiator succeeds only if P_i == P_r, the content of act 1 reached
//     the responder unchanged and act 2 was forwarded untouched (it cannot
//     know what happens to act 3);
//   * a constructor returns a connection iff it returns no error; nobody hangs
//     once the middle has closed its legs.

import (
	"bufio"
	"fmt"
	"io"
	"net"
	"sync"
	"testing"
	"testing/synctest"

	libp2pnetwork "github.com/libp2p/go-libp2p/core/network"
	protodelim "google.golang.org/protobuf/dev/encoding/protodelim"
	"google.golang.org/protobuf/proto"

	"github.com/keep-network/keep-core/pkg/net/gen/pb"
	"github.com/keep-network/keep-core/pkg/operator"

	"verifsim"
)

func init() { verifScenarios["C20"] = verifsim.Scenario{Bubble: true, Fn: c20Run} }

type c20AllowAll struct{}

func (c20AllowAll) Validate(*operator.PublicKey) error { return nil }

type c20Action struct {
	kind    string // forward, flip-message, flip-signature, other-peer-id, replay, swap, truncate, close, resign, resign-altered
	pos     int    // byte position source for flips / truncation
	bit     uint
	session int // source session for replay / swap
	act     int // source act for swap
}

type c20Result struct {
	done bool
	conn *authenticatedConnection
	err  error
}

func c20Run(t *testing.T, r *verifsim.Run) {
	tp := r.T
	if tp.Chance("concurrent-sessions", 1, 4) {
		c20Concurrent(r)
		return
	}
	idents := []*identity{c16NewIdentity(0x31), c16NewIdentity(0x52)}
	middle := c16NewIdentity(0x77)
	protocols := []string{"/keep/handshake/1.0.0", "/keep/handshake/2.0.0"}
	nSessions := 1 + tp.Choose("sessions", 4)

	// recorded[s][k] = envelope of act k+1 as sent by its author in session s (nil if never sent)
	var recorded [][3]*pb.HandshakeEnvelope

	for s := 0; s < nSessions && !r.Failed(); s++ {
		r.Step()
		ini := tp.Choose("initiator", 2)
		I, R := idents[ini], idents[1-ini]
		pI := protocols[0]
		pR := protocols[0]
		if tp.Chance("initiator-other-protocol", 1, 8) {
			pI = protocols[1]
		}
		if tp.Chance("responder-other-protocol", 1, 8) {
			pR = protocols[1]
		}
		var acts [3]c20Action
		for k := 0; k < 3; k++ {
			kinds := []string{"forward", "flip-message", "flip-signature", "other-peer-id", "replay", "swap", "truncate", "close", "resign", "resign-altered"}
			w := []int{24, 2, 1, 1, 3, 2, 1, 1, 2, 1}
			if s == 0 {
				w[4] = 0
			}
			if k == 1 {
				w[8], w[9] = 0, 0 // the middle has no use for re-signing the responder's act
			}
			a := c20Action{kind: kinds[tp.Weighted(fmt.Sprintf("act%d", k+1), w...)]}
			switch a.kind {
			case "flip-message", "flip-signature", "truncate", "resign-altered":
				a.pos = tp.Choose("pos", 1<<12)
				a.bit = uint(tp.Choose("bit", 8))
			case "replay":
				a.session = tp.Choose("from-session", s)
			case "swap":
				a.session = tp.Choose("from-session", s+1) // s = the current session
				a.act = (k + 1 + tp.Choose("other-act", 2)) % 3
			}
			acts[k] = a
		}
		// a consistent dishonest endpoint: if act 1 is re-signed unaltered, usually
		// re-sign act 3 too
		if acts[0].kind == "resign" && acts[2].kind == "forward" && tp.Chance("resign-act3-too", 2, 3) {
			acts[2].kind = "resign"
		}
		r.Logf("session %d initiator=%d protoEqual=%v acts=%s/%s/%s", s, ini, pI == pR, acts[0].kind, acts[1].kind, acts[2].kind)

		iConn, mI := net.Pipe() // initiator <-> middle
		mR, rConn := net.Pipe() // middle <-> responder
		var cur [3]*pb.HandshakeEnvelope
		recorded = append(recorded, cur)
		var resI, resR c20Result
		delivered := [3]bool{}      // something was handed on in place of act k
		unchanged := [3]bool{}      // ... and it was the untouched envelope
		sameContent := [3]bool{}    // ... and its signed message bytes were the original ones
		signedByMiddle := [3]bool{} // ... re-signed under the middle's identity

		go func() {
			c, err := newAuthenticatedOutboundConnection(iConn, libp2pnetwork.ConnectionState{}, I.id, I.privKey, R.id, c20AllowAll{}, pI)
			resI = c20Result{true, c, err}
		}()
		go func() {
			c, err := newAuthenticatedInboundConnection(rConn, libp2pnetwork.ConnectionState{}, R.id, R.privKey, c20AllowAll{}, pR)
			resR = c20Result{true, c, err}
		}()
		// the man in the middle
		go func() {
			defer mI.Close()
			defer mR.Close()
			rdI, rdR := bufio.NewReader(mI), bufio.NewReader(mR)
			um := &protodelim.UnmarshalOptions{MaxSize: 4096}
			for k := 0; k < 3; k++ {
				src, dst := rdI, net.Conn(mR)
				if k == 1 {
					src, dst = rdR, net.Conn(mI)
				}
				env := &pb.HandshakeEnvelope{}
				if err := um.UnmarshalFrom(src, env); err != nil {
					return // the author gave up: closing both legs propagates it
				}
				cur[k] = proto.Clone(env).(*pb.HandshakeEnvelope)
				recorded[s][k] = cur[k]
				a := acts[k]
				out := proto.Clone(env).(*pb.HandshakeEnvelope)
				switch a.kind {
				case "forward":
					unchanged[k], sameContent[k] = true, true
				case "flip-message":
					if len(out.Message) == 0 {
						return
					}
					out.Message[a.pos%len(out.Message)] ^= 1 << a.bit
				case "flip-signature":
					if len(out.Signature) == 0 {
						return
					}
					out.Signature[a.pos%len(out.Signature)] ^= 1 << a.bit
				case "other-peer-id":
					out.PeerID = []byte(middle.id)
					sameContent[k] = true
				case "replay":
					old := recorded[a.session][k]
					if old == nil {
						return
					}
					out = proto.Clone(old).(*pb.HandshakeEnvelope)
				case "swap":
					old := recorded[a.session][a.act]
					if old == nil {
						return
					}
					out = proto.Clone(old).(*pb.HandshakeEnvelope)
				case "close":
					return
				case "resign", "resign-altered":
					if a.kind == "resign-altered" && len(out.Message) > 0 {
						out.Message[a.pos%len(out.Message)] ^= 1 << a.bit
					} else {
						sameContent[k] = true
					}
					sig, err := middle.privKey.Sign(out.Message)
					if err != nil {
						return
					}
					out.Signature = sig
					out.PeerID = []byte(middle.id)
					signedByMiddle[k] = true
				}
				if a.kind == "truncate" {
					b, _ := proto.Marshal(out)
					frame := append(protodelimPrefix(len(b)), b...)
					n := 1 + a.pos%(len(frame)-1)
					dst.Write(frame[:n])
					return
				}
				if _, err := (&protodelim.MarshalOptions{}).MarshalTo(dst, out); err != nil {
					return
				}
				delivered[k] = true
			}
			// all three acts handed on: wait for both endpoints to finish reading
			// before the deferred Close (a read on a closed pipe fails)
			buf := make([]byte, 1)
			mR.Read(buf) // returns when the responder closes or at the end of the session
		}()

		synctest.Wait()
		// end of session: the network goes away
		iConn.Close()
		rConn.Close()
		mI.Close()
		mR.Close()
		synctest.Wait()
		if !resI.done || !resR.done {
			r.Failf("C20:handshake-hangs", "session %d: a constructor did not return although every connection was closed (initiator done=%v responder done=%v)", s, resI.done, resR.done)
			return
		}
		okI, okR := resI.err == nil, resR.err == nil
		r.Logf("  -> initiator ok=%v responder ok=%v", okI, okR)
		if (resI.conn != nil) != okI {
			r.Failf("C20:connection-and-error-disagree", "session %d: initiator constructor returned conn=%v err=%v", s, resI.conn != nil, resI.err)
			return
		}
		if (resR.conn != nil) != okR {
			r.Failf("C20:connection-and-error-disagree", "session %d: responder constructor returned conn=%v err=%v", s, resR.conn != nil, resR.err)
			return
		}
		desc := fmt.Sprintf("session %d (protocols equal=%v; act1 %s, act2 %s, act3 %s)", s, pI == pR, acts[0].kind, acts[1].kind, acts[2].kind)
		honest := pI == pR && unchanged[0] && unchanged[1] && unchanged[2]
		if honest {
			r.Probe("honest-session")
			if !okI || !okR {
				r.Failf("C20:honest-handshake-failed", "%s: untouched handshake between peers on the same protocol failed: initiator err=%v responder err=%v", desc, resI.err, resR.err)
				return
			}
			if resI.conn.RemotePeer() != R.id || resR.conn.RemotePeer() != I.id {
				r.Failf("C20:wrong-remote-peer", "%s: completed, but a side attributes the connection to somebody else", desc)
				return
			}
			continue
		}
		for k := 0; k < 3; k++ {
			if acts[k].kind != "forward" {
				r.Fault(fmt.Sprintf("act%d-%s", k+1, acts[k].kind))
			}
		}
		if pI != pR {
			r.Fault("protocol-mismatch")
		}
		if okR {
			middleIsInitiator := pI == pR && signedByMiddle[0] && sameContent[0] && unchanged[1] && signedByMiddle[2] && sameContent[2]
			if !middleIsInitiator {
				r.Failf("C20:responder-accepted-tampered-handshake", "%s: the responder completed the handshake", desc)
				return
			}
			r.Probe("middle-authenticated-as-itself")
			if resR.conn.RemotePeer() != middle.id {
				r.Failf("C20:wrong-remote-peer", "%s: acts 1 and 3 were signed by the middle, the responder attributes the connection to another peer", desc)
				return
			}
		}
		if okI {
			allowed := pI == pR && delivered[0] && sameContent[0] && (unchanged[0] || signedByMiddle[0]) && unchanged[1]
			if !allowed {
				r.Failf("C20:initiator-accepted-tampered-handshake", "%s: the initiator completed the handshake", desc)
				return
			}
			if resI.conn.RemotePeer() != R.id {
				r.Failf("C20:wrong-remote-peer", "%s: initiator attributes the connection to another peer", desc)
				return
			}
			r.Probe("initiator-cannot-see-act3-tampering")
		}
		if !okI && !okR {
			r.Probe("both-sides-failed")
		}
	}
}

// protodelimPrefix is the varint length prefix protodelim writes.
func protodelimPrefix(n int) []byte {
	var b []byte
	for n >= 0x80 {
		b = append(b, byte(n)|0x80)
		n >>= 7
	}
	return append(b, byte(n))
}

// c20Concurrent: 2-4 honest, untampered, same-protocol handshake sessions (own
// pipes, own forwarding middle) run at the same time in one process: all
// endpoints start from one barrier and nothing orders their act computations,
// so state shared between handshakes shows up (functionally: an honest session
// fails; under -race: an unsynchronised access). Every session must complete
// on both sides. Only the schedule enters the log.
func c20Concurrent(r *verifsim.Run) {
	tp := r.T
	idents := []*identity{c16NewIdentity(0x31), c16NewIdentity(0x52)}
	const protocol = "/keep/handshake/1.0.0"
	n := 2 + tp.Choose("concurrent-n", 3)
	type sess struct {
		ini        int
		mu         sync.Mutex
		resI, resR c20Result
		conns      []net.Conn
	}
	ss := make([]*sess, n)
	start := make(chan struct{})
	for k := range ss {
		se := &sess{ini: tp.Choose("initiator", 2)}
		ss[k] = se
		I, R := idents[se.ini], idents[1-se.ini]
		iConn, mI := net.Pipe()
		mR, rConn := net.Pipe()
		se.conns = []net.Conn{iConn, mI, mR, rConn}
		go func() { io.Copy(mR, mI); mR.Close() }()
		go func() { io.Copy(mI, mR); mI.Close() }()
		go func() {
			<-start
			c, err := newAuthenticatedOutboundConnection(iConn, libp2pnetwork.ConnectionState{}, I.id, I.privKey, R.id, c20AllowAll{}, protocol)
			se.mu.Lock()
			se.resI = c20Result{true, c, err}
			se.mu.Unlock()
		}()
		go func() {
			<-start
			c, err := newAuthenticatedInboundConnection(rConn, libp2pnetwork.ConnectionState{}, R.id, R.privKey, c20AllowAll{}, protocol)
			se.mu.Lock()
			se.resR = c20Result{true, c, err}
			se.mu.Unlock()
		}()
	}
	r.Logf("concurrent honest sessions=%d", n)
	r.Fault("concurrent-sessions")
	r.Step()
	synctest.Wait()
	close(start)
	synctest.Wait()
	for _, se := range ss {
		for _, c := range se.conns {
			c.Close()
		}
	}
	synctest.Wait()
	for k, se := range ss {
		se.mu.Lock()
		resI, resR := se.resI, se.resR
		se.mu.Unlock()
		I, R := idents[se.ini], idents[1-se.ini]
		if !resI.done || !resR.done {
			r.Failf("C20:handshake-hangs", "concurrent session %d of %d: a constructor did not return although every connection was closed", k, n)
			return
		}
		if resI.err != nil || resR.err != nil {
			r.Failf("C20:honest-handshake-failed", "concurrent session %d of %d (untouched acts, same protocol, %d handshakes running at the same time in one process): initiator err=%v responder err=%v", k, n, n, resI.err, resR.err)
			return
		}
		if resI.conn == nil || resR.conn == nil || resI.conn.RemotePeer() != R.id || resR.conn.RemotePeer() != I.id {
			r.Failf("C20:wrong-remote-peer", "concurrent session %d of %d completed, but a side attributes the connection to somebody else", k, n)
			return
		}
	}
	r.Probe("concurrent-honest-sessions-completed")
	r.Logf("all %d concurrent sessions completed", n)
}
