package libp2p

// C18: delivered network messages are attributed to their authenticated
// author. Real `channel` objects (processPubsubMessage /
// processContainerMessage / deliver / Recv, identity.Unmarshal, key
// conversion, duplicate filter) on the simulated pubsub of c16.go. Honest
// peers publish through the real Send; Byzantine publishers hand crafted
// envelopes to the victims: inner identity of another peer, malformed identity
// bytes, a key of the wrong type (with a matching outer id), unknown Type,
// undecodable payload, garbage, bit flips of a real envelope, empty author --
// interleaved by the tape with valid messages and their duplicates. Envelopes
// reach the victim either by a direct processPubsubMessage call or through the
// real incomingMessageQueue + incomingMessageWorker goroutines.

import (
	"bytes"
	"context"
	"crypto/sha256"
	"encoding/binary"
	"fmt"
	"testing"
	"testing/synctest"

	libp2pcrypto "github.com/libp2p/go-libp2p/core/crypto"
	"github.com/libp2p/go-libp2p/core/peer"
	"google.golang.org/protobuf/proto"

	"github.com/keep-network/keep-core/pkg/net"
	"github.com/keep-network/keep-core/pkg/net/gen/pb"
	"github.com/keep-network/keep-core/pkg/operator"

	"verifsim"
)

func init() { verifScenarios["C18"] = verifsim.Scenario{Bubble: true, Fn: c18Run} }

type c18Call struct {
	sender string
	pubKey []byte
	seqno  uint64
	id     uint64
	typ    string
}

type c18Handler struct {
	id    int
	peer  int
	calls []c18Call // appended by the handler goroutine, read at quiescence
	read  int
	seen  map[string]bool
}

// c18Reader is a deterministic byte source for alien key generation.
type c18Reader struct {
	state [32]byte
	buf   []byte
}

func (r *c18Reader) Read(p []byte) (int, error) {
	for i := range p {
		if len(r.buf) == 0 {
			r.state = sha256.Sum256(r.state[:])
			r.buf = append([]byte(nil), r.state[:]...)
		}
		p[i] = r.buf[0]
		r.buf = r.buf[1:]
	}
	return len(p), nil
}

func c18Run(t *testing.T, r *verifsim.Run) {
	tp := r.T
	nPeers := 2 + tp.Choose("peers", 2)
	workerMode := tp.Chance("worker-mode", 1, 3)
	ps := &c16PubSub{}
	peers := make([]*c16Peer, nPeers)
	idStr := make([]string, nPeers)
	opKey := make([][]byte, nPeers) // reference operator key, derived from the private scalar
	for i := range peers {
		peers[i] = c16NewPeer(i, ps, "c18")
		idStr[i] = peers[i].ident.id.String()
		x, y := DefaultCurve.ScalarBaseMult(c16KeyBytes(byte(0x20 + 7*i)))
		opKey[i] = operator.MarshalUncompressed(&operator.PublicKey{Curve: operator.Secp256k1, X: x, Y: y})
	}
	// an identity with an Ed25519 key: inner and outer id can match, the key can
	// never be an operator key
	_, edPub, err := libp2pcrypto.GenerateEd25519Key(&c18Reader{})
	if err != nil {
		panic(err)
	}
	edID, _ := peer.IDFromPublicKey(edPub)
	edKeyBytes, _ := libp2pcrypto.MarshalPublicKey(edPub)
	edIdentity, _ := proto.Marshal(&pb.Identity{PubKey: edKeyBytes})

	ctx, cancel := context.WithCancel(context.Background())
	defer cancel()
	var handlers []*c18Handler
	for p := range peers {
		n := 1 + tp.Choose("handlers", 2)
		for k := 0; k < n; k++ {
			h := &c18Handler{id: len(handlers), peer: p, seen: map[string]bool{}}
			handlers = append(handlers, h)
			peers[p].ch.Recv(ctx, func(m net.Message) {
				c := c18Call{sender: m.TransportSenderID().String(), pubKey: append([]byte(nil), m.SenderPublicKey()...), seqno: m.Seqno(), typ: m.Type()}
				if pl, ok := m.Payload().(*c16Msg); ok {
					c.id = pl.ID
				}
				h.calls = append(h.calls, c)
			})
		}
		if workerMode {
			go peers[p].ch.incomingMessageWorker(ctx)
			go peers[p].ch.incomingMessageWorker(ctx)
		}
	}
	r.Logf("cfg peers=%d handlers=%d workerMode=%v", nPeers, len(handlers), workerMode)
	synctest.Wait()

	type valid struct {
		from  int
		data  []byte
		seqno uint64
		id    uint64
	}
	var valids []valid
	nextID := uint64(0)
	craftSeq := uint64(100000)

	identityOf := func(i int) []byte {
		b, err := peers[i].ident.Marshal()
		if err != nil {
			panic(err)
		}
		return b
	}
	payload := func(id uint64) []byte {
		b := make([]byte, 8)
		binary.BigEndian.PutUint64(b, id)
		return b
	}
	marshal := func(m *pb.BroadcastNetworkMessage) []byte {
		b, err := proto.Marshal(m)
		if err != nil {
			panic(err)
		}
		return b
	}

	steps := 20 + 20*tp.Choose("length", 3)
	for step := 0; step < steps && !r.Failed(); step++ {
		r.Step()
		to := tp.Choose("victim", nPeers)
		from := tp.Choose("publisher", nPeers)
		fromID := peers[from].ident.id
		fromStr := idStr[from]
		var data []byte
		expect := "none" // none | valid | unknown (only the general invariant applies)
		var expKey string
		kinds := []string{"valid", "duplicate", "inner-other-peer", "malformed-identity", "wrong-key-type", "unknown-type", "bad-payload", "garbage", "bitflip", "empty-author", "poison-seqno"}
		w := []int{8, 2, 3, 3, 2, 2, 2, 1, 3, 1, 2}
		if len(valids) == 0 {
			w[1], w[8] = 0, 0
		}
		kind := kinds[tp.Weighted("envelope", w...)]
		nextID++
		craftSeq++
		switch kind {
		case "valid":
			if err := peers[from].ch.Send(ctx, &c16Msg{ID: nextID}); err != nil {
				r.Failf("C18:send-error", "Send failed: %v", err)
				return
			}
			ps.mu.Lock()
			fresh := ps.fresh
			ps.fresh = nil
			ps.mu.Unlock()
			if len(fresh) != 1 {
				r.Failf("C18:harness-publish-count", "Send published %d envelopes", len(fresh))
				return
			}
			var m pb.BroadcastNetworkMessage
			if err := proto.Unmarshal(fresh[0].data, &m); err != nil {
				r.Failf("C18:harness-publish-garbage", "%v", err)
				return
			}
			data = fresh[0].data
			valids = append(valids, valid{from, data, m.SequenceNumber, nextID})
			expect, expKey = "valid", fmt.Sprintf("%d/%d", from, m.SequenceNumber)
		case "duplicate":
			v := valids[tp.Choose("which-valid", len(valids))]
			from, fromID, fromStr, data = v.from, peers[v.from].ident.id, idStr[v.from], v.data
			expect, expKey = "valid", fmt.Sprintf("%d/%d", v.from, v.seqno)
			r.Fault("duplicate-valid")
		case "inner-other-peer":
			// publisher `from` claims to be another peer
			other := (from + 1 + tp.Choose("impersonated", nPeers-1)) % nPeers
			if tp.Chance("replay-real-envelope", 1, 2) && len(valids) > 0 {
				// re-publish a real envelope of somebody else under the own outer id
				v := valids[tp.Choose("which-valid", len(valids))]
				if v.from == from {
					other = v.from
					expect, expKey = "valid", fmt.Sprintf("%d/%d", v.from, v.seqno) // own message: fine
				}
				data = v.data
				if v.from != from {
					other = v.from
				}
			} else {
				data = marshal(&pb.BroadcastNetworkMessage{Sender: identityOf(other), Payload: payload(nextID), Type: []byte("c16/msg"), SequenceNumber: craftSeq})
			}
			if other != from {
				r.Fault("byz-inner-identity-of-other-peer")
			}
		case "poison-seqno":
			// claim another peer's identity with that peer's NEXT sequence number:
			// must be dropped and must not make the victim's filter drop the real one
			other := (from + 1 + tp.Choose("impersonated", nPeers-1)) % nPeers
			next := uint64(1)
			for _, v := range valids {
				if v.from == other && v.seqno >= next {
					next = v.seqno + 1
				}
			}
			data = marshal(&pb.BroadcastNetworkMessage{Sender: identityOf(other), Payload: payload(nextID), Type: []byte("c16/msg"), SequenceNumber: next})
			r.Fault("byz-poison-next-seqno")
		case "malformed-identity":
			var sender []byte
			switch tp.Choose("malformed-how", 5) {
			case 0:
				sender = nil
			case 1:
				sender = tp.Bytes("identity-bytes", 1+tp.Choose("identity-len", 60))
			case 2:
				good := identityOf(from)
				sender = good[:tp.Choose("truncate", len(good))]
			case 3:
				sender, _ = proto.Marshal(&pb.Identity{PubKey: nil})
			case 4:
				good := identityOf(from)
				sender = append([]byte(nil), good...)
				sender[tp.Choose("flip-pos", len(sender))] ^= byte(1 << uint(tp.Choose("flip-bit", 8)))
				expect = "unknown" // a flip may leave a decodable key
			}
			data = marshal(&pb.BroadcastNetworkMessage{Sender: sender, Payload: payload(nextID), Type: []byte("c16/msg"), SequenceNumber: craftSeq})
			r.Fault("byz-malformed-identity")
		case "wrong-key-type":
			data = marshal(&pb.BroadcastNetworkMessage{Sender: edIdentity, Payload: payload(nextID), Type: []byte("c16/msg"), SequenceNumber: craftSeq})
			if tp.Chance("outer-matches-alien", 2, 3) {
				fromID, fromStr, from = edID, edID.String(), -1
			}
			r.Fault("byz-wrong-key-type")
		case "unknown-type":
			typ := []string{"", "c16/ms", "c16/msg ", "other/type"}[tp.Choose("type", 4)]
			data = marshal(&pb.BroadcastNetworkMessage{Sender: identityOf(from), Payload: payload(nextID), Type: []byte(typ), SequenceNumber: craftSeq})
			r.Fault("byz-unknown-type")
		case "bad-payload":
			data = marshal(&pb.BroadcastNetworkMessage{Sender: identityOf(from), Payload: tp.Bytes("payload", tp.Choose("payload-len", 8)), Type: []byte("c16/msg"), SequenceNumber: craftSeq})
			r.Fault("byz-undecodable-payload")
		case "garbage":
			data = tp.Bytes("garbage", tp.Choose("garbage-len", 80))
			expect = "unknown"
			r.Fault("byz-garbage")
		case "bitflip":
			v := valids[tp.Choose("which-valid", len(valids))]
			from, fromID, fromStr = v.from, peers[v.from].ident.id, idStr[v.from]
			data = append([]byte(nil), v.data...)
			n := 1 + tp.Choose("flips", 3)
			for i := 0; i < n; i++ {
				data[tp.Choose("flip-pos", len(data))] ^= byte(1 << uint(tp.Choose("flip-bit", 8)))
			}
			expect = "unknown"
			r.Fault("wire-bitflip")
		case "empty-author":
			data = marshal(&pb.BroadcastNetworkMessage{Sender: identityOf(from), Payload: payload(nextID), Type: []byte("c16/msg"), SequenceNumber: craftSeq})
			fromID, fromStr, from = peer.ID(""), "", -2
			r.Fault("byz-empty-author")
		}

		msg := c16PubsubMessage(fromID, data)
		if workerMode {
			peers[to].ch.incomingMessageQueue <- msg
		} else if err := peers[to].ch.processPubsubMessage(msg); err != nil {
			r.Probe("envelope-rejected-with-error")
			if expect == "valid" {
				r.Failf("C18:valid-envelope-rejected", "step %d: victim %d rejected the well-formed envelope %s of its authenticated author: %v", step, to, expKey, err)
				return
			}
		}
		synctest.Wait()
		r.Logf("step %d kind=%s from=%d to=%d expect=%s", step, kind, from, to, expect)

		for _, h := range handlers {
			newCalls := h.calls[h.read:]
			h.read = len(h.calls)
			if h.peer != to {
				if len(newCalls) > 0 {
					r.Failf("C18:delivered-to-wrong-peer", "handler %d of peer %d was invoked by an envelope handed to peer %d", h.id, h.peer, to)
					return
				}
				continue
			}
			for _, c := range newCalls {
				r.Logf("  handled h=%d id=%d seqno=%d", h.id, c.id, c.seqno)
				// the general invariant: whatever is delivered is attributed to the
				// authenticated author of the envelope, with that author's key
				if c.sender != fromStr || from < 0 {
					r.Failf("C18:delivered-with-foreign-identity", "step %d (%s): victim %d delivered a message attributed to a transport id different from the authenticated publisher (publisher peer %d, message id %d, seqno %d)", step, kind, to, from, c.id, c.seqno)
					return
				}
				if !bytes.Equal(c.pubKey, opKey[from]) {
					r.Failf("C18:delivered-with-wrong-public-key", "step %d (%s): victim %d delivered a message of publisher peer %d whose SenderPublicKey is not that peer's operator key", step, kind, to, from)
					return
				}
				if expect == "none" {
					r.Failf("C18:bad-envelope-delivered", "step %d: victim %d delivered an envelope of kind %s (publisher peer %d, message id %d)", step, to, kind, from, c.id)
					return
				}
				if c.typ != "c16/msg" {
					r.Failf("C18:unregistered-type-delivered", "step %d: delivered message has type %q", step, c.typ)
					return
				}
			}
			if len(newCalls) > 1 {
				r.Failf("C18:delivered-more-than-once", "step %d (%s): handler %d was invoked %d times by one envelope", step, kind, h.id, len(newCalls))
				return
			}
			if expect == "valid" {
				want := !h.seen[expKey]
				if want && len(newCalls) == 0 {
					r.Failf("C18:valid-message-not-delivered", "step %d (%s): handler %d of victim %d did not get the valid message %s (first copy); earlier bad envelopes must not affect it", step, kind, h.id, to, expKey)
					return
				}
				if !want && len(newCalls) > 0 {
					r.Failf("C18:duplicate-delivered", "step %d: handler %d got %s again", step, h.id, expKey)
					return
				}
				if want {
					r.Probe("valid-first-copy-delivered")
				}
				h.seen[expKey] = true
			} else if len(newCalls) == 1 {
				c := newCalls[0]
				h.seen[fmt.Sprintf("%d/%d", from, c.seqno)] = true
				r.Probe("mutated-envelope-still-deliverable")
			}
		}
	}
}
