package libp2p

// C16 (libp2p part): broadcast delivery is at-most-once per (sender, seqno)
// and stops on cancellation; every Send gets a fresh sequence number.
//
// Real `channel` objects (Send / Recv / removeHandler / deliver /
// processPubsubMessage / processContainerMessage, identity marshaling, the
// real retransmission ticker + strategies + duplicate filter) constructed
// in-package on a simulated pubsub: the `publisher` stub puts published bytes
// into the simulator's outbox, the simulator hands any published envelope
// (also old ones, also several copies at once) to any peer's
// processPubsubMessage with the publishing peer's id as the authenticated
// author. Helpers here are shared with C18 (c18.go).

import (
	"context"
	"encoding/binary"
	"fmt"
	"sort"
	"sync"
	"sync/atomic"
	"testing"
	"testing/synctest"
	"time"

	pubsub "github.com/libp2p/go-libp2p-pubsub"
	pubsubpb "github.com/libp2p/go-libp2p-pubsub/pb"
	libp2pcrypto "github.com/libp2p/go-libp2p/core/crypto"
	"github.com/libp2p/go-libp2p/core/peer"
	"google.golang.org/protobuf/proto"

	"github.com/keep-network/keep-core/pkg/net"
	"github.com/keep-network/keep-core/pkg/net/gen/pb"
	"github.com/keep-network/keep-core/pkg/net/retransmission"

	"verifsim"
)

func init() { verifScenarios["C16"] = verifsim.Scenario{Bubble: true, Fn: c16Run} }

// ---- shared helpers (C16, C18) ----

type c16Msg struct{ ID uint64 }

func (m *c16Msg) Type() string { return "c16/msg" }
func (m *c16Msg) Marshal() ([]byte, error) {
	b := make([]byte, 8)
	binary.BigEndian.PutUint64(b, m.ID)
	return b, nil
}
func (m *c16Msg) Unmarshal(b []byte) error {
	if len(b) != 8 {
		return fmt.Errorf("c16Msg: bad length %d", len(b))
	}
	m.ID = binary.BigEndian.Uint64(b)
	return nil
}

type c16Published struct {
	from int
	data []byte
}

// c16PubSub is the simulated pubsub: published bytes wait in `fresh` until the
// simulator collects them at quiescence.
type c16PubSub struct {
	mu    sync.Mutex
	fresh []c16Published
	// failID[message id] = number of coming publishes of that message that fail
	// (armed by the simulator; keyed by message so that concurrent
	// retransmissions cannot change who is hit)
	failID map[uint64]int
	failed int
}

type c16Publisher struct {
	ps   *c16PubSub
	from int
}

func (p *c16Publisher) Publish(ctx context.Context, data []byte, opts ...pubsub.PubOpt) error {
	p.ps.mu.Lock()
	if len(p.ps.failID) > 0 {
		var m pb.BroadcastNetworkMessage
		if err := proto.Unmarshal(data, &m); err == nil && len(m.Payload) == 8 {
			id := binary.BigEndian.Uint64(m.Payload)
			if p.ps.failID[id] > 0 {
				p.ps.failID[id]--
				p.ps.failed++
				p.ps.mu.Unlock()
				return fmt.Errorf("c16: injected publish failure")
			}
		}
	}
	p.ps.fresh = append(p.ps.fresh, c16Published{p.from, append([]byte(nil), data...)})
	p.ps.mu.Unlock()
	return nil
}

type c16Validator struct{}

func (c16Validator) RegisterTopicValidator(string, interface{}, ...pubsub.ValidatorOpt) error {
	return nil
}
func (c16Validator) UnregisterTopicValidator(string) error { return nil }

type c16Peer struct {
	idx   int
	ident *identity
	ch    *channel
	ticks chan uint64
}

func c16KeyBytes(seedByte byte) []byte {
	kb := make([]byte, 32)
	for i := range kb {
		kb[i] = seedByte + byte(i)*3
	}
	kb[0] = 0x11 // keep the scalar inside the group order
	return kb
}

func c16NewIdentity(seedByte byte) *identity {
	kb := c16KeyBytes(seedByte)
	priv, err := libp2pcrypto.UnmarshalSecp256k1PrivateKey(kb)
	if err != nil {
		panic(err)
	}
	id, err := createIdentity(priv)
	if err != nil {
		panic(err)
	}
	return id
}

func c16NewPeer(idx int, ps *c16PubSub, name string) *c16Peer {
	p := &c16Peer{idx: idx, ident: c16NewIdentity(byte(0x20 + 7*idx)), ticks: make(chan uint64, 16)}
	p.ch = &channel{
		name:                 name,
		clientIdentity:       p.ident,
		validator:            c16Validator{},
		publisher:            &c16Publisher{ps: ps, from: idx},
		incomingMessageQueue: make(chan *pubsub.Message, incomingMessageThrottle),
		messageHandlers:      make([]*messageHandler, 0),
		unmarshalersByType:   make(map[string]func() net.TaggedUnmarshaler),
		retransmissionTicker: retransmission.NewTicker(p.ticks),
	}
	p.ch.SetUnmarshaler(func() net.TaggedUnmarshaler { return &c16Msg{} })
	return p
}

func c16PubsubMessage(from peer.ID, data []byte) *pubsub.Message {
	return &pubsub.Message{Message: &pubsubpb.Message{Data: data, From: []byte(from)}}
}

// ---- C16 scenario ----

type c16Call struct {
	sender        string
	seqno         uint64
	id            uint64
	afterCancelQ  bool
	afterOwnCancl bool
}

type c16Handler struct {
	id         int
	peer       int
	ctx        context.Context
	cancel     context.CancelFunc
	slowEvery  int // 0 never parks; k: parks on every k-th call
	cancelAt   int // 0 never; n: the handler cancels its own context during call n
	cancelReq  bool
	cancelledQ atomic.Bool // set at the quiescent point after cancel()
	ownCancel  atomic.Bool

	mu      sync.Mutex
	calls   []c16Call
	checked int

	seen      map[[2]uint64]bool // (sender peer, seqno) handled
	delivered map[[2]uint64]bool // delivered while registered and live

	deadline    time.Time          // non-zero: the context ends by deadline on the fake clock
	seenID      map[[2]uint64]bool // (sender peer, message id) handled
	deliveredID map[[2]uint64]bool // (sender peer, message id) delivered while registered and live
}

type c16Send struct {
	id     uint64
	peer   int
	cancel context.CancelFunc
	live   bool
	faulty bool // a publish failure was armed for its first publish
}

type c16Env struct {
	from  int
	data  []byte
	id    uint64
	seqno uint64
}

func c16Run(t *testing.T, r *verifsim.Run) {
	tp := r.T
	hv := 40
	if r.Tier == "thorough" {
		hv = 10
	}
	if tp.Chance("high-volume", 1, hv) {
		c16HighVolume(r)
		return
	}
	gates := verifsim.NewGates()
	defer gates.ReleaseAll()
	concurrent := tp.Chance("concurrent-mode", 1, 3)
	nPeers := 2 + tp.Choose("peers", 2)
	ps := &c16PubSub{failID: map[uint64]int{}}
	peers := make([]*c16Peer, nPeers)
	peerOf := map[string]int{}
	for i := range peers {
		peers[i] = c16NewPeer(i, ps, "c16")
		peerOf[peers[i].ident.id.String()] = i
	}
	r.Logf("cfg peers=%d concurrent=%v", nPeers, concurrent)

	var handlers []*c16Handler
	var sends []*c16Send
	var envs []*c16Env
	idSeqno := make([]map[uint64]uint64, nPeers)    // per peer: message id -> seqno
	seqnoOwner := make([]map[uint64]uint64, nPeers) // per peer: seqno -> message id
	for i := range idSeqno {
		idSeqno[i] = map[uint64]uint64{}
		seqnoOwner[i] = map[uint64]uint64{}
	}
	nextID := uint64(0)
	defer func() {
		for _, h := range handlers {
			h.cancel()
		}
		for _, s := range sends {
			s.cancel()
		}
	}()

	register := func(p int) *c16Handler {
		h := &c16Handler{id: len(handlers), peer: p, seen: map[[2]uint64]bool{}, delivered: map[[2]uint64]bool{},
			seenID: map[[2]uint64]bool{}, deliveredID: map[[2]uint64]bool{}}
		switch tp.Weighted("handler-ctx", 3, 1, 1) {
		case 0:
			h.ctx, h.cancel = context.WithCancel(context.Background())
		case 1: // ends by its own deadline
			h.deadline = time.Now().Add(time.Duration(10+len(handlers)) * time.Minute)
			h.ctx, h.cancel = context.WithDeadline(context.Background(), h.deadline)
		case 2: // child of a parent that expires
			h.deadline = time.Now().Add(time.Duration(10+len(handlers)) * time.Minute)
			parent, pc := context.WithDeadline(context.Background(), h.deadline)
			child, cc := context.WithCancel(parent)
			h.ctx, h.cancel = child, func() { cc(); pc() }
		}
		if !concurrent {
			if tp.Chance("slow-handler", 1, 3) {
				h.slowEvery = 1 + tp.Choose("slow-every", 3)
			}
			if tp.Chance("self-cancel", 1, 6) {
				h.cancelAt = 1 + tp.Choose("self-cancel-at", 4)
			}
		}
		handlers = append(handlers, h)
		peers[p].ch.Recv(h.ctx, func(m net.Message) {
			c := c16Call{sender: m.TransportSenderID().String(), seqno: m.Seqno(),
				afterCancelQ: h.cancelledQ.Load(), afterOwnCancl: h.ownCancel.Load()}
			if pl, ok := m.Payload().(*c16Msg); ok {
				c.id = pl.ID
			}
			h.mu.Lock()
			h.calls = append(h.calls, c)
			n := len(h.calls)
			h.mu.Unlock()
			if h.cancelAt == n {
				h.cancel()
				h.ownCancel.Store(true)
			}
			if h.slowEvery > 0 && n%h.slowEvery == 0 {
				gates.PointAs(fmt.Sprintf("h%02d-c%04d", h.id, n), "handler")
			}
		})
		return h
	}

	// collect published envelopes in canonical order and check sequence numbers
	collect := func() bool {
		ps.mu.Lock()
		fresh := ps.fresh
		ps.fresh = nil
		ps.mu.Unlock()
		var add []*c16Env
		for _, f := range fresh {
			var m pb.BroadcastNetworkMessage
			if err := proto.Unmarshal(f.data, &m); err != nil || len(m.Payload) != 8 {
				r.Failf("C16:harness-published-garbage", "peer %d published undecodable bytes: %v", f.from, err)
				return false
			}
			add = append(add, &c16Env{from: f.from, data: f.data, id: binary.BigEndian.Uint64(m.Payload), seqno: m.SequenceNumber})
		}
		sort.SliceStable(add, func(i, j int) bool {
			if add[i].from != add[j].from {
				return add[i].from < add[j].from
			}
			return add[i].id < add[j].id
		})
		for _, e := range add {
			if s, ok := idSeqno[e.from][e.id]; ok {
				if s != e.seqno {
					r.Failf("C16:retransmission-changed-seqno", "peer %d: message id %d first published with seqno %d, retransmitted with seqno %d", e.from, e.id, s, e.seqno)
					return false
				}
			} else {
				if other, used := seqnoOwner[e.from][e.seqno]; used {
					r.Failf("C16:seqno-reused", "peer %d: sends of message ids %d and %d both got sequence number %d (concurrent=%v)", e.from, other, e.id, e.seqno, concurrent)
					return false
				}
				idSeqno[e.from][e.id] = e.seqno
				seqnoOwner[e.from][e.seqno] = e.id
			}
			envs = append(envs, e)
		}
		return true
	}

	// handler-side oracle, run at every quiescent point
	observe := func() bool {
		for _, h := range handlers {
			h.mu.Lock()
			calls := append([]c16Call(nil), h.calls[h.checked:]...)
			h.checked = len(h.calls)
			h.mu.Unlock()
			for _, c := range calls {
				sp, known := peerOf[c.sender]
				if !known {
					r.Failf("C16:unknown-sender-delivered", "handler %d got a message from an unknown transport id", h.id)
					return false
				}
				r.Logf("handled h=%d from=%d id=%d", h.id, sp, c.id)
				if c.afterOwnCancl {
					r.Failf("C16:handler-called-after-own-cancel", "handler %d (peer %d) cancelled its context inside call %d and was invoked again (message id %d from peer %d)", h.id, h.peer, h.cancelAt, c.id, sp)
					return false
				}
				if c.afterCancelQ {
					r.Failf("C16:handler-called-after-cancel", "handler %d (peer %d) was invoked with message id %d from peer %d after the quiescent point that followed the cancellation of its context", h.id, h.peer, c.id, sp)
					return false
				}
				key := [2]uint64{uint64(sp), c.seqno}
				if h.seen[key] {
					r.Failf("C16:duplicate-delivered", "handler %d (peer %d) saw (sender peer %d, seqno %d) twice (message id %d)", h.id, h.peer, sp, c.seqno, c.id)
					return false
				}
				h.seen[key] = true
				h.seenID[[2]uint64{uint64(sp), c.id}] = true
				if want, ok := idSeqno[sp][c.id]; ok && want != c.seqno {
					r.Failf("C16:delivered-seqno-mismatch", "handler %d: message id %d of peer %d was published with seqno %d, delivered with %d", h.id, c.id, sp, want, c.seqno)
					return false
				}
			}
		}
		return true
	}

	doSend := func(p int, burst int) {
		type res struct {
			id     uint64
			err    error
			faulty bool
		}
		out := make([]res, burst)
		var wg sync.WaitGroup
		for b := 0; b < burst; b++ {
			nextID++
			id := nextID
			ctx, cancel := context.WithCancel(context.Background())
			s := &c16Send{id: id, peer: p, cancel: cancel, live: true}
			sends = append(sends, s)
			strat := net.StandardRetransmissionStrategy
			if tp.Chance("backoff", 1, 3) {
				strat = net.BackoffRetransmissionStrategy
			}
			out[b].id = id
			if tp.Chance("first-publish-fails", 1, 6) {
				// the first publish (and possibly the first retransmission) fails;
				// the context stays alive, so later ticks publish the message
				ps.mu.Lock()
				ps.failID[id] = 1 + tp.Choose("more-failures", 2)
				ps.mu.Unlock()
				s.faulty = true
				out[b].faulty = true
				r.Fault("first-publish-fails")
			}
			if burst == 1 {
				out[b].err = peers[p].ch.Send(ctx, &c16Msg{ID: id}, strat)
			} else {
				wg.Add(1)
				go func(b int) {
					defer wg.Done()
					out[b].err = peers[p].ch.Send(ctx, &c16Msg{ID: id}, strat)
				}(b)
			}
		}
		wg.Wait()
		for _, o := range out {
			if o.err != nil && !o.faulty {
				r.Failf("C16:send-error", "Send of message id %d failed: %v", o.id, o.err)
			}
		}
		r.Logf("send peer=%d ids=%d..%d", p, out[0].id, out[len(out)-1].id)
	}

	// benign start: one handler on every peer, then the tape takes over
	for p := range peers {
		register(p)
	}
	synctest.Wait()
	maxSteps := 40 + 40*tp.Choose("length", 3)
	for step := 0; step < maxSteps && !r.Failed(); step++ {
		r.Step()
		kinds := []string{"send", "deliver", "tick", "register"}
		w := []int{5, 8, 4, 1}
		if len(envs) == 0 {
			w[1] = 0
		}
		parked := gates.List()
		var liveH []*c16Handler
		for _, h := range handlers {
			if !h.cancelReq {
				liveH = append(liveH, h)
			}
		}
		var liveS []*c16Send
		for _, s := range sends {
			if s.live {
				liveS = append(liveS, s)
			}
		}
		kinds = append(kinds, "release", "cancel-handler", "cancel-send", "retransmit-publish-fails")
		w = append(w, 0, 0, 0, 0)
		if len(liveS) > 0 {
			w[7] = 1
		}
		if len(parked) > 0 {
			w[4] = 4
		}
		if len(liveH) > 0 {
			w[5] = 1
		}
		if len(liveS) > 0 {
			w[6] = 1
		}
		if len(handlers) >= 8 {
			w[3] = 0
		}
		switch kinds[tp.Weighted("event", w...)] {
		case "send":
			p := tp.Choose("sender", nPeers)
			burst := 1
			if concurrent {
				burst = 1 + tp.Choose("send-burst", 4)
				if burst > 1 {
					r.Fault("concurrent-send")
				}
			}
			doSend(p, burst)
		case "tick":
			p := tp.Choose("tick-peer", nPeers)
			n := 1 + tp.Choose("tick-burst", 3)
			for i := 0; i < n; i++ {
				peers[p].ticks <- uint64(step)
			}
			r.Fault("retransmission-tick")
			r.Logf("tick peer=%d x%d", p, n)
		case "deliver":
			// newest envelope is the benign choice; older ones are late copies
			back := tp.Choose("env-back", len(envs))
			e := envs[len(envs)-1-back]
			to := tp.Choose("deliver-to", nPeers)
			copies := 1
			if tp.Chance("dup-storm", 1, 5) {
				copies = 2 + tp.Choose("copies", 3)
				r.Fault("concurrent-duplicates")
			}
			if back > 0 {
				r.Fault("late-copy")
			}
			for _, h := range handlers {
				if h.peer == to && !h.cancelReq && h.cancelAt == 0 {
					h.delivered[[2]uint64{uint64(e.from), e.seqno}] = true
					h.deliveredID[[2]uint64{uint64(e.from), e.id}] = true
				}
				if h.peer == to && h.seen[[2]uint64{uint64(e.from), e.seqno}] {
					r.Probe("duplicate-copy-reached-handler-that-saw-it")
				}
			}
			msg := func() *pubsub.Message { return c16PubsubMessage(peers[e.from].ident.id, e.data) }
			if copies == 1 {
				if err := peers[to].ch.processPubsubMessage(msg()); err != nil {
					r.Failf("C16:valid-envelope-rejected", "peer %d rejected a well-formed envelope of peer %d: %v", to, e.from, err)
				}
			} else {
				errs := make([]error, copies)
				for i := 0; i < copies; i++ {
					go func(i int) { errs[i] = peers[to].ch.processPubsubMessage(msg()) }(i)
				}
				synctest.Wait()
				for _, err := range errs {
					if err != nil {
						r.Failf("C16:valid-envelope-rejected", "peer %d rejected a well-formed envelope of peer %d: %v", to, e.from, err)
					}
				}
			}
			r.Logf("deliver from=%d id=%d to=%d copies=%d", e.from, e.id, to, copies)
		case "register":
			p := tp.Choose("register-peer", nPeers)
			h := register(p)
			r.NonTrivial()
			r.Logf("register handler=%d peer=%d slowEvery=%d selfCancelAt=%d", h.id, p, h.slowEvery, h.cancelAt)
		case "release":
			p := parked[tp.Choose("release", len(parked))]
			gates.Release(p.Label)
			r.Fault("slow-handler")
			r.Logf("release %s", p.Label)
		case "cancel-handler":
			h := liveH[tp.Choose("cancel-handler", len(liveH))]
			for _, p := range parked {
				if p.Label[:3] == fmt.Sprintf("h%02d", h.id) {
					r.Probe("cancel-while-handler-parked")
				}
			}
			if h.deadline.IsZero() {
				h.cancel()
				h.cancelReq = true
				synctest.Wait()
				h.cancelledQ.Store(true)
				r.Fault("cancel-handler")
				r.Logf("cancel handler=%d", h.id)
			} else {
				// the context ends by deadline: let the fake clock pass it
				if d := time.Until(h.deadline); d >= 0 {
					time.Sleep(d + time.Millisecond)
					r.AddSim(int64(d), 0)
				}
				synctest.Wait()
				for _, o := range handlers {
					if !o.deadline.IsZero() && !o.cancelReq && !time.Now().Before(o.deadline) {
						o.cancelReq = true
						o.cancelledQ.Store(true)
						r.Fault("handler-deadline-passed")
						r.Logf("deadline passed handler=%d", o.id)
					}
				}
			}
		case "cancel-send":
			s := liveS[tp.Choose("cancel-send", len(liveS))]
			s.cancel()
			s.live = false
			r.Logf("cancel send id=%d", s.id)
		case "retransmit-publish-fails":
			s := liveS[tp.Choose("faulty-send", len(liveS))]
			ps.mu.Lock()
			ps.failID[s.id]++
			ps.mu.Unlock()
			r.Fault("retransmit-publish-fails")
			r.Logf("next publish of id=%d fails", s.id)
		}
		synctest.Wait()
		if !collect() || !observe() {
			return
		}
	}
	if r.Failed() {
		return
	}
	gates.ReleaseAll()
	synctest.Wait()
	if !collect() || !observe() {
		return
	}
	// a message of one sender must not be suppressed because another sender's
	// message with the same sequence number was seen ("(sender, seqno)")
	for _, h := range handlers {
		if h.cancelReq || h.cancelAt != 0 {
			continue
		}
		var missing [][2]uint64
		for k := range h.delivered {
			if !h.seen[k] {
				missing = append(missing, k)
			}
		}
		sort.Slice(missing, func(i, j int) bool {
			if missing[i][0] != missing[j][0] {
				return missing[i][0] < missing[j][0]
			}
			return missing[i][1] < missing[j][1]
		})
		for _, k := range missing {
			for p := 0; p < nPeers; p++ {
				if uint64(p) != k[0] && h.seen[[2]uint64{uint64(p), k[1]}] {
					r.Failf("C16:distinct-sender-same-seqno-suppressed", "live handler %d (peer %d) never saw (sender peer %d, seqno %d) although it was delivered; it did see seqno %d from peer %d", h.id, h.peer, k[0], k[1], k[1], p)
					return
				}
			}
			r.Probe("delivered-but-unseen-without-sibling")
		}
		// every message handed to the channel while the handler was registered
		// and live reaches it (once): nothing may shadow it
		var missID [][2]uint64
		for k := range h.deliveredID {
			if !h.seenID[k] {
				missID = append(missID, k)
			}
		}
		sort.Slice(missID, func(i, j int) bool {
			if missID[i][0] != missID[j][0] {
				return missID[i][0] < missID[j][0]
			}
			return missID[i][1] < missID[j][1]
		})
		if len(missID) > 0 {
			k := missID[0]
			r.Failf("C16:delivered-message-never-handled", "live handler %d (peer %d) never saw message id %d of peer %d (seqno %d) although it was handed to the channel while the handler was registered and its context alive (%d such messages)", h.id, h.peer, k[1], k[0], idSeqno[k[0]][k[1]], len(missID))
			return
		}
		if len(h.seen) > 0 {
			r.Probe("handler-saw-messages")
		}
	}
	ps.mu.Lock()
	if ps.failed > 0 {
		r.Probe("publish-failures-hit")
	}
	ps.mu.Unlock()
	dupFiltered := 0
	for _, h := range handlers {
		dupFiltered += len(h.seen)
	}
	r.Logf("end envs=%d handlers=%d distinct-handled=%d", len(envs), len(handlers), dupFiltered)
}

// c16HighVolume: one long-lived handler, thousands of cheap distinct messages
// pushed through processContainerMessage (quiescence only every few hundred,
// below the handler buffer size), with early messages re-delivered in between
// and at the very end -- a retransmission that arrives after many other
// messages must still be recognised.
func c16HighVolume(r *verifsim.Run) {
	tp := r.T
	ps := &c16PubSub{}
	recv := c16NewPeer(0, ps, "c16hv")
	senders := []*identity{c16NewIdentity(0x41), c16NewIdentity(0x63)}
	idb := make([][]byte, len(senders))
	idx := map[string]int{}
	for i, sd := range senders {
		b, err := sd.Marshal()
		if err != nil {
			panic(err)
		}
		idb[i] = b
		idx[sd.id.String()] = i
	}
	ctx, cancel := context.WithCancel(context.Background())
	defer cancel()
	var mu sync.Mutex
	count := map[[2]uint64]int{}
	var dup *[3]uint64
	recv.ch.Recv(ctx, func(m net.Message) {
		k := [2]uint64{uint64(idx[m.TransportSenderID().String()]), m.Seqno()}
		mu.Lock()
		count[k]++
		if count[k] == 2 && dup == nil {
			dup = &[3]uint64{k[0], k[1], uint64(len(count))}
		}
		mu.Unlock()
	})
	total := 4300 + tp.Choose("hv-extra", 1500)
	early := 1 + tp.Choose("hv-early", 5)
	const batch = 300
	send := func(i int) bool {
		sd := i % len(senders)
		pl := make([]byte, 8)
		binary.BigEndian.PutUint64(pl, uint64(i))
		err := recv.ch.processContainerMessage(senders[sd].id, &pb.BroadcastNetworkMessage{
			Sender: idb[sd], Payload: pl, Type: []byte("c16/msg"), SequenceNumber: uint64(i/len(senders) + 1)})
		if err != nil {
			r.Failf("C16:valid-envelope-rejected", "high-volume: message %d rejected: %v", i, err)
			return false
		}
		return true
	}
	r.Logf("high-volume total=%d early=%d", total, early)
	r.Fault("high-volume")
	redelivered := 0
	for i := 0; i < total; i++ {
		if !send(i) {
			return
		}
		if i%batch == batch-1 {
			if tp.Chance("hv-redeliver", 1, 4) {
				send(tp.Choose("hv-which", early))
				redelivered++
			}
			synctest.Wait()
			r.Step()
		}
	}
	synctest.Wait()
	for e := 0; e < early; e++ {
		send(e)
		redelivered++
	}
	synctest.Wait()
	mu.Lock()
	defer mu.Unlock()
	if dup != nil {
		r.Failf("C16:duplicate-delivered", "high-volume: the handler saw (sender %d, seqno %d) twice; the second time after %d distinct messages on the same registration", dup[0], dup[1], dup[2])
		return
	}
	if len(count) != total {
		r.Failf("C16:delivered-message-never-handled", "high-volume: %d distinct messages handed to the channel, the handler saw %d", total, len(count))
		return
	}
	r.Probe("high-volume-run")
	r.Logf("high-volume done distinct=%d redelivered=%d", len(count), redelivered)
}
