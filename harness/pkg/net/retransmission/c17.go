package retransmission

// C17: retransmission schedules are exact under any tick timing.
//
// Real ScheduleRetransmissions + Ticker (NewTicker over a simulator-owned
// channel, or NewTimeTicker on the bubble's fake clock) + the real Standard
// and Backoff strategies obtained through WithStrategy. The tape decides how
// many schedules share the ticker, when each is registered and cancelled,
// whether ticks come one at a time (quiescence in between) or in bursts
// (several ticks before any callback ran), which callbacks are slow (parked
// at a gate, so callbacks of different ticks overlap) and in which order
// parked callbacks finish, and which callbacks return an error.
//
// Oracle (reference model written from the statement): at every quiescent
// point, for every schedule, the number of retransmit invocations equals the
// number of retransmission ticks among the ticks the schedule has seen
// (standard: every tick; backoff: ticks 1,3,6,11,20,37,... = 2^(k-1)+k-1),
// where "seen" = ticks fired between its quiescent registration and its
// quiescent cancellation. The -race build (props/C17.json) decides the
// "however the callbacks are scheduled" clause for sub-statement
// interleavings the gates cannot produce.

import (
	"context"
	"errors"
	"fmt"
	"reflect"
	"sync"
	"sync/atomic"
	"testing"
	"testing/synctest"
	"time"
	"unsafe"

	"github.com/ipfs/go-log"
	"github.com/keep-network/keep-core/pkg/net"

	"verifsim"
)

func init() { verifScenarios["C17"] = verifsim.Scenario{Bubble: true, Fn: c17Run} }

type c17Sched struct {
	idx      int
	backoff  bool
	slow     bool // callbacks park at a gate
	failing  bool // callbacks return an error
	strategy Strategy
	ctx      context.Context
	cancel   context.CancelFunc

	registered      bool
	cancelled       bool
	seen            int // ticks fired while registered and live (model side)
	enteredAtCancel int
	burstSeen       bool // saw >=2 ticks without quiescence in between

	mu      sync.Mutex
	entered int // retransmit invocations (observation side)
	exited  int
	parked  int
}

// c17ModelCount is the number of retransmissions the statement prescribes
// after n ticks.
func c17ModelCount(backoff bool, n int) int {
	if !backoff {
		return n
	}
	// k-th retransmission happens at tick 2^(k-1) + k - 1: 1, 3, 6, 11, 20, 37...
	k := 0
	for {
		at := (1 << uint(k)) + (k + 1) - 1 // tick of retransmission number k+1
		if at > n {
			return k
		}
		k++
	}
}

// c17CallbackUnderLock reports, for a strategy kind, whether the strategy
// calls the retransmit function while holding one of its own sync.Mutex
// fields. Decided on a private instance from the calling goroutine, so a
// failing TryLock can only mean "held by this very call". Parking under such
// a lock would leave later ticks blocked on a sync.Mutex, which synctest does
// not treat as durably blocked.
func c17CallbackUnderLock(kind net.RetransmissionStrategy) bool {
	s := WithStrategy(kind)
	mus := c17Mutexes(s)
	held := false
	for i := 0; i < 3; i++ { // backoff retransmits on ticks 1 and 3
		s.Tick(func() error {
			for _, m := range mus {
				if m.TryLock() {
					m.Unlock()
				} else {
					held = true
				}
			}
			return nil
		})
	}
	return held
}

// c17Mutexes finds sync.Mutex fields (value or pointer) of a strategy value so
// that the harness keeps working if the strategy gains a lock.
func c17Mutexes(s Strategy) []*sync.Mutex {
	var out []*sync.Mutex
	v := reflect.ValueOf(s)
	if v.Kind() != reflect.Ptr || v.IsNil() || v.Elem().Kind() != reflect.Struct {
		return nil
	}
	e := v.Elem()
	mt := reflect.TypeOf(sync.Mutex{})
	for i := 0; i < e.NumField(); i++ {
		f := e.Field(i)
		switch {
		case f.Type() == mt && f.CanAddr():
			out = append(out, (*sync.Mutex)(unsafe.Pointer(f.UnsafeAddr())))
		case f.Type() == reflect.PtrTo(mt) && !f.IsNil():
			out = append(out, (*sync.Mutex)(unsafe.Pointer(f.Pointer())))
		}
	}
	return out
}

func c17Run(t *testing.T, r *verifsim.Run) {
	tp := r.T
	gates := verifsim.NewGates()
	defer gates.ReleaseAll()
	logger := log.Logger("verif-c17")

	timeMode := tp.Chance("time-ticker", 1, 5)
	buffered := !timeMode && tp.Chance("buffered-ticks", 1, 2)
	burstMode := !timeMode && tp.Chance("burst-mode", 1, 2)
	budget := []int{6, 14, 24, 45}[tp.Choose("tick-budget", 4)]
	nSched := 1 + tp.Choose("schedules", 3)
	const period = 50 * time.Millisecond

	var ticks chan uint64
	var ticker *Ticker
	tickerCtx, tickerCancel := context.WithCancel(context.Background())
	defer tickerCancel()
	if timeMode {
		ticker = NewTimeTicker(tickerCtx, period)
	} else {
		if buffered {
			ticks = make(chan uint64, 64)
		} else {
			ticks = make(chan uint64)
		}
		ticker = NewTicker(ticks)
	}
	r.Logf("cfg time=%v buffered=%v burst=%v budget=%d schedules=%d", timeMode, buffered, burstMode, budget, nSched)

	scheds := make([]*c17Sched, nSched)
	for i := range scheds {
		s := &c17Sched{idx: i}
		s.backoff = tp.Chance("backoff", 1, 2)
		s.slow = tp.Chance("slow-callbacks", 1, 2)
		s.failing = tp.Chance("failing-callbacks", 1, 6)
		if s.backoff {
			s.strategy = WithStrategy(net.BackoffRetransmissionStrategy)
		} else {
			s.strategy = WithStrategy(net.StandardRetransmissionStrategy)
		}
		s.ctx, s.cancel = context.WithCancel(context.Background())
		scheds[i] = s
		r.Logf("schedule %d backoff=%v slow=%v failing=%v", i, s.backoff, s.slow, s.failing)
	}
	defer func() {
		for _, s := range scheds {
			s.cancel()
		}
	}()

	register := func(s *c17Sched) {
		kind := net.StandardRetransmissionStrategy
		if s.backoff {
			kind = net.BackoffRetransmissionStrategy
		}
		underLock := c17CallbackUnderLock(kind)
		retransmit := func() error {
			s.mu.Lock()
			s.entered++
			n := s.entered
			s.mu.Unlock()
			if s.slow {
				if underLock {
					r.Probe("callback-under-component-lock")
				} else {
					s.mu.Lock()
					s.parked++
					s.mu.Unlock()
					gates.PointAs(fmt.Sprintf("s%d-c%03d", s.idx, n), "retransmit")
					s.mu.Lock()
					s.parked--
					s.mu.Unlock()
				}
			}
			s.mu.Lock()
			s.exited++
			s.mu.Unlock()
			if s.failing {
				return errors.New("c17: injected retransmit error")
			}
			return nil
		}
		ScheduleRetransmissions(s.ctx, logger, ticker, retransmit, s.strategy)
		s.registered = true
	}

	check := func(when string) bool {
		for _, s := range scheds {
			s.mu.Lock()
			got, ex, pk := s.entered, s.exited, s.parked
			s.mu.Unlock()
			want := c17ModelCount(s.backoff, s.seen)
			if s.cancelled && got > s.enteredAtCancel {
				r.Failf("C17:retransmit-after-cancel", "%s: schedule %d: retransmit ran %d times up to the quiescent cancellation and %d times now (ticks keep arriving after the cancellation)",
					when, s.idx, s.enteredAtCancel, got)
				return false
			}
			if got != want {
				kind := "standard"
				if s.backoff {
					kind = "backoff"
				}
				cls := "C17:" + kind + "-count"
				if got > want && s.cancelled {
					cls = "C17:retransmit-after-cancel"
				}
				r.Failf(cls, "%s: schedule %d (%s) saw %d ticks while live: retransmit ran %d times, the schedule prescribes %d (cancelled=%v, burst=%v)",
					when, s.idx, kind, s.seen, got, want, s.cancelled, burstMode)
				return false
			}
			if ex+pk != got {
				r.Failf("C17:harness-accounting", "schedule %d: entered %d exited %d parked %d", s.idx, got, ex, pk)
				return false
			}
		}
		return true
	}

	// Bounded liveness of the shared ticker: at every quiescent point every
	// offered tick has been taken and nothing holds the ticker's handler lock --
	// in particular not a retransmit routine of one message that is still
	// running (parked), which would stall the other messages' retransmissions,
	// tick intake and new registrations.
	var offered atomic.Int64
	responsive := func(when string) bool {
		pending := int(offered.Load())
		if ticks != nil {
			pending += len(ticks)
		}
		held := !ticker.handlersMutex.TryLock()
		if !held {
			ticker.handlersMutex.Unlock()
		}
		if pending == 0 && !held {
			return true
		}
		if n := len(gates.List()); n > 0 {
			r.Failf("C17:slow-callback-blocks-ticker", "%s: %d retransmit callback(s) still running (parked) and the shared ticker is stalled: %d offered tick(s) not taken, handler lock held=%v -- one slow retransmission blocks every other schedule on the ticker", when, n, pending, held)
		} else {
			r.Failf("C17:ticker-stalled", "%s: at quiescence %d offered tick(s) were not taken (handler lock held=%v) although no callback is running", when, pending, held)
		}
		return false
	}

	// the first schedule is registered before the first tick (benign); the
	// others at tape-chosen moments
	register(scheds[0])
	synctest.Wait()

	sent := 0
	overlapSeen := false
	for step := 0; step < 400; step++ {
		r.Step()
		// available events
		kinds := []string{}
		w := []int{}
		if sent < budget {
			kinds = append(kinds, "tick")
			w = append(w, 8)
		}
		parked := gates.List()
		if len(parked) > 0 {
			kinds = append(kinds, "release")
			w = append(w, 3)
		}
		var unreg, live []*c17Sched
		for _, s := range scheds {
			if !s.registered {
				unreg = append(unreg, s)
			} else if !s.cancelled {
				live = append(live, s)
			}
		}
		if len(unreg) > 0 {
			kinds = append(kinds, "register")
			w = append(w, 2)
		}
		if len(live) > 0 && sent > 0 {
			kinds = append(kinds, "cancel")
			w = append(w, 1)
		}
		if len(kinds) == 0 {
			break
		}
		if sent >= budget && len(parked) == 0 {
			break
		}
		switch kinds[tp.Weighted("event", w...)] {
		case "tick":
			n := 1
			if burstMode {
				n = 1 + tp.Choose("burst", 6)
				if n > budget-sent {
					n = budget - sent
				}
			}
			if n > 1 {
				r.Fault("tick-burst")
			}
			if timeMode {
				time.Sleep(period * time.Duration(n))
				r.AddSim(int64(period)*int64(n), 0)
			} else {
				// offered from a helper goroutine: if the ticker stops taking
				// ticks the simulator must notice it, not block with it
				offered.Add(int64(n))
				go func(from, n int) {
					for i := 1; i <= n; i++ {
						ticks <- uint64(from + i)
						offered.Add(-1)
					}
				}(sent, n)
			}
			sent += n
			for _, s := range live {
				s.seen += n
				if n > 1 {
					s.burstSeen = true
				}
			}
			if len(parked) > 0 {
				overlapSeen = true
			}
			r.Logf("tick x%d -> %d", n, sent)
		case "release":
			p := parked[tp.Choose("release", len(parked))]
			if p.Label != parked[0].Label {
				r.Fault("callbacks-finish-out-of-order")
			}
			gates.Release(p.Label)
			r.Logf("release %s", p.Label)
		case "register":
			s := unreg[0]
			register(s)
			r.NonTrivial()
			r.Logf("register schedule %d after tick %d", s.idx, sent)
		case "cancel":
			s := live[tp.Choose("cancel", len(live))]
			s.cancel()
			s.cancelled = true
			s.mu.Lock()
			pk := s.parked
			s.enteredAtCancel = s.entered
			s.mu.Unlock()
			if pk > 0 {
				r.Probe("cancel-while-callbacks-parked")
			}
			r.Fault("cancel")
			r.Logf("cancel schedule %d after tick %d (seen %d)", s.idx, sent, s.seen)
		}
		synctest.Wait()
		if !responsive(fmt.Sprintf("after step %d (tick %d)", step, sent)) {
			return
		}
		if !check(fmt.Sprintf("after step %d (tick %d)", step, sent)) {
			return
		}
		// overlapping callbacks of different ticks
		for _, s := range scheds {
			s.mu.Lock()
			if s.parked >= 2 {
				overlapSeen = true
			}
			s.mu.Unlock()
		}
	}
	if overlapSeen {
		r.Probe("callbacks-overlapped")
	}
	for _, s := range scheds {
		if s.backoff && c17ModelCount(true, s.seen) >= 4 {
			r.Probe("backoff-reached-4th-retransmission")
		}
		if s.cancelled && s.seen < sent {
			r.Probe("ticks-after-cancel")
		}
	}
	// closing: stop the ticker, release everything, nothing more may run
	if timeMode {
		tickerCancel()
	} else {
		close(ticks)
	}
	gates.ReleaseAll()
	synctest.Wait()
	if !check("at the end") {
		return
	}
	for _, s := range scheds {
		r.Logf("final schedule %d seen=%d ran=%d", s.idx, s.seen, s.entered)
	}
}
