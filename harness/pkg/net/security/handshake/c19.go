package handshake

// C19 (handshake acts): a real three-act exchange between an initiator and a
// responder supplies valid Act1/Act2/Act3 wire messages. Round trip: the
// bytes of each act decode to an equal value. Hostile: tape-corrupted copies of
// each act are handed to the act's Unmarshal exactly as the connection code
// does after reading a frame; a message that is accepted is given to the
// handshake step that consumes it on the victim side (AnswerHandshake for
// Act1, InitiatorAct2.Next for Act2, ResponderAct3.FinalizeHandshake for
// Act3). A panic anywhere is a violation; errors are fine.

import (
	"testing"

	"github.com/keep-network/keep-core/pkg/internal/verifadapt"

	"verifsim"
)

func init() {
	verifScenarios["C19"] = verifsim.Scenario{Bubble: false, Fn: c19Run, MinBudget: 150}
}

type c19Act interface {
	Marshal() ([]byte, error)
	Unmarshal([]byte) error
}

func c19Run(t *testing.T, r *verifsim.Run) {
	tp := r.T
	protocols := []string{"keep-tbtc", "keep-beacon", ""}
	pI := protocols[tp.Choose("initiator-protocol", len(protocols))]
	pR := pI
	if tp.Chance("responder-other-protocol", 1, 5) {
		pR = protocols[tp.Choose("responder-protocol", len(protocols))]
	}
	r.Logf("cfg protocols %q / %q", pI, pR)

	// the genuine exchange (through the wire encoding of every act)
	ia1, err := InitiateHandshake(pI)
	if err != nil {
		r.Inconclusive("initiate-error")
		return
	}
	act1 := ia1.Message()
	ia2 := ia1.Next()

	roundTrip := func(name string, sent c19Act, fresh func() c19Act) ([]byte, c19Act) {
		b, err := sent.Marshal()
		if err != nil {
			r.Failf("C19:valid-value-not-encodable:handshake/"+name, "Marshal of a genuine %s failed: %v", name, err)
			return nil, nil
		}
		got := fresh()
		var uerr error
		if p, v, stk := verifadapt.GuardedCall(func() { uerr = got.Unmarshal(b) }); p {
			r.Failf("C19:unmarshal-panic:handshake/"+name, "Unmarshal of a genuine %s panicked: %v\n%s", name, v, stk)
			return nil, nil
		}
		r.Probe("roundtrip:handshake/" + name)
		if uerr != nil {
			r.Failf("C19:roundtrip-rejected:handshake/"+name, "the genuine %s produced by Marshal was rejected: %v", name, uerr)
			return nil, nil
		}
		if d := verifadapt.CanonDiff(verifadapt.Canon(sent), verifadapt.Canon(got)); d != "" {
			r.Failf("C19:roundtrip-mismatch:handshake/"+name, "decoding the encoding of a %s gives a different value, %s", name, d)
			return nil, nil
		}
		return b, got
	}
	attack := func(name string, valid []byte, fresh func() c19Act, consume func(m c19Act, isValid bool)) {
		k := 4 + tp.Choose("attacks", 12)
		basis := verifadapt.PBCanonical(valid)
		var kinds []string
		for i := 0; i < k && !r.Failed(); i++ {
			rc := verifadapt.DrawRecipe(tp)
			mut, kind := rc.Apply(basis)
			kinds = append(kinds, rc.Requested())
			r.Fault("wire:" + kind)
			r.Probe("type:handshake/" + name)
			m := fresh()
			var uerr error
			if p, v, stk := verifadapt.GuardedCall(func() { uerr = m.Unmarshal(mut) }); p {
				r.Failf("C19:unmarshal-panic:handshake/"+name, "Unmarshal of a %s panicked on a mutated (%s) frame of %d bytes (hex %x): %v\n%s", name, kind, len(mut), mut, v, stk)
				return
			}
			r.Step()
			if uerr != nil {
				r.Probe("rejected:handshake/" + name)
				continue
			}
			r.Probe("accepted:handshake/" + name)
			if p, v, stk := verifadapt.GuardedCall(func() { consume(m, kind == "none") }); p {
				r.Failf("C19:handler-panic:handshake/"+name, "the handshake step consuming a %s panicked on a message Unmarshal accepted (%s, hex %x): %v\n%s", name, kind, mut, v, stk)
				return
			}
			if p, v, stk := verifadapt.GuardedCall(func() { _, _ = m.Marshal() }); p {
				r.Failf("C19:accepted-value-marshal-panic:handshake/"+name, "Marshal of an accepted %s panicked: %v\n%s", name, v, stk)
				return
			}
		}
		r.Logf("attack %s: %v", name, kinds)
	}

	b1, got1 := roundTrip("act1", act1, func() c19Act { return &Act1Message{} })
	if r.Failed() {
		return
	}
	ra2, err := AnswerHandshake(got1.(*Act1Message), pR)
	if err != nil {
		r.Probe("responder-rejected-protocol")
	}
	attack("act1", b1, func() c19Act { return &Act1Message{} }, func(m c19Act, isValid bool) {
		x, err := AnswerHandshake(m.(*Act1Message), pR)
		if err == nil {
			_ = x.Message()
			_ = x.Next()
		}
	})
	if r.Failed() || ra2 == nil {
		return
	}
	act2 := ra2.Message()
	ra3 := ra2.Next()
	b2, got2 := roundTrip("act2", act2, func() c19Act { return &Act2Message{} })
	if r.Failed() {
		return
	}
	attack("act2", b2, func() c19Act { return &Act2Message{} }, func(m c19Act, isValid bool) {
		x, err := ia2.Next(m.(*Act2Message))
		if err == nil {
			_ = x.Message()
			if !isValid {
				r.Probe("mutated-act2-accepted-by-initiator")
			}
		}
	})
	if r.Failed() {
		return
	}
	ia3, err := ia2.Next(got2.(*Act2Message))
	if err != nil {
		r.Failf("C19:valid-act-rejected:handshake/act2", "the initiator rejected the responder's genuine act 2 after a wire round trip: %v", err)
		return
	}
	act3 := ia3.Message()
	b3, got3 := roundTrip("act3", act3, func() c19Act { return &Act3Message{} })
	if r.Failed() {
		return
	}
	attack("act3", b3, func() c19Act { return &Act3Message{} }, func(m c19Act, isValid bool) {
		if err := ra3.FinalizeHandshake(m.(*Act3Message)); err == nil && !isValid {
			r.Probe("mutated-act3-accepted-by-responder")
		}
	})
	if r.Failed() {
		return
	}
	if err := ra3.FinalizeHandshake(got3.(*Act3Message)); err != nil {
		r.Failf("C19:valid-act-rejected:handshake/act3", "the responder rejected the initiator's genuine act 3 after a wire round trip: %v", err)
	}
}
