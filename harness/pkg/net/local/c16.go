package local

// C16 (local part): the in-process broadcast channel. Real localChannel
// objects (Send / Recv / removeHandler / deliver, broadcastMessage, the real
// retransmission ticker + strategies + duplicate filter) constructed
// in-package exactly as getBroadcastChannel does, except that the ticker is
// fed by the simulator (NewTicker over a channel) instead of wall-clock time.
// Several channels share one name; the tape decides sends (also concurrent
// bursts), retransmission ticks, handler registration / cancellation (by the
// simulator at quiescence or by the handler itself inside a call) and slow
// handlers (gated).

import (
	"context"
	"encoding/binary"
	"fmt"
	"math/big"
	"sort"
	"sync"
	"sync/atomic"
	"testing"
	"testing/synctest"
	"time"

	"github.com/keep-network/keep-core/pkg/net"
	"github.com/keep-network/keep-core/pkg/net/internal"
	"github.com/keep-network/keep-core/pkg/net/retransmission"
	"github.com/keep-network/keep-core/pkg/operator"

	"verifsim"
)

func init() { verifScenarios["C16"] = verifsim.Scenario{Bubble: true, Fn: c16Run} }

var c16RunCounter atomic.Uint64

type c16Msg struct{ ID uint64 }

func (m *c16Msg) Type() string { return "c16/msg" }
func (m *c16Msg) Marshal() ([]byte, error) {
	b := make([]byte, 8)
	binary.BigEndian.PutUint64(b, m.ID)
	return b, nil
}
func (m *c16Msg) Unmarshal(b []byte) error {
	if len(b) != 8 {
		return fmt.Errorf("c16Msg: bad length %d", len(b))
	}
	m.ID = binary.BigEndian.Uint64(b)
	return nil
}

type c16Call struct {
	sender        string
	seqno         uint64
	id            uint64
	afterCancelQ  bool
	afterOwnCancl bool
}

type c16Handler struct {
	id         int
	ch         int
	ctx        context.Context
	cancel     context.CancelFunc
	slowEvery  int
	cancelAt   int
	cancelReq  bool
	cancelledQ atomic.Bool
	ownCancel  atomic.Bool

	mu      sync.Mutex
	calls   []c16Call
	checked int

	seen      map[[2]uint64]bool // (sender channel, seqno)
	delivered map[[2]uint64]bool
	deadline  time.Time // non-zero: the context ends by deadline on the fake clock
}

type c16Chan struct {
	idx   int
	lc    *localChannel
	ticks chan uint64
	live  []*c16Send
}

type c16Send struct {
	id      uint64
	ch      int
	cancel  context.CancelFunc
	live    bool
	backoff bool
}

func c16Run(t *testing.T, r *verifsim.Run) {
	tp := r.T
	hv := 40
	if r.Tier == "thorough" {
		hv = 10
	}
	if tp.Chance("high-volume", 1, hv) {
		c16HighVolume(r)
		return
	}
	gates := verifsim.NewGates()
	defer gates.ReleaseAll()
	concurrent := tp.Chance("concurrent-mode", 1, 3)
	nCh := 2 + tp.Choose("channels", 2)
	name := fmt.Sprintf("c16-%d", c16RunCounter.Add(1))
	r.Logf("cfg channels=%d concurrent=%v", nCh, concurrent)

	chans := make([]*c16Chan, nCh)
	chanOf := map[string]int{}
	broadcastChannelsMutex.Lock()
	if broadcastChannels == nil {
		broadcastChannels = make(map[string][]*localChannel)
	}
	for i := range chans {
		x, y := DefaultCurve.ScalarBaseMult(big.NewInt(int64(1000 + i)).Bytes())
		ident := localIdentifier(fmt.Sprintf("c16-node-%d", i))
		c := &c16Chan{idx: i, ticks: make(chan uint64, 16)}
		c.lc = &localChannel{
			name:                 name,
			identifier:           &ident,
			operatorPublicKey:    &operator.PublicKey{Curve: operator.Secp256k1, X: x, Y: y},
			messageHandlers:      make([]*messageHandler, 0),
			unmarshalersByType:   make(map[string]func() net.TaggedUnmarshaler),
			retransmissionTicker: retransmission.NewTicker(c.ticks),
		}
		c.lc.SetUnmarshaler(func() net.TaggedUnmarshaler { return &c16Msg{} })
		broadcastChannels[name] = append(broadcastChannels[name], c.lc)
		chans[i] = c
		chanOf[ident.String()] = i
	}
	broadcastChannelsMutex.Unlock()
	defer func() {
		broadcastChannelsMutex.Lock()
		delete(broadcastChannels, name)
		broadcastChannelsMutex.Unlock()
	}()

	var handlers []*c16Handler
	var sends []*c16Send
	idSeqno := make([]map[uint64]uint64, nCh)
	seqnoOwner := make([]map[uint64]uint64, nCh)
	for i := range idSeqno {
		idSeqno[i] = map[uint64]uint64{}
		seqnoOwner[i] = map[uint64]uint64{}
	}
	nextID := uint64(0)
	defer func() {
		for _, h := range handlers {
			h.cancel()
		}
		for _, s := range sends {
			s.cancel()
		}
	}()

	register := func(ci int) *c16Handler {
		h := &c16Handler{id: len(handlers), ch: ci, seen: map[[2]uint64]bool{}, delivered: map[[2]uint64]bool{}}
		switch tp.Weighted("handler-ctx", 3, 1, 1) {
		case 0:
			h.ctx, h.cancel = context.WithCancel(context.Background())
		case 1: // ends by its own deadline
			h.deadline = time.Now().Add(time.Duration(10+len(handlers)) * time.Minute)
			h.ctx, h.cancel = context.WithDeadline(context.Background(), h.deadline)
		case 2: // child of a parent that expires
			h.deadline = time.Now().Add(time.Duration(10+len(handlers)) * time.Minute)
			parent, pc := context.WithDeadline(context.Background(), h.deadline)
			child, cc := context.WithCancel(parent)
			h.ctx, h.cancel = child, func() { cc(); pc() }
		}
		if !concurrent {
			if tp.Chance("slow-handler", 1, 3) {
				h.slowEvery = 1 + tp.Choose("slow-every", 3)
			}
			if tp.Chance("self-cancel", 1, 6) {
				h.cancelAt = 1 + tp.Choose("self-cancel-at", 4)
			}
		}
		handlers = append(handlers, h)
		chans[ci].lc.Recv(h.ctx, func(m net.Message) {
			c := c16Call{sender: m.TransportSenderID().String(), seqno: m.Seqno(),
				afterCancelQ: h.cancelledQ.Load(), afterOwnCancl: h.ownCancel.Load()}
			if pl, ok := m.Payload().(*c16Msg); ok {
				c.id = pl.ID
			}
			h.mu.Lock()
			h.calls = append(h.calls, c)
			n := len(h.calls)
			h.mu.Unlock()
			if h.cancelAt == n {
				h.cancel()
				h.ownCancel.Store(true)
			}
			if h.slowEvery > 0 && n%h.slowEvery == 0 {
				gates.PointAs(fmt.Sprintf("h%02d-c%04d", h.id, n), "handler")
			}
		})
		return h
	}

	observe := func() bool {
		for _, h := range handlers {
			h.mu.Lock()
			calls := append([]c16Call(nil), h.calls[h.checked:]...)
			h.checked = len(h.calls)
			h.mu.Unlock()
			// calls of one quiescence step are logged as a set (a concurrent send
			// burst reaches the handler buffer in scheduler order)
			sort.SliceStable(calls, func(i, j int) bool { return calls[i].id < calls[j].id })
			for _, c := range calls {
				sp, known := chanOf[c.sender]
				if !known {
					r.Failf("C16:unknown-sender-delivered", "handler %d got a message from an unknown transport id", h.id)
					return false
				}
				r.Logf("handled h=%d from=%d id=%d", h.id, sp, c.id)
				if c.afterOwnCancl {
					r.Failf("C16:handler-called-after-own-cancel", "handler %d (channel %d) cancelled its context inside call %d and was invoked again (message id %d from channel %d)", h.id, h.ch, h.cancelAt, c.id, sp)
					return false
				}
				if c.afterCancelQ {
					r.Failf("C16:handler-called-after-cancel", "handler %d (channel %d) was invoked with message id %d from channel %d after the quiescent point that followed the cancellation of its context", h.id, h.ch, c.id, sp)
					return false
				}
				key := [2]uint64{uint64(sp), c.seqno}
				if h.seen[key] {
					r.Failf("C16:duplicate-delivered", "handler %d (channel %d) saw (sender channel %d, seqno %d) twice (message id %d)", h.id, h.ch, sp, c.seqno, c.id)
					return false
				}
				h.seen[key] = true
				// sequence numbers: learnt from the first delivery of each message id
				if s, ok := idSeqno[sp][c.id]; ok {
					if s != c.seqno {
						r.Failf("C16:retransmission-changed-seqno", "channel %d: message id %d seen with seqno %d and with seqno %d", sp, c.id, s, c.seqno)
						return false
					}
				} else {
					if other, used := seqnoOwner[sp][c.seqno]; used && other != c.id {
						r.Failf("C16:seqno-reused", "channel %d: sends of message ids %d and %d both got sequence number %d (concurrent=%v)", sp, other, c.id, c.seqno, concurrent)
						return false
					}
					idSeqno[sp][c.id] = c.seqno
					seqnoOwner[sp][c.seqno] = c.id
				}
			}
		}
		return true
	}

	markDelivered := func(from int, id uint64) {
		for _, h := range handlers {
			if !h.cancelReq && h.cancelAt == 0 {
				h.delivered[[2]uint64{uint64(from), id}] = true // keyed by message id here
			}
		}
	}

	for ci := range chans {
		register(ci)
	}
	synctest.Wait()
	maxSteps := 30 + 30*tp.Choose("length", 3)
	for step := 0; step < maxSteps && !r.Failed(); step++ {
		r.Step()
		kinds := []string{"send", "tick", "register", "release", "cancel-handler", "cancel-send"}
		w := []int{6, 5, 1, 0, 0, 0}
		parked := gates.List()
		var liveH []*c16Handler
		for _, h := range handlers {
			if !h.cancelReq {
				liveH = append(liveH, h)
			}
		}
		var liveS []*c16Send
		for _, s := range sends {
			if s.live {
				liveS = append(liveS, s)
			}
		}
		if len(parked) > 0 {
			w[3] = 4
		}
		if len(liveH) > 0 {
			w[4] = 1
		}
		if len(liveS) > 0 {
			w[5] = 1
		}
		if len(handlers) >= 8 {
			w[2] = 0
		}
		switch kinds[tp.Weighted("event", w...)] {
		case "send":
			ci := tp.Choose("sender", nCh)
			c := chans[ci]
			burst := 1
			if concurrent {
				burst = 1 + tp.Choose("send-burst", 4)
			}
			// one live retransmission schedule per channel at a time keeps the
			// order of messages inside every handler buffer tape-determined
			for _, s := range c.live {
				if s.live {
					s.cancel()
					s.live = false
				}
			}
			c.live = nil
			synctest.Wait()
			errs := make([]error, burst)
			first := nextID + 1
			var wg sync.WaitGroup
			for b := 0; b < burst; b++ {
				nextID++
				id := nextID
				ctx, cancel := context.WithCancel(context.Background())
				s := &c16Send{id: id, ch: ci, cancel: cancel, live: burst == 1}
				sends = append(sends, s)
				strat := net.StandardRetransmissionStrategy
				if tp.Chance("backoff", 1, 3) {
					strat = net.BackoffRetransmissionStrategy
					s.backoff = true
				}
				markDelivered(ci, id)
				if burst == 1 {
					c.live = append(c.live, s)
					errs[b] = c.lc.Send(ctx, &c16Msg{ID: id}, strat)
					// the sequence number the channel just assigned (sequential send)
					sq := atomic.LoadUint64(&c.lc.counter)
					if other, used := seqnoOwner[ci][sq]; used && other != id {
						r.Failf("C16:seqno-reused", "channel %d: sends of message ids %d and %d both got sequence number %d", ci, other, id, sq)
					}
					idSeqno[ci][id] = sq
					seqnoOwner[ci][sq] = id
				} else {
					// burst messages are not retransmitted (cancelled context)
					cancel()
					wg.Add(1)
					go func(b int) {
						defer wg.Done()
						errs[b] = c.lc.Send(ctx, &c16Msg{ID: id}, strat)
					}(b)
				}
			}
			wg.Wait()
			if burst > 1 {
				r.Fault("concurrent-send")
			}
			for b, err := range errs {
				if err != nil {
					r.Failf("C16:send-error", "Send of message id %d failed: %v", first+uint64(b), err)
				}
			}
			r.Logf("send channel=%d ids=%d..%d", ci, first, nextID)
		case "tick":
			ci := tp.Choose("tick-channel", nCh)
			n := 1 + tp.Choose("tick-burst", 3)
			for i := 0; i < n; i++ {
				chans[ci].ticks <- uint64(step)
			}
			for _, s := range chans[ci].live {
				if s.live && !s.backoff {
					markDelivered(ci, s.id)
					r.Fault("retransmission-duplicate")
				}
			}
			r.Logf("tick channel=%d x%d", ci, n)
		case "register":
			ci := tp.Choose("register-channel", nCh)
			h := register(ci)
			r.NonTrivial()
			r.Logf("register handler=%d channel=%d slowEvery=%d selfCancelAt=%d", h.id, ci, h.slowEvery, h.cancelAt)
		case "release":
			p := parked[tp.Choose("release", len(parked))]
			gates.Release(p.Label)
			r.Fault("slow-handler")
			r.Logf("release %s", p.Label)
		case "cancel-handler":
			h := liveH[tp.Choose("cancel-handler", len(liveH))]
			for _, p := range parked {
				if p.Label[:3] == fmt.Sprintf("h%02d", h.id) {
					r.Probe("cancel-while-handler-parked")
				}
			}
			if h.deadline.IsZero() {
				h.cancel()
				h.cancelReq = true
				synctest.Wait()
				h.cancelledQ.Store(true)
				r.Fault("cancel-handler")
				r.Logf("cancel handler=%d", h.id)
			} else {
				// the context ends by deadline: let the fake clock pass it
				if d := time.Until(h.deadline); d >= 0 {
					time.Sleep(d + time.Millisecond)
					r.AddSim(int64(d), 0)
				}
				synctest.Wait()
				for _, o := range handlers {
					if !o.deadline.IsZero() && !o.cancelReq && !time.Now().Before(o.deadline) {
						o.cancelReq = true
						o.cancelledQ.Store(true)
						r.Fault("handler-deadline-passed")
						r.Logf("deadline passed handler=%d", o.id)
					}
				}
			}
		case "cancel-send":
			s := liveS[tp.Choose("cancel-send", len(liveS))]
			s.cancel()
			s.live = false
			r.Logf("cancel send id=%d", s.id)
		}
		synctest.Wait()
		if !observe() {
			return
		}
	}
	if r.Failed() {
		return
	}
	gates.ReleaseAll()
	synctest.Wait()
	if !observe() {
		return
	}
	// a live, never-cancelled handler must not lose a message of one sender
	// because another sender's message carried the same sequence number
	for _, h := range handlers {
		if h.cancelReq || h.cancelAt != 0 {
			continue
		}
		seenID := map[[2]uint64]bool{}
		h.mu.Lock()
		for _, c := range h.calls {
			seenID[[2]uint64{uint64(chanOf[c.sender]), c.id}] = true
		}
		h.mu.Unlock()
		var missing [][2]uint64
		for k := range h.delivered {
			if !seenID[k] {
				missing = append(missing, k)
			}
		}
		sort.Slice(missing, func(i, j int) bool {
			if missing[i][0] != missing[j][0] {
				return missing[i][0] < missing[j][0]
			}
			return missing[i][1] < missing[j][1]
		})
		for _, k := range missing {
			// the seqno of an unseen message is unknown unless another handler saw it
			s, ok := idSeqno[k[0]][k[1]]
			if !ok {
				r.Probe("delivered-but-unseen-by-all")
				continue
			}
			for p := 0; p < nCh; p++ {
				if uint64(p) != k[0] && h.seen[[2]uint64{uint64(p), s}] {
					r.Failf("C16:distinct-sender-same-seqno-suppressed", "live handler %d (channel %d) never saw message id %d (sender channel %d, seqno %d) although it was broadcast; it did see seqno %d from channel %d", h.id, h.ch, k[1], k[0], s, s, p)
					return
				}
			}
			r.Probe("delivered-but-unseen-without-sibling")
		}
		if len(h.seen) > 0 {
			r.Probe("handler-saw-messages")
		}
	}
	r.Logf("end sends=%d handlers=%d", len(sends), len(handlers))
}

// c16HighVolume: one long-lived handler on a local channel, thousands of cheap
// distinct messages broadcast directly (quiescence only every 200, below the
// handler buffer size), early messages re-broadcast in between and at the end.
func c16HighVolume(r *verifsim.Run) {
	tp := r.T
	name := fmt.Sprintf("c16hv-%d", c16RunCounter.Add(1))
	ticks := make(chan uint64)
	defer close(ticks)
	ident := localIdentifier("c16-hv-receiver")
	x, y := DefaultCurve.ScalarBaseMult(big.NewInt(4242).Bytes())
	lc := &localChannel{
		name:                 name,
		identifier:           &ident,
		operatorPublicKey:    &operator.PublicKey{Curve: operator.Secp256k1, X: x, Y: y},
		messageHandlers:      make([]*messageHandler, 0),
		unmarshalersByType:   make(map[string]func() net.TaggedUnmarshaler),
		retransmissionTicker: retransmission.NewTicker(ticks),
	}
	broadcastChannelsMutex.Lock()
	if broadcastChannels == nil {
		broadcastChannels = make(map[string][]*localChannel)
	}
	broadcastChannels[name] = []*localChannel{lc}
	broadcastChannelsMutex.Unlock()
	defer func() {
		broadcastChannelsMutex.Lock()
		delete(broadcastChannels, name)
		broadcastChannelsMutex.Unlock()
	}()
	senders := []localIdentifier{"c16-hv-a", "c16-hv-b"}
	idx := map[string]int{"c16-hv-a": 0, "c16-hv-b": 1}
	pub := operator.MarshalUncompressed(lc.operatorPublicKey)
	ctx, cancel := context.WithCancel(context.Background())
	defer cancel()
	var mu sync.Mutex
	count := map[[2]uint64]int{}
	var dup *[3]uint64
	lc.Recv(ctx, func(m net.Message) {
		k := [2]uint64{uint64(idx[m.TransportSenderID().String()]), m.Seqno()}
		mu.Lock()
		count[k]++
		if count[k] == 2 && dup == nil {
			dup = &[3]uint64{k[0], k[1], uint64(len(count))}
		}
		mu.Unlock()
	})
	total := 4300 + tp.Choose("hv-extra", 1500)
	early := 1 + tp.Choose("hv-early", 5)
	const batch = 200
	send := func(i int) {
		sd := i % len(senders)
		broadcastMessage(name, internal.BasicMessage(&senders[sd], &c16Msg{ID: uint64(i)}, "c16/msg", pub, uint64(i/len(senders)+1)))
	}
	r.Logf("high-volume total=%d early=%d", total, early)
	r.Fault("high-volume")
	redelivered := 0
	for i := 0; i < total; i++ {
		send(i)
		if i%batch == batch-1 {
			if tp.Chance("hv-redeliver", 1, 4) {
				send(tp.Choose("hv-which", early))
				redelivered++
			}
			synctest.Wait()
			r.Step()
		}
	}
	synctest.Wait()
	for e := 0; e < early; e++ {
		send(e)
		redelivered++
	}
	synctest.Wait()
	mu.Lock()
	defer mu.Unlock()
	if dup != nil {
		r.Failf("C16:duplicate-delivered", "high-volume: the handler saw (sender %d, seqno %d) twice; the second time after %d distinct messages on the same registration", dup[0], dup[1], dup[2])
		return
	}
	if len(count) != total {
		r.Failf("C16:delivered-message-never-handled", "high-volume: %d distinct messages broadcast, the handler saw %d", total, len(count))
		return
	}
	r.Probe("high-volume-run")
	r.Logf("high-volume done distinct=%d redelivered=%d", len(count), redelivered)
}
