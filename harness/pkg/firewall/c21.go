package firewall

// C21: the firewall admits exactly allowlisted or recognized operators.
//
// The real AnyApplicationPolicy (real anyApplicationPolicy.Validate on the
// instrumented keep-common TimeCache) is driven through histories of Validate
// calls for several peers over days of simulated time (synctest fake clock).
// Applications are stubs answering yes / no / error from a table the tape
// rewrites over time; allowlist membership is drawn per run. Calls run on their
// own goroutines; "gated" calls park at every TimeCache.Sweep/Has/Add entry
// (cache.YieldHook) and the tape decides which parked call moves next, so
// concurrent Validate calls are interleaved at the cache boundaries. The clock
// only moves while no call is in flight.
//
// Oracle: explicit reference model of answers. Every consultation of the
// applications is recorded (time, verdict: yes / all-no / error). For a call
// finishing at time T for peer p:
//   nil              => p allowlisted, or a yes for p not older than the
//                       positive period (possibly from this or a concurrent call)
//   errNotRecognized => p not allowlisted and an all-no for p not older than
//                       the negative period (possibly this call's)
//   other error      => this call consulted an application that failed
//   and if p is not allowlisted, no yes within the positive period and no
//   all-no within the negative period existed when the call started, and no
//   other call overlapped it, the call must have consulted the applications
//   and its verdict must be the one they just gave (errors are never cached).

import (
	"errors"
	"fmt"
	"math/big"
	"sync"
	"testing"
	"testing/synctest"
	"time"

	"github.com/btcsuite/btcd/btcec"
	"github.com/keep-network/keep-common/pkg/cache"
	"github.com/keep-network/keep-core/pkg/operator"

	"verifsim"
)

func init() { verifScenarios["C21"] = verifsim.Scenario{Bubble: true, Fn: c21Run} }

const (
	c21Yes = iota
	c21No
	c21Err
)

type c21Answer struct {
	at      time.Time
	seq     int // global order of recording
	verdict int // c21Yes, c21No (= all applications said no), c21Err
	call    int
}

type c21Call struct {
	id       int
	label    string
	peer     int
	gated    bool
	start    time.Time
	startSeq int
	done     bool
	err      error
	// consultation by this call
	asked   int
	gotYes  bool
	gotErr  bool
	allNo   bool
	overlap bool // another call was in flight during this one
}

type c21World struct {
	mu      sync.Mutex
	gates   *verifsim.Gates
	nApps   int
	table   [][]int // [app][peer] -> verdict
	calls   map[string]*c21Call
	answers [][]c21Answer // per peer
	seq     int
	keyPeer map[string]int
}

type c21App struct {
	w   *c21World
	idx int
}

var c21ErrChain = errors.New("c21: injected application failure")

func (a *c21App) IsRecognized(pk *operator.PublicKey) (bool, error) {
	w := a.w
	label := w.gates.Label()
	w.mu.Lock()
	defer w.mu.Unlock()
	c := w.calls[label]
	p, ok := w.keyPeer[pk.String()]
	if c == nil || !ok {
		return false, fmt.Errorf("c21: harness cannot attribute IsRecognized call")
	}
	v := w.table[a.idx][p]
	c.asked++
	w.seq++
	switch v {
	case c21Yes:
		c.gotYes = true
		w.answers[p] = append(w.answers[p], c21Answer{time.Now(), w.seq, c21Yes, c.id})
		return true, nil
	case c21Err:
		c.gotErr = true
		w.answers[p] = append(w.answers[p], c21Answer{time.Now(), w.seq, c21Err, c.id})
		return false, c21ErrChain
	}
	if c.asked == w.nApps && !c.gotYes && !c.gotErr {
		c.allNo = true
		w.answers[p] = append(w.answers[p], c21Answer{time.Now(), w.seq, c21No, c.id})
	}
	return false, nil
}

func c21Run(t *testing.T, r *verifsim.Run) {
	tp := r.T
	gates := verifsim.NewGates()
	cache.YieldHook = func(site string) { gates.Point(site) }
	defer func() {
		gates.ReleaseAll()
		cache.YieldHook = nil
	}()
	posPeriod, negPeriod := PositiveIsRecognizedCachePeriod, NegativeIsRecognizedCachePeriod

	nPeers := 2 + tp.Choose("peers", 3)
	nApps := 1 + tp.Choose("apps", 3)
	concurrentRun := tp.Chance("concurrent-run", 1, 2)
	w := &c21World{gates: gates, nApps: nApps, calls: map[string]*c21Call{}, keyPeer: map[string]int{}}
	keys := make([]*operator.PublicKey, nPeers)
	allow := make([]bool, nPeers)
	var allowKeys []*operator.PublicKey
	for p := range keys {
		x, y := btcec.S256().ScalarBaseMult(big.NewInt(int64(7001 + 13*p)).Bytes())
		keys[p] = &operator.PublicKey{Curve: operator.Secp256k1, X: x, Y: y}
		w.keyPeer[keys[p].String()] = p
		if tp.Chance("allowlisted", 1, 5) {
			allow[p] = true
			allowKeys = append(allowKeys, keys[p])
		}
	}
	w.answers = make([][]c21Answer, nPeers)
	w.table = make([][]int, nApps)
	apps := make([]Application, nApps)
	for a := range apps {
		w.table[a] = make([]int, nPeers)
		for p := range w.table[a] {
			w.table[a][p] = []int{c21No, c21Yes, c21Err}[tp.Weighted("initial-answer", 5, 3, 1)]
		}
		apps[a] = &c21App{w, a}
	}
	policy := AnyApplicationPolicy(apps, NewAllowList(allowKeys))
	r.Logf("cfg peers=%d apps=%d allow=%v concurrent=%v", nPeers, nApps, allow, concurrentRun)

	var inflight []*c21Call
	nCalls := 0
	startT := time.Now()

	finish := func(c *c21Call) bool {
		T := time.Now()
		p := c.peer
		w.mu.Lock()
		answers := append([]c21Answer(nil), w.answers[p]...)
		w.mu.Unlock()
		recentYes, recentNo := false, false
		strictYes, strictNo := false, false // existed before this call started
		for _, a := range answers {
			age := T.Sub(a.at)
			if a.verdict == c21Yes && age <= posPeriod {
				recentYes = true
				if a.seq <= c.startSeq {
					strictYes = true
				}
			}
			if a.verdict == c21No && age <= negPeriod {
				recentNo = true
				if a.seq <= c.startSeq {
					strictNo = true
				}
			}
		}
		kind := "error"
		if c.err == nil {
			kind = "admitted"
		} else if c.err == errNotRecognized {
			kind = "not-recognized"
		}
		r.Logf("call %d peer=%d -> %s (asked=%d yes=%v err=%v allNo=%v) at +%s", c.id, p, kind, c.asked, c.gotYes, c.gotErr, c.allNo, T.Sub(startT))
		desc := fmt.Sprintf("call %d for peer %d at +%s (allowlisted=%v, asked %d applications: yes=%v error=%v all-no=%v; recent yes=%v recent all-no=%v; overlapped=%v)",
			c.id, p, T.Sub(startT), allow[p], c.asked, c.gotYes, c.gotErr, c.allNo, recentYes, recentNo, c.overlap)
		switch kind {
		case "admitted":
			if !allow[p] && !recentYes {
				if c.gotErr {
					r.Failf("C21:failed-check-admitted", "%s: admitted although the recognition check failed and no application recognized the peer within the positive caching period", desc)
				} else {
					r.Failf("C21:admitted-without-recognition", "%s: admitted although not allowlisted and no application recognized the peer within the positive caching period", desc)
				}
				return false
			}
		case "not-recognized":
			if allow[p] {
				r.Failf("C21:allowlisted-rejected", "%s: an allowlisted peer was rejected", desc)
				return false
			}
			if !recentNo {
				if c.gotErr || c21HasRecentErr(answers, T, negPeriod) {
					r.Failf("C21:failed-check-remembered-as-rejection", "%s: rejected as not recognized although no all-no answer exists within the negative caching period (only a failed check)", desc)
				} else {
					r.Failf("C21:rejected-without-negative-answer", "%s: rejected as not recognized although no all-no answer exists within the negative caching period", desc)
				}
				return false
			}
		default:
			if allow[p] {
				r.Failf("C21:allowlisted-rejected", "%s: an allowlisted peer got error %v", desc, c.err)
				return false
			}
			if !c.gotErr {
				r.Failf("C21:error-without-failed-check", "%s: returned error %v although no application failed in this call", desc, c.err)
				return false
			}
		}
		if allow[p] && c.asked > 0 {
			r.Probe("allowlisted-peer-still-checked")
		}
		// once no cached answer can apply, the verdict follows the latest answer
		if !allow[p] && !strictYes && !strictNo && !c.overlap {
			want := "not-recognized"
			switch {
			case c.asked == 0:
				r.Failf("C21:verdict-not-from-latest-answer", "%s: no answer within a caching period existed, yet the applications were not consulted (verdict %s)", desc, kind)
				return false
			case c.gotYes:
				want = "admitted"
			case c.gotErr:
				want = "error"
			}
			if kind != want {
				r.Failf("C21:verdict-not-from-latest-answer", "%s: no cached answer applied; the applications just answered %s, the call returned %s", desc, want, kind)
				return false
			}
			r.Probe("fresh-consultation-decided")
			if len(answers) > c.asked {
				r.Probe("expired-or-failed-answer-reconsulted")
			}
			if kind == "error" {
				r.Probe("application-failure-returned-as-error")
			}
		} else if c.asked == 0 && !allow[p] {
			r.Probe("cached-answer-reused")
		}
		return true
	}

	maxSteps := 40 + 40*tp.Choose("length", 3)
	for step := 0; step < maxSteps && !r.Failed(); step++ {
		r.Step()
		kinds := []string{"call", "advance", "flip", "step-call"}
		w4 := []int{6, 4, 3, 0}
		if len(inflight) > 0 {
			w4[1] = 0 // the clock stands still while calls are in flight
			w4[3] = 8
			if !concurrentRun || len(inflight) >= 3 {
				w4[0] = 0
			}
		}
		switch kinds[tp.Weighted("event", w4...)] {
		case "call":
			p := tp.Choose("peer", nPeers)
			nCalls++
			c := &c21Call{id: nCalls, label: fmt.Sprintf("v%04d", nCalls), peer: p, start: time.Now()}
			c.gated = concurrentRun && tp.Chance("gated", 2, 3)
			w.mu.Lock()
			c.startSeq = w.seq
			w.calls[c.label] = c
			w.mu.Unlock()
			if len(inflight) > 0 {
				c.overlap = true
				for _, o := range inflight {
					o.overlap = true
				}
				r.Fault("concurrent-validate")
			}
			inflight = append(inflight, c)
			r.Logf("start call %d peer=%d gated=%v", c.id, p, c.gated)
			go func() {
				gates.Enter(c.label)
				defer gates.Leave()
				err := policy.Validate(keys[p])
				w.mu.Lock()
				c.err, c.done = err, true
				w.mu.Unlock()
			}()
		case "advance":
			d := []time.Duration{time.Minute, 29 * time.Minute, 59 * time.Minute, 61 * time.Minute, 6 * time.Hour,
				11*time.Hour + 59*time.Minute, 12*time.Hour + time.Minute, 30 * time.Hour, 72 * time.Hour}[tp.Choose("advance", 9)]
			time.Sleep(d)
			r.AddSim(int64(d), 0)
			r.Logf("advance %s", d)
		case "flip":
			a := tp.Choose("flip-app", nApps)
			p := tp.Choose("flip-peer", nPeers)
			v := []int{c21No, c21Yes, c21Err}[tp.Weighted("flip-to", 4, 4, 2)]
			w.mu.Lock()
			w.table[a][p] = v
			w.mu.Unlock()
			if v == c21Err {
				r.Fault("application-error")
			}
			r.NonTrivial()
			r.Logf("flip app=%d peer=%d -> %d", a, p, v)
		case "step-call":
			parked := gates.List()
			if len(parked) > 0 {
				pk := parked[tp.Choose("step-which", len(parked))]
				gates.Release(pk.Label)
				r.Logf("step %s past %s", pk.Label, pk.Site)
				if len(parked) > 1 {
					r.Fault("interleaved-at-timecache")
				}
			}
		}
		synctest.Wait()
		// ungated calls run to completion at once
		for {
			moved := false
			for _, pk := range gates.List() {
				w.mu.Lock()
				c := w.calls[pk.Label]
				w.mu.Unlock()
				if c != nil && !c.gated {
					gates.Release(pk.Label)
					moved = true
				}
			}
			if !moved {
				break
			}
			synctest.Wait()
		}
		var still []*c21Call
		for _, c := range inflight {
			w.mu.Lock()
			done := c.done
			w.mu.Unlock()
			if done {
				if !finish(c) {
					return
				}
			} else {
				still = append(still, c)
			}
		}
		inflight = still
	}
	if r.Failed() {
		return
	}
	// drain
	for len(inflight) > 0 {
		for _, pk := range gates.List() {
			gates.Release(pk.Label)
		}
		synctest.Wait()
		var still []*c21Call
		for _, c := range inflight {
			w.mu.Lock()
			done := c.done
			w.mu.Unlock()
			if done {
				if !finish(c) {
					return
				}
			} else {
				still = append(still, c)
			}
		}
		if len(still) == len(inflight) && len(gates.List()) == 0 {
			r.Failf("C21:validate-hangs", "%d Validate calls neither finished nor parked", len(still))
			return
		}
		inflight = still
	}
	r.Logf("end calls=%d simulated=%s", nCalls, time.Since(startT))
}

func c21HasRecentErr(answers []c21Answer, T time.Time, period time.Duration) bool {
	for _, a := range answers {
		if a.verdict == c21Err && T.Sub(a.at) <= period {
			return true
		}
	}
	return false
}
