package tbtc

// C11 / C10 / C09: the real signingRetryLoop / dkgRetryLoop of ALL members of
// a wallet (group) run over the simulated network (verifadapt.Net) and
// per-operator block counters (verifadapt.NodeBlocks) inside one synctest
// bubble. Real: both retry loops, the protocol announcer, the retry selection
// (pkg/tecdsa/retry), withCancelOnBlock, and - for signing - the
// signingDoneCheck. Stubs: the attempt functions (park at a gate; the tape
// decides when they return and whether they fail).
//
// The tape decides: seat layout (uneven seats per operator), parameters,
// start block, late starts, per-node block lag, announcement/done-message
// delivery per receiver (order, loss, duplication, late copies), attempt
// outcomes and durations (including overruns), current-block query errors,
// and how deep the failure history goes (singles -> pairs -> triplets).
//
// Three scenarios share the engine and differ in the oracle they apply.

import (
	"context"
	"fmt"
	"math/big"
	"sort"
	"strconv"
	"strings"
	"sync"
	"sync/atomic"
	"testing"
	"testing/synctest"
	"time"

	"github.com/ipfs/go-log/v2"
	"github.com/keep-network/keep-core/pkg/chain"
	"github.com/keep-network/keep-core/pkg/chain/local_v1"
	"github.com/keep-network/keep-core/pkg/internal/verifadapt"
	"github.com/keep-network/keep-core/pkg/net"
	"github.com/keep-network/keep-core/pkg/operator"
	"github.com/keep-network/keep-core/pkg/protocol/announcer"
	announcerpb "github.com/keep-network/keep-core/pkg/protocol/announcer/gen/pb"
	"github.com/keep-network/keep-core/pkg/protocol/group"
	"github.com/keep-network/keep-core/pkg/tecdsa"
	"github.com/keep-network/keep-core/pkg/tecdsa/dkg"
	"github.com/keep-network/keep-core/pkg/tecdsa/retry"
	"github.com/keep-network/keep-core/pkg/tecdsa/signing"
	"google.golang.org/protobuf/proto"

	"verifsim"
)

func init() {
	verifScenarios["C11"] = verifsim.Scenario{Bubble: true, Fn: func(t *testing.T, r *verifsim.Run) { c11Engine(t, r, "C11") }}
	verifScenarios["C10"] = verifsim.Scenario{Bubble: true, Fn: func(t *testing.T, r *verifsim.Run) { c11Engine(t, r, "C10") }}
	verifScenarios["C09"] = verifsim.Scenario{Bubble: true, Fn: func(t *testing.T, r *verifsim.Run) { c11Engine(t, r, "C09") }}
}

func c11Key(i int) (*operator.PrivateKey, *operator.PublicKey) {
	d := big.NewInt(int64(104729*(i+1) + 71))
	x, y := local_v1.DefaultCurve.ScalarBaseMult(d.Bytes())
	priv := &operator.PrivateKey{
		PublicKey: operator.PublicKey{Curve: operator.Secp256k1, X: x, Y: y},
		D:         d,
	}
	return priv, &priv.PublicKey
}

// c11Window: documented layout of one attempt (blocks).
type c11Window struct{ delay, active, protocol, cooldown uint64 }

func (w c11Window) length() uint64 { return w.delay + w.active + w.protocol + w.cooldown }
func (w c11Window) annStart(s uint64, n uint) uint64 {
	return s + uint64(n-1)*w.length() + w.delay
}
func (w c11Window) annEnd(s uint64, n uint) uint64  { return w.annStart(s, n) + w.active }
func (w c11Window) timeout(s uint64, n uint) uint64 { return w.annEnd(s, n) + w.protocol }

// c11Rec: what one member was observed doing for one attempt number.
type c11Rec struct {
	n uint

	annCalled bool
	annCallH  uint64
	annRet    bool
	annRetH   uint64
	ready     []group.MemberIndex
	dupAnn    bool

	listened      bool
	listenTimeout uint64
	listenSeq     uint64   // simulator clock at the listen call
	listenMsg     *big.Int // message the done check was armed with
	included      []group.MemberIndex
	qualified     []int // node indexes of qualified operators (signing, white-box)
	qualObserved  bool
	// seat list returned by the signing retry evaluation for the ready seats
	// this member just heard (node index per seat), and its input
	signSeatsIn  []int
	signSeatsOut []int
	signSeatsObs bool

	invoked  bool
	invokeH  uint64
	number   uint
	start    uint64
	timeout  uint64
	excluded []group.MemberIndex
}

type c11Member struct {
	idx    group.MemberIndex
	node   int
	blocks *verifadapt.NodeBlocks
	gates  *verifsim.Gates
	ending *atomic.Bool
	clock  *atomic.Uint64

	resEnd      uint64
	resTimeout  uint64
	resSig      *tecdsa.Signature
	resActive   []group.MemberIndex
	resInactive []group.MemberIndex
	resReport   bool

	mu       sync.Mutex
	recs     []*c11Rec
	finished bool
	resOK    bool
	resErr   string
	panicked string
	outOK    bool
	curCalls int

	curErrAt  map[int]bool
	waitErrAt map[uint64]bool // announcement start blocks whose waiter call fails once
	waitErrs  int
	started   bool
	startAt   uint64

	srl *signingRetryLoop
	drl *dkgRetryLoop
}

func (m *c11Member) rec(n uint) *c11Rec {
	for _, x := range m.recs {
		if x.n == n {
			return x
		}
	}
	x := &c11Rec{n: n}
	m.recs = append(m.recs, x)
	return x
}

func c11Copy(in []group.MemberIndex) []group.MemberIndex {
	return append([]group.MemberIndex{}, in...)
}

type c11Announcer struct {
	m    *c11Member
	real *announcer.Announcer
}

func (a *c11Announcer) Announce(ctx context.Context, memberIndex group.MemberIndex, sessionID string) ([]group.MemberIndex, error) {
	n := uint(0)
	if i := strings.LastIndex(sessionID, "-"); i >= 0 {
		v, _ := strconv.Atoi(sessionID[i+1:])
		n = uint(v)
	}
	m := a.m
	if !m.ending.Load() {
		h := m.blocks.Height()
		m.mu.Lock()
		x := m.rec(n)
		if x.annCalled {
			x.dupAnn = true
		}
		x.annCalled, x.annCallH = true, h
		m.mu.Unlock()
	}
	ready, err := a.real.Announce(ctx, memberIndex, sessionID)
	if !m.ending.Load() && err == nil {
		h := m.blocks.Height()
		m.mu.Lock()
		x := m.rec(n)
		x.annRet, x.annRetH, x.ready = true, h, c11Copy(ready)
		m.mu.Unlock()
	}
	return ready, err
}

type c11Done struct {
	m      *c11Member
	real   *signingDoneCheck
	nodeOf map[chain.Address]int
}

func (d *c11Done) listen(ctx context.Context, message *big.Int, attemptNumber uint64, attemptTimeoutBlock uint64, attemptMembersIndexes []group.MemberIndex) {
	m := d.m
	if !m.ending.Load() {
		m.mu.Lock()
		x := m.rec(uint(attemptNumber))
		x.listened, x.listenTimeout, x.included = true, attemptTimeoutBlock, c11Copy(attemptMembersIndexes)
		x.listenSeq, x.listenMsg = m.clock.Load(), new(big.Int).Set(message)
		ready := x.ready
		m.mu.Unlock()
		// white-box observation of the retry selection this member just made
		if m.srl != nil && ready != nil {
			// the evaluation this member's loop has just run, on the same
			// input (ready seats in the order heard, loop seed, retry number)
			var readyOps []chain.Address
			var in []int
			for _, mi := range ready {
				readyOps = append(readyOps, m.srl.signingGroupOperators[mi-1])
				in = append(in, d.nodeOf[m.srl.signingGroupOperators[mi-1]])
			}
			seats, serr := retry.EvaluateRetryParticipantsForSigning(readyOps, m.srl.attemptSeed, m.srl.attemptCounter-1, uint(m.srl.groupParameters.HonestThreshold))
			if serr == nil {
				var out []int
				for _, a := range seats {
					nd, known := d.nodeOf[a]
					if !known {
						nd = -1
					}
					out = append(out, nd)
				}
				m.mu.Lock()
				x.signSeatsIn, x.signSeatsOut, x.signSeatsObs = in, out, true
				m.mu.Unlock()
			}
			qs, err := m.srl.qualifiedOperatorsSet(ready)
			if err == nil {
				var ns []int
				for a, ok := range qs {
					if ok {
						ns = append(ns, d.nodeOf[a])
					}
				}
				sort.Ints(ns)
				m.mu.Lock()
				x.qualified, x.qualObserved = ns, true
				m.mu.Unlock()
			}
		}
	}
	d.real.listen(ctx, message, attemptNumber, attemptTimeoutBlock, attemptMembersIndexes)
}

func (d *c11Done) signalDone(ctx context.Context, memberIndex group.MemberIndex, message *big.Int, attemptNumber uint64, result *signing.Result, endBlock uint64) error {
	return d.real.signalDone(ctx, memberIndex, message, attemptNumber, result, endBlock)
}

func (d *c11Done) waitUntilAllDone(ctx context.Context) (*signing.Result, uint64, error) {
	return d.real.waitUntilAllDone(ctx)
}

func (m *c11Member) noteInvoke(number uint, start, timeout uint64, excluded []group.MemberIndex) {
	if m.ending.Load() {
		return
	}
	h := m.blocks.Height()
	m.mu.Lock()
	x := m.rec(number)
	x.invoked, x.invokeH, x.number, x.start, x.timeout, x.excluded = true, h, number, start, timeout, c11Copy(excluded)
	m.mu.Unlock()
}

func (m *c11Member) label() string { return fmt.Sprintf("att-%02d", m.idx) }

func (m *c11Member) dkgAttempt(p *dkgAttemptParams) (*dkg.Result, error) {
	m.noteInvoke(p.number, p.startBlock, p.timeoutBlock, p.excludedMembersIndexes)
	m.gates.PointAs(m.label(), "dkg-attempt")
	m.mu.Lock()
	ok := m.outOK
	m.outOK = false
	m.mu.Unlock()
	if ok {
		return &dkg.Result{}, nil
	}
	return nil, fmt.Errorf("attempt failed")
}

func (m *c11Member) signAttempt(p *signingAttemptParams) (*signing.Result, uint64, error) {
	m.noteInvoke(p.number, p.startBlock, p.timeoutBlock, p.excludedMembersIndexes)
	m.gates.PointAs(m.label(), "signing-attempt")
	m.mu.Lock()
	ok := m.outOK
	m.outOK = false
	m.mu.Unlock()
	if ok {
		return &signing.Result{Signature: &tecdsa.Signature{R: big.NewInt(200), S: big.NewInt(300), RecoveryID: 1}}, m.blocks.Height(), nil
	}
	return nil, 0, fmt.Errorf("attempt failed")
}

type c11Flight struct {
	env    *verifadapt.Envelope
	desc   string
	key    string
	left   []int // receivers that never got a copy
	served []int // receivers that got one (retransmissions go there while the sender's context lives)
	done   *signingDoneMessage
}

// c11DoneDelivery: one signing-done message handed to one node.
type c11DoneDelivery struct {
	seq  uint64
	from int
	dm   *signingDoneMessage
}

func c11SetKey(xs []group.MemberIndex) string {
	ys := append([]group.MemberIndex{}, xs...)
	sort.Slice(ys, func(i, j int) bool { return ys[i] < ys[j] })
	return fmt.Sprint(ys)
}

func c11Has(xs []group.MemberIndex, v group.MemberIndex) bool {
	for _, x := range xs {
		if x == v {
			return true
		}
	}
	return false
}

func c11Engine(t *testing.T, r *verifsim.Run, mode string) {
	tp := r.T
	// ---- configuration ----
	var isDkg bool
	switch mode {
	case "C35", "C36":
		isDkg = false
	case "C09":
		isDkg = !tp.Chance("signing-loop", 1, 4)
	default:
		isDkg = tp.Chance("dkg-loop", 1, 2)
	}
	k := 3 + tp.Choose("operators", 4)
	if isDkg && k < 4 {
		k = 4
	}
	var seatNode []int
	seatsOfNode := make([][]int, k)
	for o := 0; o < k; o++ {
		c := 1 + tp.Weighted("seats", 3, 2, 1)
		for j := 0; j < c; j++ {
			seatNode = append(seatNode, o)
		}
	}
	// interleave seats of different operators (sortition output is not grouped)
	if tp.Chance("interleave-seats", 1, 2) {
		p := tp.Perm("seat-order", len(seatNode))
		ns := make([]int, len(seatNode))
		for i, j := range p {
			ns[i] = seatNode[j]
		}
		seatNode = ns
	}
	n := len(seatNode)
	for s, o := range seatNode {
		seatsOfNode[o] = append(seatsOfNode[o], s)
	}
	params := &GroupParameters{GroupSize: n}
	if isDkg {
		slack := 1 + tp.Choose("quorum-slack", n/2)
		params.GroupQuorum = n - slack
		if params.GroupQuorum < 2 {
			params.GroupQuorum = 2
		}
		params.HonestThreshold = params.GroupQuorum/2 + 1
	} else {
		params.HonestThreshold = n/2 + 1 + tp.Choose("threshold-extra", n-n/2-1)
		if params.HonestThreshold > n {
			params.HonestThreshold = n
		}
		params.GroupQuorum = params.HonestThreshold
		// a wallet whose signing group is smaller than the configured group
		// size (members excluded by the key generation)
		params.GroupSize = n + tp.Choose("group-size-beyond-signing-group", 4)
		if params.GroupSize > n {
			r.NonTrivial()
		}
	}
	win := c11Window{1, 5, 30, 5}
	if isDkg {
		win = c11Window{1, 10, 200, 5}
	}
	startBlock := uint64(10 + tp.Choose("start-block", 60))
	keyBase := tp.Choose("key-base", 40)
	maxLag := uint64([]int{0, 0, 1, 2, 4, 9}[tp.Choose("max-lag", 6)])
	lossy := tp.Chance("lossy-net", 1, 3)
	reorder := tp.Chance("reordering-net", 1, 3)
	slowStubs := tp.Chance("slow-attempts", 1, 4)
	lateStarts := tp.Chance("late-starts", 1, 3)
	curErrors := !isDkg && tp.Chance("current-block-errors", 1, 5)
	retransmit := maxLag > 0 || lateStarts
	waitErrors := tp.Chance("block-waiter-errors", 1, 5)
	depthChoices := []int{0, 1, 3, 6, 12, 20, 32, 44}
	var failDepth int
	if mode == "C09" && isDkg {
		failDepth = depthChoices[tp.Weighted("fail-depth", 1, 1, 1, 2, 4, 4, 3, 2)]
	} else if mode == "C35" || mode == "C36" {
		failDepth = depthChoices[tp.Weighted("fail-depth", 2, 3, 2, 1)]
	} else {
		failDepth = depthChoices[tp.Weighted("fail-depth", 3, 3, 3, 2, 1, 1, 0, 0)]
	}
	maxAttempts := uint(failDepth + 2 + tp.Choose("extra-attempts", 4))
	seedInt := big.NewInt(int64(1 + tp.Choose("seed", 1000000)))

	sn := verifadapt.NewNet()
	nodes := make([]*verifadapt.NetNode, k)
	blocks := make([]*verifadapt.NodeBlocks, k)
	signingImpl := local_v1.NewSigner(func() *operator.PrivateKey { p, _ := c11Key(0); return p }())
	nodeOf := map[chain.Address]int{}
	for o := 0; o < k; o++ {
		priv, pub := c11Key(keyBase + o)
		nodes[o] = sn.AddNodeWithKey(priv, pub)
		ch := nodes[o].Channel("c11")
		announcer.RegisterUnmarshaller(ch)
		ch.SetUnmarshaler(func() net.TaggedUnmarshaler { return &signingDoneMessage{} })
		blocks[o] = verifadapt.NewNodeBlocks(startBlock)
		nodeOf[signingImpl.PublicKeyBytesToAddress(nodes[o].PubBytes)] = o
	}
	operators := make(chain.Addresses, n)
	for s := 0; s < n; s++ {
		operators[s] = signingImpl.PublicKeyBytesToAddress(nodes[seatNode[s]].PubBytes)
	}
	// order of the operators' addresses (what the retry algorithm sorts by)
	addrOrder := make([]int, k)
	for o := range addrOrder {
		addrOrder[o] = o
	}
	sort.Slice(addrOrder, func(i, j int) bool {
		return signingImpl.PublicKeyBytesToAddress(nodes[addrOrder[i]].PubBytes) < signingImpl.PublicKeyBytesToAddress(nodes[addrOrder[j]].PubBytes)
	})
	lg := log.Logger("verif-c11")
	validator := group.NewMembershipValidator(lg, operators, signingImpl)
	gates := verifsim.NewGates()
	ending := &atomic.Bool{}
	clock := &atomic.Uint64{}
	doneDeliv := make([][]c11DoneDelivery, k)
	forged := 0
	stdSig := &tecdsa.Signature{R: big.NewInt(200), S: big.NewInt(300), RecoveryID: 1}
	forgedAnn := 0
	protocolID := "verif-signing"
	if isDkg {
		protocolID = "verif-dkg"
	}
	// announcements put on the wire: (claimed seat, attempt label) -> publishing nodes
	annSent := map[[2]int]map[int]bool{}
	rootCtx, rootCancel := context.WithCancel(context.Background())
	defer rootCancel()

	r.Logf("cfg mode=%s dkg=%v seatNode=%v addrOrder=%v params=%+v start=%d lag=%d lossy=%v reorder=%v slow=%v late=%v depth=%d max=%d",
		mode, isDkg, seatNode, addrOrder, *params, startBlock, maxLag, lossy, reorder, slowStubs, lateStarts, failDepth, maxAttempts)

	members := make([]*c11Member, n)
	for s := 0; s < n; s++ {
		m := &c11Member{idx: group.MemberIndex(s + 1), node: seatNode[s], blocks: blocks[seatNode[s]], gates: gates, ending: ending, clock: clock,
			curErrAt: map[int]bool{}, waitErrAt: map[uint64]bool{}, startAt: startBlock}
		if lateStarts && tp.Chance("member-late", 1, 3) {
			m.startAt = startBlock + uint64(1+tp.Choose("late-by", int(win.length())*3))
			r.Fault("late-start")
		}
		if waitErrors {
			// the waiter for the announcement start block of a chosen attempt
			// fails (once) while the loop context is alive
			for j := 0; j < tp.Choose("block-waiter-error-count", 3); j++ {
				m.waitErrAt[win.annStart(startBlock, uint(1+tp.Choose("block-waiter-error-attempt", failDepth+3)))] = true
			}
		}
		if curErrors {
			for j := 0; j < tp.Choose("current-block-error-count", 3); j++ {
				m.curErrAt[tp.Choose("current-block-error-at", 12)] = true
			}
		}
		ch := nodes[m.node].Channel("c11")
		if isDkg {
			ann := &c11Announcer{m: m, real: announcer.New("verif-dkg", ch, validator)}
			m.drl = newDkgRetryLoop(lg, seedInt, startBlock, m.idx, operators, params, ann, 0)
		} else {
			ann := &c11Announcer{m: m, real: announcer.New("verif-signing", ch, validator)}
			dc := &c11Done{m: m, real: newSigningDoneCheck(n, ch, validator), nodeOf: nodeOf}
			m.srl = newSigningRetryLoop(lg, seedInt, startBlock, m.idx, operators, params, ann, dc)
		}
		members[s] = m
	}

	startMember := func(m *c11Member) {
		m.started = true
		nb := m.blocks
		waitFn := func(ctx context.Context, h uint64) error {
			m.mu.Lock()
			fail := m.waitErrAt[h] && ctx.Err() == nil
			if fail {
				delete(m.waitErrAt, h)
				m.waitErrs++
			}
			m.mu.Unlock()
			if fail {
				return fmt.Errorf("block waiter failed")
			}
			w, err := nb.BlockHeightWaiter(h)
			if err != nil {
				return err
			}
			select {
			case <-w:
			case <-ctx.Done():
			}
			return nil
		}
		curFn := func() (uint64, error) {
			m.mu.Lock()
			c := m.curCalls
			m.curCalls++
			m.mu.Unlock()
			if m.curErrAt[c] {
				return 0, fmt.Errorf("current block query failed")
			}
			return nb.CurrentBlock()
		}
		go func() {
			defer func() {
				if p := recover(); p != nil {
					m.mu.Lock()
					m.panicked, m.finished = fmt.Sprint(p), true
					m.mu.Unlock()
				}
			}()
			var err error
			ok := false
			if isDkg {
				var res *dkg.Result
				res, err = m.drl.start(rootCtx, waitFn, m.dkgAttempt)
				ok = res != nil
			} else {
				var res *signingRetryLoopResult
				res, err = m.srl.start(rootCtx, waitFn, curFn, m.signAttempt)
				ok = res != nil
				if res != nil && err == nil {
					m.mu.Lock()
					m.resEnd, m.resTimeout = res.latestEndBlock, res.attemptTimeoutBlock
					if res.result != nil {
						m.resSig = res.result.Signature
					}
					if res.activityReport != nil {
						m.resReport = true
						m.resActive = c11Copy(res.activityReport.activeMembers)
						m.resInactive = c11Copy(res.activityReport.inactiveMembers)
					}
					m.mu.Unlock()
				}
			}
			m.mu.Lock()
			m.finished, m.resOK = true, ok && err == nil
			if err != nil {
				m.resErr = err.Error()
			}
			m.mu.Unlock()
		}()
	}

	// ---- network pool ----
	var pool []*c11Flight
	collect := func() {
		batch := sn.Drain()
		var fs []*c11Flight
		for _, e := range batch {
			f := &c11Flight{env: e}
			switch e.Type {
			case "protocol_announcer/announcement_message":
				pbm := announcerpb.AnnouncementMessage{}
				if err := proto.Unmarshal(e.Payload, &pbm); err != nil {
					continue
				}
				att := pbm.SessionID
				if i := strings.LastIndex(att, "-"); i >= 0 {
					att = att[i+1:]
				}
				f.desc = fmt.Sprintf("ann m=%d att=%s", pbm.SenderID, att)
				if pbm.ProtocolID == protocolID && strings.HasPrefix(pbm.SessionID, seedInt.String()+"-") {
					if an, aerr := strconv.Atoi(att); aerr == nil {
						key := [2]int{int(pbm.SenderID), an}
						if annSent[key] == nil {
							annSent[key] = map[int]bool{}
						}
						annSent[key][e.From] = true
					}
				}
				f.key = fmt.Sprintf("%02d/a/%03d/%s", e.From, pbm.SenderID, att)
			default:
				dm := &signingDoneMessage{}
				if err := dm.Unmarshal(e.Payload); err != nil {
					continue
				}
				f.desc = fmt.Sprintf("done m=%d att=%d end=%d", dm.senderID, dm.attemptNumber, dm.endBlock)
				f.done = dm
				f.key = fmt.Sprintf("%02d/d/%03d/%d", e.From, dm.senderID, dm.attemptNumber)
			}
			for o := 0; o < k; o++ {
				f.left = append(f.left, o)
			}
			fs = append(fs, f)
		}
		// members of one node run concurrently: canonical order inside a batch
		sort.SliceStable(fs, func(i, j int) bool { return fs[i].key < fs[j].key })
		pool = append(pool, fs...)
		for len(pool) > 80 {
			pool = pool[1:]
			r.Fault("net-loss-overflow")
		}
	}
	deliver := func(pi int, to int, keep bool) {
		f := pool[pi]
		seq := clock.Add(1)
		if f.done != nil {
			doneDeliv[to] = append(doneDeliv[to], c11DoneDelivery{seq, f.env.From, f.done})
		}
		cnt := sn.Deliver(f.env, to)
		r.Logf("deliver %s -> node %d (h=%d) handlers=%d", f.desc, to, blocks[to].Height(), cnt)
		synctest.Wait()
		if !keep {
			var nl []int
			for _, x := range f.left {
				if x != to {
					nl = append(nl, x)
				}
			}
			if len(nl) != len(f.left) {
				f.served = append(f.served, to)
			}
			f.left = nl
		}
	}
	prune := func() {
		np := pool[:0]
		for _, f := range pool {
			if len(f.left) > 0 || (retransmit && f.env.Ctx != nil && f.env.Ctx.Err() == nil) {
				np = append(np, f)
			}
		}
		pool = np
	}
	minHeight := func() uint64 {
		mh := blocks[0].Height()
		for _, b := range blocks {
			if b.Height() < mh {
				mh = b.Height()
			}
		}
		return mh
	}
	startDue := func() {
		for _, m := range members {
			if !m.started && m.blocks.Height() >= m.startAt {
				if m.startAt > startBlock {
					r.Logf("late start member=%d at h=%d", m.idx, m.blocks.Height())
				}
				startMember(m)
			}
		}
		synctest.Wait()
	}
	tickNode := func(o int) {
		blocks[o].Advance(blocks[o].Height() + 1)
		synctest.Wait()
		r.AddSim(0, 1)
	}
	maxSeenAttempt := func() uint {
		mx := uint(0)
		for _, m := range members {
			m.mu.Lock()
			for _, x := range m.recs {
				if x.n > mx {
					mx = x.n
				}
			}
			m.mu.Unlock()
		}
		return mx
	}

	startDue()
	collect()
	stepCap := 400 + 90*int(maxAttempts)
	for step := 0; ; step++ {
		if step >= stepCap {
			r.Probe("step-cap")
			break
		}
		allDone := true
		for _, m := range members {
			m.mu.Lock()
			if !m.finished {
				allDone = false
			}
			m.mu.Unlock()
		}
		if allDone {
			break
		}
		if maxSeenAttempt() > maxAttempts {
			break
		}
		r.Step()
		// parked attempt stubs
		parked := gates.List()
		// next waiter target per node
		gap := uint64(1 << 62)
		for o := 0; o < k; o++ {
			h := blocks[o].Height()
			for _, tgt := range blocks[o].PendingTargets() {
				if tgt > h && tgt-h < gap {
					gap = tgt - h
				}
			}
			for _, s := range seatsOfNode[o] {
				m := members[s]
				if !m.started && m.startAt > h && m.startAt-h < gap {
					gap = m.startAt - h
				}
			}
		}
		deliverable := 0
		for _, f := range pool {
			deliverable += len(f.left)
		}
		type kindW struct {
			k string
			w int
		}
		var ks []kindW
		if len(parked) > 0 {
			w := 12
			if slowStubs {
				w = 2
			}
			ks = append(ks, kindW{"release-all", w})
			if len(parked) > 1 && slowStubs {
				ks = append(ks, kindW{"release-one", 3})
			}
		}
		// without delay faults the network is synchronous: fresh messages are
		// delivered before time moves on; prompt stubs return before time moves on
		timeMoves := (deliverable == 0 || lossy || reorder) && (len(parked) == 0 || slowStubs)
		if deliverable > 0 {
			ks = append(ks, kindW{"flush", 12})
			if reorder {
				ks = append(ks, kindW{"deliver-one", 6})
			}
			if lossy {
				ks = append(ks, kindW{"drop-one", 3})
			}
		}
		if timeMoves && gap > 2 && gap < 1<<61 {
			ks = append(ks, kindW{"fast-forward", 12})
		}
		if timeMoves && (gap < 1<<61 || len(parked) > 0) {
			ks = append(ks, kindW{"tick-all", 8})
			if maxLag > 0 {
				ks = append(ks, kindW{"tick-one", 8})
			}
		}
		if mode == "C35" && forged < 12 && len(ks) > 0 && maxSeenAttempt() >= 1 {
			ks = append(ks, kindW{"forge-done", 3})
		}
		if mode == "C12" && forgedAnn < 30 && len(ks) > 0 {
			// nodes that already announced legitimately, and whether some
			// member is inside an announcement phase right now
			open := false
			for _, m := range members {
				m.mu.Lock()
				for _, x := range m.recs {
					if x.annCalled && !x.annRet {
						open = true
					}
				}
				m.mu.Unlock()
			}
			if open {
				ks = append(ks, kindW{"forge-announcement", 14})
			} else if maxSeenAttempt() >= 1 {
				ks = append(ks, kindW{"forge-announcement", 1})
			}
		}
		if len(ks) == 0 {
			r.Probe("nothing-to-do")
			break
		}
		ws := make([]int, len(ks))
		for i := range ks {
			ws[i] = ks[i].w
		}
		kd := ks[tp.Weighted("event", ws...)].k
		switch kd {
		case "release-all", "release-one":
			rel := parked
			if kd == "release-one" {
				rel = []verifsim.Parked{parked[tp.Choose("release", len(parked))]}
				r.NonTrivial()
			}
			for _, p := range rel {
				idx, _ := strconv.Atoi(strings.TrimPrefix(p.Label, "att-"))
				m := members[idx-1]
				m.mu.Lock()
				var cur *c11Rec
				for _, x := range m.recs {
					if x.invoked && (cur == nil || x.n > cur.n) {
						cur = x
					}
				}
				m.mu.Unlock()
				ok := false
				if cur != nil && int(cur.n) > failDepth {
					ok = !tp.Chance("attempt-fails", 2, 5)
				}
				if !ok {
					r.Fault("attempt-error")
				}
				if cur != nil && m.blocks.Height() > cur.timeout {
					r.Fault("attempt-overrun")
				}
				m.mu.Lock()
				m.outOK = ok
				m.mu.Unlock()
				r.Logf("attempt-return member=%d ok=%v h=%d", m.idx, ok, m.blocks.Height())
				gates.Release(p.Label)
				synctest.Wait()
			}
		case "flush":
			for pi := range pool {
				f := pool[pi]
				if retransmit && f.env.Ctx != nil && f.env.Ctx.Err() == nil {
					for _, to := range append([]int{}, f.served...) {
						deliver(pi, to, true)
						r.Probe("net-retransmission")
					}
				}
				for _, to := range append([]int{}, f.left...) {
					deliver(pi, to, false)
				}
			}
			prune()
			time.Sleep(110 * time.Millisecond)
			synctest.Wait()
		case "deliver-one", "drop-one":
			c := tp.Choose(kd, deliverable)
			for pi, f := range pool {
				if c < len(f.left) {
					to := f.left[c]
					if kd == "deliver-one" {
						if pi != 0 || c != 0 {
							r.Fault("net-reorder")
						}
						keep := tp.Chance("duplicate", 1, 8)
						if keep {
							r.Fault("net-duplicate")
						}
						deliver(pi, to, keep)
					} else {
						r.Fault("net-loss")
						r.Logf("drop %s -> node %d", f.desc, to)
						var nl []int
						for _, x := range f.left {
							if x != to {
								nl = append(nl, x)
							}
						}
						f.left = nl
					}
					break
				}
				c -= len(f.left)
			}
			prune()
		case "forge-announcement":
			// a group operator's node that has already announced legitimately
			// now claims a seat it does not hold
			var cand []int
			for o := 0; o < k; o++ {
				has := false
				for _, sidx := range seatsOfNode[o] {
					m := members[sidx]
					m.mu.Lock()
					for _, x := range m.recs {
						has = has || x.annCalled
					}
					m.mu.Unlock()
				}
				if has {
					cand = append(cand, o)
				}
			}
			if len(cand) == 0 {
				break
			}
			forgedAnn++
			o := cand[tp.Choose("forge-ann-node", len(cand))]
			var foreign []int
			for sidx := 0; sidx < n; sidx++ {
				if seatNode[sidx] != o {
					foreign = append(foreign, sidx+1)
				}
			}
			claimed := 0
			switch tp.Weighted("forge-ann-claim", 6, 1, 1, 1) {
			case 0:
				claimed = foreign[tp.Choose("forge-ann-foreign-seat", len(foreign))]
			case 1:
				claimed = 0
			case 2:
				claimed = n + 1
			case 3:
				claimed = 255
			}
			cur := int(maxSeenAttempt())
			att := cur
			if tp.Chance("forge-ann-next-attempt", 1, 6) {
				att = cur + 1
			}
			fa := &c11ForgedAnn{sender: uint32(claimed), protocol: protocolID, session: fmt.Sprintf("%v-%v", seedInt, att)}
			_ = nodes[o].Channel("c11").Send(rootCtx, fa)
			r.Fault("forged-announcement")
			r.Logf("forge announcement from-node=%d claims seat=%d att=%d", o, claimed, att)
		case "forge-done":
			// a (Byzantine or merely late) group member publishes a
			// confirmation for its own seat, labelled with the previous, the
			// current or any earlier attempt
			forged++
			o := tp.Choose("forge-node", k)
			seat := seatsOfNode[o][tp.Choose("forge-seat", len(seatsOfNode[o]))] + 1
			cur := int(maxSeenAttempt())
			a := cur
			switch tp.Weighted("forge-attempt", 3, 2, 1) {
			case 0:
				a = cur - 1
			case 2:
				a = 1 + tp.Choose("forge-attempt-n", cur)
			}
			if a < 1 {
				a = 1
			}
			end := win.timeout(startBlock, uint(a)) - uint64(tp.Choose("forge-end-early", 12))
			if tp.Chance("forge-end-extreme", 1, 10) {
				end = c35ExtremeEnd(tp.Choose("forge-end-extreme-value", 6), win.timeout(startBlock, uint(a)))
			}
			sg := stdSig
			if tp.Chance("forge-other-signature", 1, 10) {
				sg = &tecdsa.Signature{R: big.NewInt(201), S: big.NewInt(300), RecoveryID: 1}
			}
			dm := &signingDoneMessage{senderID: group.MemberIndex(seat), message: new(big.Int).Set(seedInt), attemptNumber: uint64(a), signature: sg, endBlock: end}
			_ = nodes[o].Channel("c11").Send(rootCtx, dm)
			r.Fault("forged-confirmation")
			if a < cur {
				r.Fault("stale-attempt-confirmation")
			}
			r.Logf("forge done from-node=%d seat=%d att=%d (current %d) end=%d std-sig=%v", o, seat, a, cur, end, sg == stdSig)
		case "fast-forward":
			by := gap - 1
			for o := 0; o < k; o++ {
				blocks[o].Advance(blocks[o].Height() + by)
			}
			synctest.Wait()
			r.AddSim(0, int64(by)*int64(k))
			r.Logf("fast-forward +%d (min h=%d)", by, minHeight())
		case "tick-all":
			for o := 0; o < k; o++ {
				tickNode(o)
			}
			time.Sleep(110 * time.Millisecond)
			synctest.Wait()
			r.Logf("tick-all (min h=%d)", minHeight())
		case "tick-one":
			mh := minHeight()
			var cand []int
			for o := 0; o < k; o++ {
				if blocks[o].Height()+1-mh <= maxLag {
					cand = append(cand, o)
				}
			}
			o := cand[tp.Choose("tick-node", len(cand))]
			tickNode(o)
			time.Sleep(110 * time.Millisecond)
			synctest.Wait()
			r.Fault("block-lag")
			r.Logf("tick node=%d -> %d", o, blocks[o].Height())
		}
		startDue()
		collect()
	}
	ending.Store(true)
	rootCancel()
	gates.ReleaseAll()
	synctest.Wait()
	// let block-bound goroutines with a background parent finish
	for o := 0; o < k; o++ {
		for i := 0; i < 8; i++ {
			tg := blocks[o].PendingTargets()
			if len(tg) == 0 {
				break
			}
			mx := uint64(0)
			for _, x := range tg {
				if x > mx {
					mx = x
				}
			}
			blocks[o].Advance(mx)
			synctest.Wait()
		}
	}

	// ---- observations -> oracles ----
	if mode == "C12" {
		c12AnnouncementOracle(r, members, seatNode, annSent)
	}
	for _, m := range members {
		m.mu.Lock()
		for i := 0; i < m.waitErrs; i++ {
			r.Fault("block-waiter-error")
		}
		if m.finished && strings.Contains(m.resErr, "failed waiting for announcement start block") {
			r.Probe("member-dropped-out-after-waiter-error")
		}
		if m.panicked != "" {
			r.Failf(mode+":panic-in-retry-loop", "member %d: %s", m.idx, m.panicked)
		}
		m.mu.Unlock()
	}
	if mode == "C35" {
		c35LoopOracle(r, members, seatNode, doneDeliv, seedInt)
		return
	}
	if mode == "C36" {
		c36ReportOracle(r, members, n)
		return
	}
	if mode == "C12" && r.Failed() {
		return
	}
	c11Oracles(r, mode, isDkg, members, seatNode, seatsOfNode, params, win, startBlock, addrOrder)
}

func c11Oracles(r *verifsim.Run, mode string, isDkg bool, members []*c11Member, seatNode []int, seatsOfNode [][]int,
	params *GroupParameters, win c11Window, s uint64, addrOrder []int) {
	n := len(members)
	k := len(seatsOfNode)
	// C12 runs the engine with every oracle on
	w11 := mode == "C11" || mode == "C12"
	s10 := mode == "C10" || mode == "C12"
	s09 := mode == "C09" || mode == "C12"
	loop := "signing"
	if isDkg {
		loop = "dkg"
	}
	type obs struct {
		m *c11Member
		x *c11Rec
	}
	byAttempt := map[uint][]obs{}
	var attempts []uint
	for _, m := range members {
		m.mu.Lock()
		recs := append([]*c11Rec{}, m.recs...)
		fin, ok, es := m.finished, m.resOK, m.resErr
		m.mu.Unlock()
		if fin && ok {
			r.Probe(loop + ":loop-returned-result")
		} else if fin && strings.Contains(es, "cannot select members") {
			r.Probe(loop + ":retry-selection-exhausted")
		}
		var prev *c11Rec
		for _, x := range recs {
			if _, seen := byAttempt[x.n]; !seen {
				attempts = append(attempts, x.n)
			}
			byAttempt[x.n] = append(byAttempt[x.n], obs{m, x})
			// per-member summary into the fingerprint
			r.Logf("obs member=%d att=%d annCall=%v@%d annRet=%v@%d ready=%v listen=%v/%d incl=%v invoked=%v@%d [%d,%d] excl=%v",
				m.idx, x.n, x.annCalled, x.annCallH, x.annRet, x.annRetH, x.ready, x.listened, x.listenTimeout, x.included,
				x.invoked, x.invokeH, x.start, x.timeout, x.excluded)
			if x.invoked {
				r.Probe(loop + ":attempt-invoked")
			}
			if x.annRet && !x.invoked && x.listened {
				r.Probe(loop + ":member-excluded-from-attempt")
			}
			if prev != nil && x.n > prev.n+1 {
				r.Probe(loop + ":attempt-numbers-skipped")
			}
			if x.annRet && len(x.ready) < n {
				r.Probe(loop + ":not-everyone-ready")
			}
			if w11 {
				c11CheckWindows(r, loop, m, x, prev, win, s)
			}
			prev = x
		}
	}
	sort.Slice(attempts, func(i, j int) bool { return attempts[i] < attempts[j] })

	if w11 {
		// identical windows across members
		for _, a := range attempts {
			var first *obs
			for i := range byAttempt[a] {
				o := byAttempt[a][i]
				if !o.x.invoked {
					continue
				}
				if first == nil {
					first = &o
					continue
				}
				if o.x.start != first.x.start || o.x.timeout != first.x.timeout {
					r.Failf("C11:members-disagree-on-window", "%s attempt %d: member %d got [start %d, timeout %d], member %d got [start %d, timeout %d]",
						loop, a, first.m.idx, first.x.start, first.x.timeout, o.m.idx, o.x.start, o.x.timeout)
					return
				}
			}
		}
		if mode == "C11" || r.Failed() {
			return
		}
	}

	// ---- selections (C10, C09) ----
	opsOf := func(ms []group.MemberIndex) map[int]int { // node -> seats among ms
		out := map[int]int{}
		for _, x := range ms {
			out[seatNode[int(x)-1]]++
		}
		return out
	}
	type histEntry struct {
		att  uint
		excl []int
	}
	hist := map[string][]histEntry{} // ready set -> history of excluded operator sets (dkg)
	var histKeys []string
	for _, a := range attempts {
		group1 := map[string]*obs{} // ready-set key -> first observer
		for i := range byAttempt[a] {
			o := byAttempt[a][i]
			x := o.x
			if !x.annRet {
				continue
			}
			var included []group.MemberIndex
			haveIncluded := false
			if isDkg && x.invoked {
				for mi := 1; mi <= n; mi++ {
					if !c11Has(x.excluded, group.MemberIndex(mi)) {
						included = append(included, group.MemberIndex(mi))
					}
				}
				haveIncluded = true
			} else if !isDkg && x.listened {
				included = x.included
				haveIncluded = true
			}
			if !haveIncluded {
				continue
			}
			rk := c11SetKey(x.ready)
			readyOps := opsOf(x.ready)
			inclOps := opsOf(included)
			// -- per-observation clauses --
			for _, mi := range included {
				if !c11Has(x.ready, mi) {
					cls := "C10:included-member-not-ready"
					if s09 {
						cls = "C09:result-not-a-sublist-of-the-seats"
					}
					r.Failf(cls, "%s attempt %d, member %d: member %d is included although it is not in the ready set %v this member observed (included %v)",
						loop, a, o.m.idx, mi, x.ready, included)
					return
				}
			}
			if x.invoked && !c11Has(included, o.m.idx) && s10 {
				r.Failf("C10:excluded-member-ran-attempt", "%s attempt %d: member %d ran the attempt although it is not among the included members %v", loop, a, o.m.idx, included)
				return
			}
			if isDkg {
				if len(included) < params.GroupQuorum {
					cls := "C10:dkg-attempt-below-quorum"
					if s09 {
						cls = "C09:fewer-seats-than-requested"
					}
					var exOps []string
					for _, nd := range addrOrder {
						if readyOps[nd] > 0 && inclOps[nd] == 0 {
							exOps = append(exOps, fmt.Sprintf("op%d(%d seats)", nd, readyOps[nd]))
						}
					}
					cls = fmt.Sprintf("%s:excluded-%d-operators", cls, len(exOps))
					r.Failf(cls, "dkg attempt %d, member %d: selection kept %d of %d ready seats but the quorum is %d; excluded operators %v (seat layout %v, operators in address order %v)",
						a, o.m.idx, len(included), len(x.ready), params.GroupQuorum, exOps, seatNode, addrOrder)
					return
				}
				for nd := 0; nd < k; nd++ {
					if inclOps[nd] != 0 && inclOps[nd] != readyOps[nd] {
						cls := "C10:operator-partially-included"
						if s09 {
							cls = "C09:operator-seats-split"
						}
						r.Failf(cls, "dkg attempt %d, member %d: operator %d has %d ready seats but %d of them are included (ready %v, included %v)",
							a, o.m.idx, nd, readyOps[nd], inclOps[nd], x.ready, included)
						return
					}
				}
			} else {
				if s10 && len(included) != params.HonestThreshold {
					r.Failf("C10:signing-included-count-not-honest-threshold", "signing attempt %d, member %d: %d members included (%v), honest threshold is %d (ready %v)",
						a, o.m.idx, len(included), included, params.HonestThreshold, x.ready)
					return
				}
				if s10 && x.invoked {
					for mi := 1; mi <= n; mi++ {
						in := c11Has(included, group.MemberIndex(mi))
						ex := c11Has(x.excluded, group.MemberIndex(mi))
						if in == ex {
							r.Failf("C10:attempt-params-inconsistent", "signing attempt %d, member %d: member %d is included=%v for the done check but excluded=%v for the attempt", a, o.m.idx, mi, in, ex)
							return
						}
					}
				}
				if s09 && x.signSeatsObs {
					r.Probe("signing:seat-list-observed")
					inCnt, outCnt := map[int]int{}, map[int]int{}
					for _, nd := range x.signSeatsIn {
						inCnt[nd]++
					}
					for _, nd := range x.signSeatsOut {
						outCnt[nd]++
					}
					// sub-list (order kept)
					j := 0
					for _, nd := range x.signSeatsIn {
						if j < len(x.signSeatsOut) && x.signSeatsOut[j] == nd {
							j++
						}
					}
					if j != len(x.signSeatsOut) {
						r.Failf("C09:result-not-a-sublist-of-the-seats", "signing attempt %d, member %d: retry evaluation returned seats %v (operator per seat) which is not a sub-list of the ready seats %v", a, o.m.idx, x.signSeatsOut, x.signSeatsIn)
						return
					}
					if len(x.signSeatsOut) < params.HonestThreshold {
						r.Failf("C09:fewer-seats-than-requested", "signing attempt %d, member %d: retry evaluation returned %d seats %v, %d were requested (ready seats %v)", a, o.m.idx, len(x.signSeatsOut), x.signSeatsOut, params.HonestThreshold, x.signSeatsIn)
						return
					}
					if len(x.signSeatsOut) > params.HonestThreshold {
						r.Probe("signing:selection-holds-more-seats-than-requested")
					}
					for nd := 0; nd < k; nd++ {
						if outCnt[nd] != 0 && outCnt[nd] != inCnt[nd] {
							r.Failf("C09:operator-seats-split", "signing attempt %d, member %d: operator %d holds %d of the ready seats %v but only %d of them are in the returned seat list %v (requested %d)",
								a, o.m.idx, nd, inCnt[nd], x.signSeatsIn, outCnt[nd], x.signSeatsOut, params.HonestThreshold)
							return
						}
					}
				}
				if s09 && x.qualObserved {
					seats := 0
					for _, nd := range x.qualified {
						if readyOps[nd] == 0 {
							r.Failf("C09:result-not-a-sublist-of-the-seats", "signing attempt %d, member %d: operator %d selected although none of its seats is in the ready list %v", a, o.m.idx, nd, x.ready)
							return
						}
						seats += readyOps[nd]
					}
					if seats < params.HonestThreshold {
						r.Failf("C09:fewer-seats-than-requested", "signing attempt %d, member %d: selected operators %v hold %d ready seats, %d were requested (ready %v)",
							a, o.m.idx, x.qualified, seats, params.HonestThreshold, x.ready)
						return
					}
					for _, mi := range included {
						found := false
						for _, nd := range x.qualified {
							found = found || nd == seatNode[int(mi)-1]
						}
						if !found {
							r.Failf("C09:member-of-unselected-operator-included", "signing attempt %d, member %d: member %d included but its operator %d was not selected (%v)", a, o.m.idx, mi, seatNode[int(mi)-1], x.qualified)
							return
						}
					}
				}
			}
			// -- same ready set => same selection --
			if f, okf := group1[rk]; !okf {
				oc := o
				group1[rk] = &oc
				if isDkg {
					var ex []int
					for nd := 0; nd < k; nd++ {
						if readyOps[nd] > 0 && inclOps[nd] == 0 {
							ex = append(ex, nd)
						}
					}
					if _, seen := hist[rk]; !seen {
						histKeys = append(histKeys, rk)
					}
					hist[rk] = append(hist[rk], histEntry{a, ex})
					switch len(ex) {
					case 1:
						r.Probe("dkg:retry-excluded-single")
					case 2:
						r.Probe("dkg:retry-excluded-pair")
					case 3:
						r.Probe("dkg:retry-excluded-triplet")
					}
				}
			} else {
				var fIncl []group.MemberIndex
				if isDkg {
					for mi := 1; mi <= n; mi++ {
						if !c11Has(f.x.excluded, group.MemberIndex(mi)) {
							fIncl = append(fIncl, group.MemberIndex(mi))
						}
					}
				} else {
					fIncl = f.x.included
				}
				r.Probe(loop + ":selections-compared")
				if c11SetKey(fIncl) != c11SetKey(included) {
					cls := "C10:members-with-same-ready-set-disagree"
					if s09 {
						cls = "C09:members-disagree-on-selection"
					}
					r.Failf(cls, "%s attempt %d: members %d and %d both observed ready set %v but include %v and %v",
						loop, a, f.m.idx, o.m.idx, x.ready, fIncl, included)
					return
				}
				if s09 && !isDkg && f.x.signSeatsObs && x.signSeatsObs && fmt.Sprint(f.x.signSeatsOut) != fmt.Sprint(x.signSeatsOut) {
					r.Failf("C09:members-disagree-on-selection", "signing attempt %d: members %d and %d both observed ready set %v but the retry evaluation returned seat lists %v and %v",
						a, f.m.idx, o.m.idx, x.ready, f.x.signSeatsOut, x.signSeatsOut)
					return
				}
				if s09 && !isDkg && f.x.qualObserved && x.qualObserved && fmt.Sprint(f.x.qualified) != fmt.Sprint(x.qualified) {
					r.Failf("C09:members-disagree-on-selection", "signing attempt %d: members %d and %d both observed ready set %v but selected operators %v and %v",
						a, f.m.idx, o.m.idx, x.ready, f.x.qualified, x.qualified)
					return
				}
			}
			if len(group1) > 1 {
				r.Probe(loop + ":ready-sets-differ-between-members")
			}
		}
	}
	if s09 && isDkg {
		// history of one loop, per input (ready set): exclusions pairwise
		// distinct and ordered singles -> pairs -> triplets
		for _, rk := range histKeys {
			h := hist[rk]
			for i := range h {
				if len(h[i].excl) > 3 {
					r.Failf("C09:more-than-three-operators-excluded", "dkg attempt %d excluded operators %v (ready set %s)", h[i].att, h[i].excl, rk)
					return
				}
				if h[i].att > 1 && len(h[i].excl) == 0 {
					r.Failf("C09:retry-excluded-nobody", "dkg attempt %d (a retry) excluded no operator (ready set %s)", h[i].att, rk)
					return
				}
				for j := 0; j < i; j++ {
					if h[j].att > 1 && fmt.Sprint(h[j].excl) == fmt.Sprint(h[i].excl) {
						r.Failf("C09:exclusion-repeated", "dkg attempts %d and %d of one loop excluded the same operators %v (ready set %s)", h[j].att, h[i].att, h[i].excl, rk)
						return
					}
					if len(h[j].excl) > len(h[i].excl) {
						r.Failf("C09:exclusion-order", "dkg attempt %d excluded %d operators %v, the later attempt %d only %d %v (expected singles, then pairs, then triplets; ready set %s)",
							h[j].att, len(h[j].excl), h[j].excl, h[i].att, len(h[i].excl), h[i].excl, rk)
						return
					}
				}
			}
		}
	}
}

// c11CheckWindows: clauses of C11 on one member's record of one attempt.
func c11CheckWindows(r *verifsim.Run, loop string, m *c11Member, x, prev *c11Rec, win c11Window, s uint64) {
	n := x.n
	if n == 0 {
		r.Failf("C11:attempt-number-zero", "%s member %d announced for attempt 0", loop, m.idx)
		return
	}
	aS, aE, tO := win.annStart(s, n), win.annEnd(s, n), win.timeout(s, n)
	if x.dupAnn || (prev != nil && x.n <= prev.n) {
		r.Failf("C11:attempt-number-not-increasing", "%s member %d: attempt %d appears after attempt %d", loop, m.idx, x.n, prev.n)
		return
	}
	if x.annCalled && x.annCallH < aS {
		r.Failf("C11:announcement-before-window-start", "%s member %d attempt %d: announcement began at block %d, the window's announcement start is %d (loop start %d)", loop, m.idx, n, x.annCallH, aS, s)
		return
	}
	if x.annCalled && x.annRet && x.annCallH < aE && x.annRetH < aE {
		r.Failf("C11:announcement-ended-before-window-end", "%s member %d attempt %d: announcement ran from block %d to %d, its end block is %d", loop, m.idx, n, x.annCallH, x.annRetH, aE)
		return
	}
	if x.listened && x.listenTimeout != tO {
		r.Failf("C11:done-check-timeout-not-closed-form", "signing member %d attempt %d: done check armed with timeout block %d, closed form gives %d (loop start %d)", m.idx, n, x.listenTimeout, tO, s)
		return
	}
	if x.invoked {
		if x.number != n || x.start != aE || x.timeout != tO {
			r.Failf("C11:attempt-window-not-closed-form", "%s member %d attempt %d: attempt function got number=%d start=%d timeout=%d, closed form from loop start %d gives start=%d timeout=%d",
				loop, m.idx, n, x.number, x.start, x.timeout, s, aE, tO)
			return
		}
		if x.invokeH < aE {
			r.Failf("C11:attempt-before-start-block", "%s member %d attempt %d: attempt function invoked at block %d before its start block %d", loop, m.idx, n, x.invokeH, aE)
			return
		}
		if x.annCalled && x.annCallH >= aE {
			r.Failf("C11:attempt-after-announcement-passed", "%s member %d attempt %d: the member decided to take part at block %d although the announcement phase ended at %d, and ran the attempt", loop, m.idx, n, x.annCallH, aE)
			return
		}
	}
	if prev != nil && x.annCalled && prev.annCalled {
		pt := win.timeout(s, prev.n)
		if prev.invoked {
			pt = prev.timeout
		}
		if x.annCallH <= pt {
			r.Failf("C11:next-attempt-before-timeout", "%s member %d: attempt %d began at block %d, attempt %d times out at %d", loop, m.idx, n, x.annCallH, prev.n, pt)
			return
		}
	}
	if x.annCalled && x.annCallH >= aE {
		if loop == "signing" {
			// announcing readiness is taking part: the signing loop must skip
			// an attempt whose announcement phase is over (the DKG loop has
			// no such rule and is not judged here)
			r.Failf("C11:signing-announcement-after-window-passed", "signing member %d announced readiness for attempt %d at block %d although that attempt's announcement phase ended at block %d (loop start %d)", m.idx, n, x.annCallH, aE, s)
			return
		}
		r.Probe(loop + ":announcement-entered-after-window")
	}
	if prev != nil && prev.invoked && x.n > prev.n+1 {
		r.Probe(loop + ":attempts-skipped-after-own-attempt-overrun")
	}
}

// c11ForgedAnn: an announcement as a Byzantine node would put it on the wire.
type c11ForgedAnn struct {
	sender   uint32
	protocol string
	session  string
}

func (f *c11ForgedAnn) Type() string { return "protocol_announcer/announcement_message" }
func (f *c11ForgedAnn) Marshal() ([]byte, error) {
	return proto.Marshal(&announcerpb.AnnouncementMessage{SenderID: f.sender, ProtocolID: f.protocol, SessionID: f.session})
}

// c12AnnouncementOracle: a seat is in a member's ready set for attempt n only
// if a node that holds that seat published an announcement of that seat for
// that attempt (the member's own seat is ready by definition).
func c12AnnouncementOracle(r *verifsim.Run, members []*c11Member, seatNode []int, annSent map[[2]int]map[int]bool) {
	for _, m := range members {
		m.mu.Lock()
		recs := append([]*c11Rec{}, m.recs...)
		m.mu.Unlock()
		for _, x := range recs {
			if !x.annRet {
				continue
			}
			for _, mi := range x.ready {
				if mi == m.idx {
					continue
				}
				seat := int(mi)
				if seat < 1 || seat > len(seatNode) {
					r.Failf("C12:announcer-accepted-nonexistent-seat", "member %d attempt %d: ready set %v contains seat %d, the group has %d seats", m.idx, x.n, x.ready, seat, len(seatNode))
					return
				}
				if !annSent[[2]int{seat, int(x.n)}][seatNode[seat-1]] {
					var pubs []int
					for nd := range annSent[[2]int{seat, int(x.n)}] {
						pubs = append(pubs, nd)
					}
					sort.Ints(pubs)
					r.Failf("C12:announcer-accepted-seat-from-foreign-key", "member %d attempt %d: seat %d is in the ready set %v although its holder (node %d) never announced it for that attempt; announcements claiming that seat for that attempt were published only by nodes %v",
						m.idx, x.n, seat, x.ready, seatNode[seat-1], pubs)
					return
				}
			}
			r.Probe("c12:ready-set-checked")
		}
	}
}

// c36ReportOracle: the activity report of a finished signing loop - the input
// of the heartbeat's inactivity claim - names as inactive exactly the seats of
// the wallet's signing group that did not announce readiness for the
// successful attempt, and as active exactly those that did.
func c36ReportOracle(r *verifsim.Run, members []*c11Member, n int) {
	for _, m := range members {
		m.mu.Lock()
		recs := append([]*c11Rec{}, m.recs...)
		fin, ok, rep := m.finished, m.resOK, m.resReport
		act, inact, tmo := m.resActive, m.resInactive, m.resTimeout
		m.mu.Unlock()
		for _, x := range recs {
			r.Logf("obs member=%d att=%d ready=%v listen=%v/%d invoked=%v", m.idx, x.n, x.ready, x.listened, x.listenTimeout, x.invoked)
		}
		if !fin || !ok {
			continue
		}
		if !rep {
			r.Failf("C36:signing-result-without-activity-report", "member %d: signing loop returned a result without an activity report", m.idx)
			return
		}
		var x *c11Rec
		for _, y := range recs {
			if y.listened && y.listenTimeout == tmo && y.annRet {
				x = y
			}
		}
		if x == nil {
			continue
		}
		r.Probe("report:checked")
		var want []group.MemberIndex
		for s := 1; s <= n; s++ {
			if !c11Has(x.ready, group.MemberIndex(s)) {
				want = append(want, group.MemberIndex(s))
			}
		}
		if len(want) > 0 {
			r.Probe("report:some-members-inactive")
		}
		if c11SetKey(inact) != c11SetKey(want) {
			r.Failf("C36:inactive-members-not-complement-of-ready-set", "member %d, successful attempt %d: the signing group has %d seats and the seats that announced readiness are %v, so the inactive members are %v; the activity report names %v",
				m.idx, x.n, n, x.ready, want, inact)
			return
		}
		if c11SetKey(act) != c11SetKey(x.ready) {
			r.Failf("C36:active-members-not-the-ready-set", "member %d, successful attempt %d: ready set %v, activity report's active members %v", m.idx, x.n, x.ready, act)
			return
		}
	}
}
