package tbtc

// C13 (tECDSA result part and inactivity claim part). Lives in pkg/tbtc
// because the threshold gates (dkgResultSubmitter.SubmitResult -> GroupQuorum,
// inactivityClaimSubmitter.SubmitClaim -> HonestThreshold) are here and
// pkg/tbtc cannot be imported from the protocol packages.
//
// Honest seats run the REAL dkg.Publish (tECDSA result signing, verification
// and submission states on the real AsyncMachine, with the real
// dkgResultSigner and dkgResultSubmitter) or the REAL inactivity.PublishClaim
// (with the real inactivityClaimSigner / inactivityClaimSubmitter) over
// verifadapt.Net and the stub chain of c47.go. Byzantine seats and an outsider
// node inject forged signature messages (kinds in c13Kinds); the tape decides
// per receiver order, loss, duplicates and when the 100 ms transition polls
// happen.
//
// Oracle at the stub chain's submit call, on the signature map the submitter
// handed to Assemble*.

import (
	"context"
	"fmt"
	"sort"
	"testing"
	"testing/synctest"
	"time"

	"github.com/ipfs/go-log/v2"
	"google.golang.org/protobuf/proto"

	"github.com/keep-network/keep-core/pkg/chain"
	"github.com/keep-network/keep-core/pkg/chain/local_v1"
	"github.com/keep-network/keep-core/pkg/internal/verifadapt"
	"github.com/keep-network/keep-core/pkg/net"
	"github.com/keep-network/keep-core/pkg/operator"
	"github.com/keep-network/keep-core/pkg/protocol/group"
	"github.com/keep-network/keep-core/pkg/protocol/inactivity"
	inactivitypb "github.com/keep-network/keep-core/pkg/protocol/inactivity/gen/pb"
	"github.com/keep-network/keep-core/pkg/tecdsa/dkg"
	dkgpb "github.com/keep-network/keep-core/pkg/tecdsa/dkg/gen/pb"

	"math/big"

	"verifsim"
)

const c13Channel = "c13-signatures"

var c13Kinds = []string{
	"valid-support",
	"conflicting-hash",
	"bad-signature",
	"signature-over-other-hash",
	"foreign-key",
	"claims-other-index",
	"claims-receiver-index",
	"other-session",
	"replayed-honest-signature",
	"index-outside-group",
	"foreign-key-conflicting-then-valid",
}

type c13Seat struct {
	idx      int
	kind     int // 0 honest, 1 honest with divergent result/claim, 2 byzantine, 3 down
	excluded bool
	s        *c47Seat
	node     *verifadapt.NetNode
	ch       *verifadapt.Chan
	priv     *operator.PrivateKey
	pub      []byte
	hash     [32]byte
	done     bool
	err      error
}

type c13Flight struct {
	env    *verifadapt.Envelope
	left   []int
	forged bool
}

func init() {
	verifScenarios["C13"] = verifsim.Scenario{Bubble: true, Fn: c13Run}
}

func c13Run(t *testing.T, r *verifsim.Run) {
	c47Load()
	tp := r.T
	w := &c47World{r: r, quiet: true, nonce: 5}
	w.mode = []string{"dkg", "claim"}[tp.Choose("mode", 2)]
	w.n = 3 + tp.Choose("n", 4)
	h := w.n/2 + 1
	if h < w.n {
		h += tp.Choose("h", w.n-h) // h < n so that a dishonest remainder exists
	}
	q := h + tp.Choose("quorum", w.n-h+1)
	gp := &GroupParameters{GroupSize: w.n, GroupQuorum: q, HonestThreshold: h}
	need := q // documented gate of the tECDSA result: group quorum
	if w.mode == "claim" {
		need = h // documented gate of the inactivity claim: honest threshold
	}
	dis := w.n - h
	session := fmt.Sprintf("%x", 1000+tp.Choose("session", 50))

	nOps := 1 + tp.Choose("operators", w.n)
	type op struct {
		priv *operator.PrivateKey
		pub  *operator.PublicKey
		addr chain.Address
		raw  []byte
	}
	mkOp := func() op {
		priv, pub, err := operator.GenerateKeyPair(local_v1.DefaultCurve)
		if err != nil {
			panic(err)
		}
		s := local_v1.NewSigner(priv)
		return op{priv, pub, s.Address(), s.PublicKey()}
	}
	ops := []op{}
	for i := 0; i < nOps; i++ {
		ops = append(ops, mkOp())
	}
	outsider, stranger := mkOp(), mkOp()

	sn := verifadapt.NewNet()
	nd := &c47Node{i: 0, blocks: verifadapt.NewNodeBlocks(100)}
	w.nodes = []*c47Node{nd}
	w.seats = make([]*c47Seat, w.n+1)
	seats := make([]*c13Seat, w.n+1)
	selected := make(chain.Addresses, w.n)
	layout, kinds := []int{}, []int{}
	nExcl, nHonest := 0, 0
	for i := 1; i <= w.n; i++ {
		oi := (i - 1) % nOps
		if i > nOps {
			oi = tp.Choose("seat-operator", nOps)
		}
		layout = append(layout, oi)
		o := ops[oi]
		s := &c13Seat{idx: i, priv: o.priv, pub: o.raw}
		s.node = sn.AddNodeWithKey(o.priv, o.pub)
		s.ch = s.node.Channel(c13Channel)
		dkg.RegisterUnmarshallers(s.ch)
		inactivity.RegisterUnmarshallers(s.ch)
		selected[i-1] = o.addr
		// in the tECDSA result some seats are inactive/disqualified in
		// everybody's result; an inactivity claim group has no such notion
		if w.mode == "dkg" && nExcl < dis && tp.Chance("excluded", 1, 4) {
			s.excluded = true
			nExcl++
			s.kind = 3 - tp.Choose("excluded-silent", 2)
		} else {
			downW := 0 // a tECDSA result needs every operating member's message; a claim only the honest threshold
			if w.mode == "claim" {
				downW = 2
			}
			s.kind = tp.Weighted("seat-kind", 9, 1, 2, downW)
		}
		s.s = &c47Seat{idx: i, node: nd, sign: local_v1.NewSigner(o.priv)}
		w.seats[i] = s.s
		seats[i] = s
	}
	for _, s := range seats[1:] {
		if s.kind == 0 {
			nHonest++
		}
	}
	if nHonest == 0 {
		for _, s := range seats[1:] {
			if !s.excluded {
				s.kind = 0
				nHonest++
				break
			}
		}
	}
	if nHonest == 0 {
		seats[1].excluded, seats[1].kind = false, 0
	}
	for _, s := range seats[1:] {
		kinds = append(kinds, s.kind)
	}
	outNode := sn.AddNodeWithKey(outsider.priv, outsider.pub)

	mkGroup := func() *group.Group {
		g := group.NewGroup(dis, w.n)
		for _, s := range seats[1:] {
			if s.excluded {
				if s.idx%2 == 0 {
					g.MarkMemberAsInactive(group.MemberIndex(s.idx))
				} else {
					g.MarkMemberAsDisqualified(group.MemberIndex(s.idx))
				}
			}
		}
		return g
	}
	anyChain := &c47Chain{w: w, s: seats[1].s, nd: nd}
	var h0, h1 [32]byte
	startBlock := uint64(50)
	claim0 := inactivity.NewClaimPreimage(big.NewInt(5), c47Share.PublicKey(), []group.MemberIndex{1}, false)
	claim1 := inactivity.NewClaimPreimage(big.NewInt(5), c47Share.PublicKey(), []group.MemberIndex{1, 2}, true)
	if w.mode == "dkg" {
		res := &dkg.Result{Group: mkGroup(), PrivateKeyShare: c47Share}
		a, _ := anyChain.CalculateDKGResultSignatureHash(c47Share.PublicKey(), res.MisbehavedMembersIndexes(), startBlock)
		b, _ := anyChain.CalculateDKGResultSignatureHash(c47Share.PublicKey(), res.MisbehavedMembersIndexes(), startBlock+1)
		h0, h1 = a, b
	} else {
		a, _ := anyChain.CalculateInactivityClaimHash(claim0)
		b, _ := anyChain.CalculateInactivityClaimHash(claim1)
		h0, h1 = a, b
	}
	r.Logf("cfg mode=%s n=%d q=%d h=%d need=%d layout=%v kinds=%v excluded=%d", w.mode, w.n, q, h, need, layout, kinds, nExcl)

	verify := func(hash [32]byte, sig, pub []byte) bool {
		ok, err := seats[1].s.sign.VerifyWithPublicKey(hash[:], sig, pub)
		return err == nil && ok
	}
	submitted := map[int]bool{}
	cls := "C13:tecdsa-"
	if w.mode == "claim" {
		cls = "C13:claim-"
	}
	w.onSubmit = func(cs *c47Seat) {
		s := seats[cs.idx]
		sigs := cs.lastSigs
		submitted[cs.idx] = true
		keys := []int{}
		for k := range sigs {
			keys = append(keys, int(k))
		}
		sort.Ints(keys)
		desc := fmt.Sprintf("seat %d (mode=%s n=%d quorum=%d h=%d layout=%v kinds=%v) submitted %d signatures %v", s.idx, w.mode, w.n, q, h, layout, kinds, len(sigs), keys)
		own, ok := sigs[group.MemberIndex(s.idx)]
		if !ok || !verify(s.hash, own, s.pub) {
			r.Failf(cls+"own-signature-missing", "%s: its own valid signature is not in the set", desc)
			return
		}
		for _, ji := range keys {
			if ji == s.idx {
				continue
			}
			if ji < 1 || ji > w.n {
				r.Failf(cls+"signature-of-non-member", "%s: entry for index %d outside the group", desc, ji)
				return
			}
			if seats[ji].excluded {
				r.Failf(cls+"signature-of-non-operating-member", "%s: entry for seat %d which is inactive/disqualified in the submitter's result", desc, ji)
				return
			}
			if !verify(s.hash, sigs[group.MemberIndex(ji)], seats[ji].pub) {
				r.Failf(cls+"invalid-supporting-signature", "%s: the entry for seat %d does not verify over the submitter's own hash under the network key of seat %d's operator", desc, ji, ji)
				return
			}
		}
		if len(sigs) < need {
			r.Failf(cls+"submitted-below-threshold", "%s: fewer than the required %d", desc, need)
			return
		}
		if len(sigs) < w.n {
			r.Probe("submitted-with-partial-support-" + w.mode)
		}
		r.Probe("submission-checked-" + w.mode)
	}

	logger := log.Logger("verif-c13")
	ctx, cancel := context.WithCancel(context.Background())
	defer cancel()
	noWait := func(ctx context.Context, block uint64) error { return nil } // slots are C47's subject
	for _, s := range seats[1:] {
		if s.kind > 1 {
			s.hash = h0
			continue
		}
		s := s
		s.hash = h0
		if s.kind == 1 {
			s.hash = h1
			r.Fault("honest-seat-with-divergent-hash")
		}
		s.s.entered = true
		ch := &c47Chain{w: w, s: s.s, nd: nd}
		mv := group.NewMembershipValidator(logger, selected, s.s.sign)
		go func() {
			defer func() {
				if p := recover(); p != nil {
					r.Failf("panic:publish", "seat %d: %v", s.idx, p)
				}
				s.done = true
			}()
			if w.mode == "dkg" {
				sb := startBlock
				if s.kind == 1 {
					sb++
				}
				res := &dkg.Result{Group: mkGroup(), PrivateKeyShare: c47Share}
				s.err = dkg.Publish(ctx, logger, session, group.MemberIndex(s.idx), s.ch, mv,
					newDkgResultSigner(ch, sb),
					newDkgResultSubmitter(logger, ch, gp, &GroupSelectionResult{OperatorsAddresses: selected}, noWait), res)
			} else {
				cl := claim0
				if s.kind == 1 {
					cl = claim1
				}
				s.err = inactivity.PublishClaim(ctx, logger, session, group.MemberIndex(s.idx), s.ch, w.n, dis, mv,
					newInactivityClaimSigner(ch), newInactivityClaimSubmitter(logger, ch, gp, []uint32{}, noWait), cl)
			}
		}()
	}
	synctest.Wait()

	var pool []*c13Flight
	receivers := func(from int) []int {
		out := []int{}
		for _, s := range seats[1:] {
			if s.kind <= 1 && s.node.Index != from {
				out = append(out, s.idx)
			}
		}
		return out
	}
	var honestSent []*verifadapt.Envelope
	collect := func() {
		w.drainQuiet()
		for _, e := range sn.Drain() {
			pool = append(pool, &c13Flight{env: e, left: receivers(e.From)})
			honestSent = append(honestSent, e)
		}
	}
	collect()
	var forgers []*c13Seat
	for _, s := range seats[1:] {
		if s.kind == 2 {
			forgers = append(forgers, s)
		}
	}
	forgeBudget := 0
	if tp.Chance("forgeries", 3, 4) {
		forgeBudget = 1 + tp.Choose("forge-budget", 8)
	}
	dropW := []int{0, 1, 3}[tp.Weighted("network-quality", 3, 2, 1)]
	seq := uint64(1 << 20)
	typ := "tecdsa_dkg/result_signature_message"
	if w.mode == "claim" {
		typ = "protocol_inactivity/claim_signature_message"
	}
	marshal := func(sender int, hash [32]byte, sig, pub []byte, sess string) []byte {
		var b []byte
		var err error
		if w.mode == "dkg" {
			b, err = proto.Marshal(&dkgpb.ResultSignatureMessage{SenderID: uint32(sender), ResultHash: hash[:], Signature: sig, PublicKey: pub, SessionID: sess})
		} else {
			b, err = proto.Marshal(&inactivitypb.ClaimSignatureMessage{SenderID: uint32(sender), ClaimHash: hash[:], Signature: sig, PublicKey: pub, SessionID: sess})
		}
		if err != nil {
			panic(err)
		}
		return b
	}
	push := func(from *verifadapt.NetNode, payload []byte) {
		seq++
		pool = append(pool, &c13Flight{forged: true, left: receivers(from.Index), env: &verifadapt.Envelope{From: from.Index, Channel: c13Channel,
			Type: typ, Payload: payload, Seqno: seq, Ctx: context.Background(), Strategy: net.StandardRetransmissionStrategy}})
	}
	signWith := func(priv *operator.PrivateKey, hh [32]byte) []byte {
		sig, err := local_v1.NewSigner(priv).Sign(hh[:])
		if err != nil {
			panic(err)
		}
		return sig
	}
	forge := func() {
		var from *verifadapt.NetNode
		var priv *operator.PrivateKey
		var pub []byte
		idx := 0
		if p := tp.Choose("forger", len(forgers)+1); p < len(forgers) {
			b := forgers[p]
			from, priv, pub, idx = b.node, b.priv, b.pub, b.idx
		} else {
			from, priv, pub = outNode, outsider.priv, outsider.raw
			idx = 1 + tp.Choose("outsider-claims", w.n)
			r.Fault("forged-by-non-member")
		}
		fw := make([]int, len(c13Kinds))
		for i := range fw {
			fw[i] = 2
		}
		fw[0] = 5
		k := tp.Weighted("forge-kind", fw...)
		sender, hash, sig, key, sess := idx, h0, signWith(priv, h0), pub, session
		other := 1 + tp.Choose("other-seat", w.n)
		switch k {
		case 1:
			hash, sig = h1, signWith(priv, h1)
		case 2:
			sig = tp.Bytes("junk-sig", []int{0, 1, 64, 65, 70}[tp.Choose("junk-len", 5)])
		case 3:
			sig = signWith(priv, h1)
		case 4:
			key, sig = stranger.raw, signWith(stranger.priv, h0)
		case 5:
			sender = other
		case 6:
			rc := receivers(from.Index)
			sender = rc[tp.Choose("victim", len(rc))]
		case 7:
			sess = session + "f"
		case 8:
			if len(honestSent) > 0 {
				push(from, honestSent[tp.Choose("replayed", len(honestSent))].Payload)
				r.Fault("forged:" + c13Kinds[k])
				return
			}
		case 9:
			sender = []int{0, w.n + 1}[tp.Choose("bad-index", 2)]
		case 10:
			push(from, marshal(sender, h1, signWith(stranger.priv, h1), stranger.raw, sess))
		}
		push(from, marshal(sender, hash, sig, key, sess))
		r.Fault("forged:" + c13Kinds[k])
		r.Logf("forge from-node=%d claims=%d kind=%s", from.Index, sender, c13Kinds[k])
	}

	ticks := 0
	for steps := 0; ; steps++ {
		if r.Failed() {
			return
		}
		open := 0
		for _, s := range seats[1:] {
			if s.kind <= 1 && !s.done {
				open++
			}
		}
		if open == 0 || ticks > 40 {
			break
		}
		if steps > 700 {
			r.Inconclusive("step-cap")
			break
		}
		r.Step()
		type ev struct{ p, to int }
		var dl []ev
		for pi, f := range pool {
			for _, to := range f.left {
				if !seats[to].done {
					dl = append(dl, ev{pi, to})
				}
			}
		}
		wTick, wDel, wForge := 1, 0, 0
		if len(dl) > 0 {
			wDel = 10
		} else {
			wTick = 6
		}
		if forgeBudget > 0 {
			wForge = 3
		}
		switch tp.Weighted("event", wTick, wDel, wForge) {
		case 0:
			ticks++
			time.Sleep(100 * time.Millisecond) // lets the machines' transition polls fire
			synctest.Wait()
			r.AddSim(int64(100*time.Millisecond), 0)
			collect()
			r.Logf("tick %d", ticks)
		case 1:
			pick := dl[tp.Choose("deliver", len(dl))]
			f := pool[pick.p]
			fate := tp.Weighted("fate", 14, dropW, 1)
			if fate != 2 {
				nl := f.left[:0:0]
				for _, x := range f.left {
					if x != pick.to {
						nl = append(nl, x)
					}
				}
				f.left = nl
			}
			if fate == 1 {
				r.Fault("message-drop")
				r.Logf("drop from-node=%d seq=%d to=%d", f.env.From, f.env.Seqno, pick.to)
				break
			}
			if fate == 2 {
				r.Fault("message-duplicate")
			}
			if pick.p != 0 {
				r.NonTrivial()
			}
			sn.Deliver(f.env, seats[pick.to].node.Index)
			synctest.Wait()
			collect()
			r.Logf("deliver from-node=%d seq=%d forged=%v to=%d", f.env.From, f.env.Seqno, f.forged, pick.to)
		case 2:
			forgeBudget--
			forge()
		}
	}
	cancel()
	synctest.Wait()
	w.drainQuiet()
	for _, s := range seats[1:] {
		if s.kind <= 1 && !submitted[s.idx] {
			r.Probe("seat-did-not-submit-" + w.mode)
		}
	}
}
