package tbtc

// C22: coordination leader and action checklist are the same on every member.
//
// (a) in-protocol: all operators of a wallet (3-10 distinct operators,
//     repeated seats) run the real coordinate() for several consecutive
//     simulated windows on a simulated network with per-node block counters;
//     start order, block lag and delivery order are tape decisions.
// (b) side calls per window, on fresh executors whose wallet copy has a
//     permuted / re-repeated / de-duplicated operator list: getSeed, getLeader
//     and getActionsChecklist. This part is a pure-function check executed
//     inside the simulation (no schedule involved).
//
// Uses the world builder of c24.go.

import (
	"crypto/sha256"
	"fmt"
	"sync"
	"testing"
	"testing/synctest"

	"github.com/keep-network/keep-core/pkg/chain"
	"github.com/keep-network/keep-core/pkg/generator"
	"github.com/keep-network/keep-core/pkg/protocol/group"

	"verifsim"
)

func init() {
	verifScenarios["C22"] = verifsim.Scenario{Bubble: true, Fn: c22Run}
}

type c22Result struct {
	res *coordinationResult
	err error
	pan interface{}
	set bool
}

func c22SameChecklist(a, b []WalletActionType) bool {
	if len(a) != len(b) {
		return false
	}
	for i := range a {
		if a[i] != b[i] {
			return false
		}
	}
	return true
}

func c22Run(t *testing.T, r *verifsim.Run) {
	tp := r.T
	nOps := 3 + tp.Choose("operators", 8)
	maxExtra := 12 - nOps
	if maxExtra > 6 {
		maxExtra = 6
	}
	nSeats := nOps + tp.Choose("extra-seats", maxExtra+1)
	firstIndex := uint64(1 + tp.Choose("first-window", 8))
	nWindows := 2 + tp.Choose("windows", 4)
	w := c24Build(r, nOps, nSeats, firstIndex*c24Freq-uint64(1+tp.Choose("lead-in", 5)))
	r.Logf("cfg ops=%d seats=%v first=%d windows=%d", nOps, w.seatOp, firstIndex, nWindows)

	isOperator := func(a chain.Address) bool { return w.opByAddr(a) != nil }
	var mu sync.Mutex
	leadersSeen := map[int]bool{}

	for wi := 0; wi < nWindows && !r.Failed(); wi++ {
		index := firstIndex + uint64(wi)
		cb := index * c24Freq
		safeHash := c24PickHash(tp, w.pkh, index, tp.Chance("want-heartbeat-window", 1, 4))
		w.setSafeHash(cb, safeHash)
		refChecklist := c24RefChecklist(index, w.pkh, safeHash)
		refSeed := sha256.Sum256(append(append([]byte{}, w.pkh[:]...), safeHash[:]...))
		r.Logf("window %d checklist=%v", index, refChecklist)
		r.Step()
		if c24Contains(refChecklist, ActionHeartbeat) {
			r.Probe("heartbeat-window")
		}
		if index%4 == 0 {
			r.Probe("fourth-window")
		}

		// ---------------- (a) in-protocol ----------------
		// block views: everybody reaches the coordination block, some a few
		// blocks late (tape)
		for _, op := range w.ops {
			lag := uint64(0)
			if tp.Chance("block-lag", 1, 4) {
				lag = uint64(1 + tp.Choose("lag", 20))
				r.Fault("member-sees-window-late")
			}
			if h := op.blocks.Height(); cb+lag > h {
				r.AddSim(0, int64(cb+lag-h))
				op.blocks.Advance(cb + lag)
			}
			op.gen.mu.Lock()
			op.gen.requests = nil
			op.gen.pick = tp.Choose("proposal-pick", 5)
			op.gen.tag = 1000*index + uint64(op.idx) + 1
			op.gen.mu.Unlock()
		}
		synctest.Wait()
		w.net.Drain() // nothing expected

		// side call (b0): every member's own executor is asked for the leader
		// several times before the protocol run; all answers must agree. (A
		// single stable class for an election that depends on Go map order,
		// which would otherwise surface as a different symptom on each replay.)
		{
			var first chain.Address
			for _, op := range w.ops {
				sd, err := op.ce.getSeed(cb)
				if err != nil {
					r.Failf("C22:seed-error", "window %d: getSeed failed on op%d: %v", index, op.idx, err)
					break
				}
				for rep := 0; rep < 4 && !r.Failed(); rep++ {
					l := op.ce.getLeader(sd)
					if op.idx == 0 && rep == 0 {
						first = l
					}
					if l != first {
						r.Failf("C22:members-disagree-on-leader", "window %d: op%d (call %d) elects %s while op0 (call 0) elected %s for the same wallet, window and safe block hash", index, op.idx, rep, w.opName(l), w.opName(first))
					}
				}
			}
			if r.Failed() {
				break
			}
		}

		results := make([]*c22Result, nOps)
		order := tp.Perm("start-order", nOps)
		nonFifo := false
		for i, o := range order {
			if i != o {
				nonFifo = true
			}
		}
		if nonFifo {
			r.NonTrivial()
		}
		for _, o := range order {
			op := w.ops[o]
			res := &c22Result{}
			results[o] = res
			go func() {
				defer func() {
					if p := recover(); p != nil {
						mu.Lock()
						res.pan, res.set = p, true
						mu.Unlock()
					}
				}()
				cr, err := op.ce.coordinate(newCoordinationWindow(cb))
				mu.Lock()
				res.res, res.err, res.set = cr, err, true
				mu.Unlock()
			}()
			if tp.Chance("start-gap", 1, 3) {
				synctest.Wait()
			}
		}
		synctest.Wait()
		envs := w.net.Drain()
		var msgs []*c24Msg
		for _, e := range envs {
			if m := w.fromEnvelope(e); m != nil {
				msgs = append(msgs, m)
			}
		}
		if len(msgs) != 1 {
			senders := []int{}
			for _, m := range msgs {
				senders = append(senders, m.fromOp)
			}
			cls := "C22:several-leaders"
			if len(msgs) == 0 {
				cls = "C22:no-leader"
			}
			r.Failf(cls, "window %d: %d members took the leader branch and broadcast a coordination message (senders %v), want exactly 1", index, len(msgs), senders)
			break
		}
		lm := msgs[0]
		leader := w.ops[lm.fromOp]
		leadersSeen[leader.idx] = true
		// deliver to everybody else, order by tape
		dorder := tp.Perm("delivery-order", nOps)
		for _, o := range dorder {
			if o == leader.idx {
				continue
			}
			w.net.Deliver(lm.env, w.ops[o].node.Index)
			synctest.Wait()
		}
		// generator use: only the leader generated a proposal
		for _, op := range w.ops {
			op.gen.mu.Lock()
			n := len(op.gen.requests)
			var req []WalletActionType
			if n > 0 {
				req = op.gen.requests[0]
			}
			op.gen.mu.Unlock()
			if op == leader {
				if n != 1 {
					r.Failf("C22:leader-branch", "window %d: the sender op%d asked its proposal generator %d times, want 1", index, op.idx, n)
				} else if !c22SameChecklist(req, refChecklist) {
					r.Failf("C22:checklist-rule", "window %d (index %% 4 = %d): the leader's in-protocol checklist is %v, documented rule gives %v", index, index%4, req, refChecklist)
				}
			} else if n != 0 {
				r.Failf("C22:several-leaders", "window %d: op%d ran the leader's proposal generation although op%d broadcast the coordination message", index, op.idx, leader.idx)
			}
		}
		if r.Failed() {
			break
		}
		mu.Lock()
		for o, res := range results {
			switch {
			case !res.set:
				r.Failf("C22:coordinate-stuck", "window %d: coordinate() of op%d has not returned after the leader's message was delivered to everybody", index, o)
			case res.pan != nil:
				r.Failf("C22:coordinate-panic", "window %d: coordinate() of op%d panicked: %v", index, o, res.pan)
			case res.err != nil:
				r.Failf("C22:coordinate-error", "window %d: coordinate() of op%d failed: %v (leader op%d, proposal %s)", index, o, res.err, leader.idx, lm.action)
			case res.res == nil:
				r.Failf("C22:coordinate-error", "window %d: coordinate() of op%d returned nil result and nil error", index, o)
			}
		}
		if !r.Failed() {
			for o, res := range results {
				l := res.res.leader
				if !isOperator(l) {
					r.Failf("C22:leader-not-an-operator", "window %d: op%d computed a leader that is none of the wallet's operators", index, o)
					break
				}
				if l != leader.addr {
					r.Failf("C22:members-disagree-on-leader", "window %d: op%d computed leader %s, but %s took the leader branch (op0 computed %s)", index, o, w.opName(l), w.opName(leader.addr), w.opName(results[0].res.leader))
					break
				}
				p := res.res.proposal
				if p == nil || p.ActionType() != lm.action || c24Tag(p) != lm.tag {
					r.Failf("C22:members-disagree-on-checklist", "window %d: op%d ended with proposal %v, the leader proposed %s (tag %d) from its checklist", index, o, p, lm.action, lm.tag)
					break
				}
				if o != leader.idx && len(res.res.faults) != 0 {
					r.Failf("C22:honest-leader-faulted", "window %d: follower op%d recorded faults %v against an honest leader", index, o, res.res.faults)
					break
				}
			}
		}
		mu.Unlock()
		if r.Failed() {
			break
		}
		r.Probe("window-agreed")
		if len(leader.seats) > 1 {
			r.Probe("leader-with-several-seats")
		}

		// ---------------- (b) side calls on other views ----------------
		for _, op := range w.ops {
			// view kinds: 0 permuted seats, 1 extra repetitions, 2 distinct
			// operators only, 3 reversed
			kind := tp.Choose("view-kind", 4)
			base := append([]chain.Address{}, w.wal.signingGroupOperators...)
			var view []chain.Address
			switch kind {
			case 0:
				for _, i := range tp.Perm("view-perm", len(base)) {
					view = append(view, base[i])
				}
			case 1:
				view = base
				for k := 0; k < 1+tp.Choose("view-extra", 4); k++ {
					view = append(view, base[tp.Choose("view-dup", len(base))])
				}
				var pv []chain.Address
				for _, i := range tp.Perm("view-perm", len(view)) {
					pv = append(pv, view[i])
				}
				view = pv
			case 2:
				seen := map[chain.Address]bool{}
				for _, i := range tp.Perm("view-perm", len(base)) {
					if !seen[base[i]] {
						seen[base[i]] = true
						view = append(view, base[i])
					}
				}
			default:
				for i := len(base) - 1; i >= 0; i-- {
					view = append(view, base[i])
				}
			}
			vw := wallet{publicKey: w.wal.publicKey, signingGroupOperators: view}
			ce2 := newCoordinationExecutor(op.chain, vw, []group.MemberIndex{1}, op.addr, op.gen, op.ch, nil, generator.NewProtocolLatch(), nil)
			seed2, err := ce2.getSeed(cb)
			if err != nil {
				r.Failf("C22:seed-error", "window %d: getSeed failed on op%d: %v", index, op.idx, err)
				break
			}
			if seed2 != refSeed {
				r.Failf("C22:seed-rule", "window %d: op%d computed a seed different from sha256(wallet public key hash | safe block hash)", index, op.idx)
				break
			}
			for rep := 0; rep < 6; rep++ {
				l2 := ce2.getLeader(seed2)
				if l2 != leader.addr {
					cls := "C22:leader-depends-on-view-order"
					if kind == 1 || kind == 2 {
						cls = "C22:leader-depends-on-seat-repetition"
					}
					if rep > 0 {
						cls = "C22:leader-unstable-across-calls"
					}
					r.Failf(cls, "window %d: op%d with view kind %d (%d seats, call %d) elects %s, the protocol run elected %s", index, op.idx, kind, len(view), rep, w.opName(l2), w.opName(leader.addr))
					break
				}
				l3 := op.ce.getLeader(seed2)
				if l3 != leader.addr {
					r.Failf("C22:leader-unstable-across-calls", "window %d: op%d elects %s on a repeated call, the protocol run elected %s", index, op.idx, w.opName(l3), w.opName(leader.addr))
					break
				}
			}
			if r.Failed() {
				break
			}
			cl2 := ce2.getActionsChecklist(index, seed2)
			if !c22SameChecklist(cl2, refChecklist) {
				cls := "C22:checklist-rule"
				if len(cl2) > 0 && cl2[0] != ActionRedemption {
					cls = "C22:checklist-not-redemption-first"
				}
				r.Failf(cls, "window %d (index %% 4 = %d): op%d computes checklist %v, the documented rule gives %v", index, index%4, op.idx, cl2, refChecklist)
				break
			}
			r.Probe(fmt.Sprintf("view-kind-%d-checked", kind))
		}
		if r.Failed() {
			break
		}

		// close the window: everybody passes the active phase end
		for _, op := range w.ops {
			if h := op.blocks.Height(); cb+c24ActiveBlocks+20 > h {
				r.AddSim(0, int64(cb+c24ActiveBlocks+20-h))
				op.blocks.Advance(cb + c24ActiveBlocks + 20)
			}
		}
		synctest.Wait()
		w.net.Drain()
	}
	if len(leadersSeen) > 1 {
		r.Probe("leader-changed-between-windows")
	}
}
