package tbtc

// C47 (tBTC part): submission slots and early exit of
//   - dkgResultSubmitter.SubmitResult (dkg_submit.go),
//   - the result approval scheduled by dkgExecutor.executeDkgValidation (dkg.go),
//   - inactivityClaimSubmitter.SubmitClaim (inactivity.go).
//
// Every seat of a group runs the REAL code on the block counter of the node
// that holds the seat (operators may hold several seats) against a stub chain.
// The tape decides the mode, group size, seat-to-node layout, when each
// seat/node enters, per-node block arrival, when submitted transactions are
// mined, when each seat/node is notified (its upstream context is cancelled /
// its approval callback fires), competing outside submissions and chain
// errors.

import (
	"context"
	"crypto/ecdsa"
	"errors"
	"fmt"
	"math/big"
	"sort"
	"sync"
	"testing"
	"testing/synctest"

	"github.com/ipfs/go-log/v2"
	"golang.org/x/crypto/sha3"

	"github.com/keep-network/keep-core/pkg/chain"
	"github.com/keep-network/keep-core/pkg/internal/tecdsatest"
	"github.com/keep-network/keep-core/pkg/internal/verifadapt"
	"github.com/keep-network/keep-core/pkg/protocol/group"
	"github.com/keep-network/keep-core/pkg/protocol/inactivity"
	"github.com/keep-network/keep-core/pkg/subscription"
	"github.com/keep-network/keep-core/pkg/tecdsa"
	"github.com/keep-network/keep-core/pkg/tecdsa/dkg"

	"verifsim"
)

var (
	c47Once  sync.Once
	c47Share *tecdsa.PrivateKeyShare
)

func c47Load() {
	c47Once.Do(func() {
		data, err := tecdsatest.LoadPrivateKeyShareTestFixtures(1)
		if err != nil {
			panic(err)
		}
		c47Share = tecdsa.NewPrivateKeyShare(data[0])
	})
}

type c47Node struct {
	i      int // 0-based; operator id = i+1
	blocks *verifadapt.NodeBlocks
	seats  []*c47Seat

	// approval mode (node-level observation: ApproveDKGResult carries no index)
	handlers   map[int]func(*DKGResultApprovedEvent)
	nextHandle int
	entered    bool
	notified   bool
	pending    bool
	slots      []uint64
	approves   int
}

type c47Seat struct {
	idx  int
	node *c47Node

	entered, done bool
	err           error
	cancel        context.CancelFunc
	refs          []uint64
	slots         []uint64
	submits       int
	notified      bool
	observed      bool // the chain told it the work is no longer awaited
	pending       bool
	nSigs         int
	sign          chain.Signing                // C13 only
	lastSigs      map[group.MemberIndex][]byte // C13 only: map handed to Assemble*
	stateFault    bool
	submitFault   bool
	invalid       bool
}

type c47Tx struct {
	seat int
	node int
}

type c47World struct {
	mu    sync.Mutex // stub-side only: seats of one node call the approval stubs concurrently
	r     *verifsim.Run
	mode  string
	n     int
	nodes []*c47Node
	seats []*c47Seat // index 0 unused

	accepted bool
	stale    bool // superseded: state left AwaitingResult without a result
	mempool  []*c47Tx
	nonce    int64
	stop     bool

	params    *DKGParameters
	submitter int
	subBlock  uint64

	quiet     bool // C13: no C47 oracle at submission
	quietSubs []*c47Seat
	onSubmit  func(s *c47Seat)
}

// drainQuiet hands the submissions recorded since the last call to onSubmit,
// in seat order (simulator goroutine, at quiescence).
func (w *c47World) drainQuiet() {
	w.mu.Lock()
	subs := w.quietSubs
	w.quietSubs = nil
	w.mu.Unlock()
	sort.Slice(subs, func(a, b int) bool { return subs[a].idx < subs[b].idx })
	for _, s := range subs {
		w.r.Logf("submit seat=%d sigs=%d", s.idx, len(s.lastSigs))
		w.onSubmit(s)
	}
}

// presentSeats lists the seats that take part in the run (in large groups only
// a handful of seats at interesting indexes run; the others have no node here).
func (w *c47World) presentSeats() []*c47Seat {
	out := []*c47Seat{}
	for _, s := range w.seats[1:] {
		if s != nil {
			out = append(out, s)
		}
	}
	return out
}

// c47Blocks is the per-seat view of the node's block counter: it records the
// reference block the seat reads.
type c47Blocks struct {
	*verifadapt.NodeBlocks
	s *c47Seat
}

func (b *c47Blocks) CurrentBlock() (uint64, error) {
	h, err := b.NodeBlocks.CurrentBlock()
	b.s.refs = append(b.s.refs, h)
	return h, err
}

type c47Chain struct {
	Chain // nil: anything not modelled panics and is reported
	w     *c47World
	s     *c47Seat // nil in approval mode
	nd    *c47Node
}

func (c *c47Chain) BlockCounter() (chain.BlockCounter, error) {
	if c.s != nil {
		return &c47Blocks{c.nd.blocks, c.s}, nil
	}
	return c.nd.blocks, nil
}

func (c *c47Chain) Signing() chain.Signing { return c.s.sign }

func (c *c47Chain) CalculateDKGResultSignatureHash(pub *ecdsa.PublicKey, misbehaved []group.MemberIndex, startBlock uint64) (dkg.ResultSignatureHash, error) {
	return sha3.Sum256([]byte(fmt.Sprint(pub, misbehaved, startBlock))), nil
}

func (c *c47Chain) CalculateInactivityClaimHash(cl *inactivity.ClaimPreimage) (inactivity.ClaimHash, error) {
	return sha3.Sum256([]byte(fmt.Sprint(cl.Nonce, cl.WalletPublicKey, cl.InactiveMembersIndexes, cl.HeartbeatFailed))), nil
}

// --- DKG result submission

func (c *c47Chain) GetDKGState() (DKGState, error) {
	if c.s != nil && c.s.stateFault {
		c.w.r.Fault("state-query-error")
		return Idle, errors.New("injected: query failed")
	}
	st := AwaitingResult
	if c.w.accepted {
		st = Challenge
	} else if c.w.stale {
		st = Idle
	}
	if st != AwaitingResult && c.s != nil {
		c.s.observed = true
		c.w.r.Probe("entered-when-no-longer-awaiting")
	}
	return st, nil
}

func (c *c47Chain) AssembleDKGResult(submitter group.MemberIndex, pub *ecdsa.PublicKey, operating []group.MemberIndex,
	misbehaved []group.MemberIndex, sigs map[group.MemberIndex][]byte, gsr *GroupSelectionResult) (*DKGChainResult, error) {
	if c.s != nil {
		c.s.lastSigs = sigs
	}
	return &DKGChainResult{SubmitterMemberIndex: submitter, GroupPublicKey: []byte{1, 2, 3}, SigningMembersIndexes: operating}, nil
}

func (c *c47Chain) IsDKGResultValid(res *DKGChainResult) (bool, error) {
	if c.s != nil && c.s.invalid {
		c.w.r.Fault("result-declared-invalid")
		return false, nil
	}
	return true, nil
}

func (c *c47Chain) submitCommon(what string, asIdx int) error {
	w, s := c.w, c.s
	height := c.nd.blocks.Height()
	s.submits++
	if w.quiet {
		// several seats may get here in the same instant: only record, the
		// simulator evaluates the records in seat order at quiescence
		w.mu.Lock()
		w.quietSubs = append(w.quietSubs, s)
		w.mu.Unlock()
		return nil
	}
	w.r.Logf("%s seat=%d node=%d at=%d refs=%v slots=%v notified=%v observed=%v accepted=%v", what, s.idx, c.nd.i, height, s.refs, s.slots, s.notified, s.observed, w.accepted)
	cls := "C47:tbtc-" + w.mode
	if asIdx != s.idx {
		w.r.Failf(cls+"-foreign-index", "seat %d submitted as member %d", s.idx, asIdx)
	}
	if s.notified {
		w.r.Failf(cls+"-submit-after-notified", "seat %d submitted at block %d of its node after it had been notified (upstream context cancelled, system quiescent since) that the work was already done", s.idx, height)
	}
	if s.observed {
		w.r.Failf(cls+"-submit-after-observed", "seat %d submitted at block %d although the chain state it had read said the result/claim was no longer awaited", s.idx, height)
	}
	if len(s.slots) == 0 {
		w.r.Failf(cls+"-submit-without-slot", "seat %d submitted at block %d without waiting for a slot", s.idx, height)
	} else if sl := s.slots[len(s.slots)-1]; height < sl {
		w.r.Failf(cls+"-submit-before-slot", "seat %d submitted at block %d of its node, before its slot %d (reference blocks %v)", s.idx, height, sl, s.refs)
	}
	if s.submitFault {
		w.r.Fault("submit-error")
		return errors.New("injected: transaction failed")
	}
	if w.accepted || w.stale {
		w.r.Probe("submit-rejected-no-longer-awaited")
		return errors.New("execution reverted")
	}
	w.mempool = append(w.mempool, &c47Tx{seat: s.idx, node: c.nd.i})
	if len(w.mempool) > 1 {
		w.r.Probe("several-transactions-in-mempool")
	}
	return nil
}

func (c *c47Chain) SubmitDKGResult(res *DKGChainResult) error {
	return c.submitCommon("submit-dkg-result", int(res.SubmitterMemberIndex))
}

// --- inactivity claim

func (c *c47Chain) GetWallet(pkh [20]byte) (*WalletChainData, error) {
	return &WalletChainData{EcdsaWalletID: [32]byte{7}}, nil
}

func (c *c47Chain) GetInactivityClaimNonce(id [32]byte) (*big.Int, error) {
	if c.s.stateFault {
		c.w.r.Fault("state-query-error")
		return nil, errors.New("injected: query failed")
	}
	if c.w.nonce > 5 {
		c.s.observed = true
		c.w.r.Probe("entered-when-no-longer-awaiting")
	}
	return big.NewInt(c.w.nonce), nil
}

func (c *c47Chain) AssembleInactivityClaim(id [32]byte, inactive []group.MemberIndex, sigs map[group.MemberIndex][]byte, hb bool) (*InactivityClaim, error) {
	c.s.lastSigs = sigs
	return &InactivityClaim{WalletID: id, InactiveMembersIndices: inactive, HeartbeatFailed: hb}, nil
}

func (c *c47Chain) SubmitInactivityClaim(cl *InactivityClaim, nonce *big.Int, members []uint32) error {
	return c.submitCommon("submit-claim", c.s.idx)
}

// --- approval

func (c *c47Chain) DKGParameters() (*DKGParameters, error) { return c.w.params, nil }

func (c *c47Chain) OnDKGResultApproved(h func(*DKGResultApprovedEvent)) subscription.EventSubscription {
	nd := c.nd
	c.w.mu.Lock()
	defer c.w.mu.Unlock()
	nd.nextHandle++
	id := nd.nextHandle
	nd.handlers[id] = h
	return subscription.NewEventSubscription(func() {
		c.w.mu.Lock()
		defer c.w.mu.Unlock()
		delete(nd.handlers, id)
	})
}

func (c *c47Chain) ApproveDKGResult(res *DKGChainResult) error {
	w, nd := c.w, c.nd
	w.mu.Lock()
	defer w.mu.Unlock()
	height := nd.blocks.Height()
	nd.approves++
	w.r.LogUnordered("approve node=%d at=%d notified=%v approved=%v", nd.i, height, nd.notified, w.accepted)
	if nd.notified {
		w.r.Failf("C47:tbtc-approve-after-notified", "node %d (seats %v) called ApproveDKGResult at its block %d after its DKGResultApproved callbacks had been invoked (system quiescent since)", nd.i, c47SeatIdx(nd), height)
	}
	reached := 0
	for _, s := range nd.slots {
		if s <= height {
			reached++
		}
	}
	if nd.approves > reached {
		w.r.Failf("C47:tbtc-approve-before-slot", "node %d (seats %v) made its approval call number %d at its block %d but only %d of its approval slots %v had been reached", nd.i, c47SeatIdx(nd), nd.approves, height, reached, nd.slots)
	}
	if w.accepted {
		w.r.Probe("submit-rejected-no-longer-awaited")
		return errors.New("execution reverted: already approved")
	}
	w.mempool = append(w.mempool, &c47Tx{node: nd.i})
	if len(w.mempool) > 1 {
		w.r.Probe("several-transactions-in-mempool")
	}
	return nil
}

func c47SeatIdx(nd *c47Node) []int {
	out := []int{}
	for _, s := range nd.seats {
		out = append(out, s.idx)
	}
	return out
}

// waitFn is node.waitForBlockHeight on the simulated block counter, plus the
// observation of the requested block.
func (w *c47World) waitFn(nd *c47Node, s *c47Seat) waitForBlockFn {
	return func(ctx context.Context, target uint64) error {
		w.onSlot(nd, s, target)
		wait, err := nd.blocks.BlockHeightWaiter(target)
		if err != nil {
			return err
		}
		select {
		case <-wait:
		case <-ctx.Done():
		}
		return nil
	}
}

func (w *c47World) onSlot(nd *c47Node, s *c47Seat, target uint64) {
	cls := "C47:tbtc-" + w.mode
	if s != nil {
		ref := uint64(0)
		if len(s.refs) > 0 {
			ref = s.refs[len(s.refs)-1]
		}
		s.slots = append(s.slots, target)
		w.r.Logf("slot seat=%d node=%d block=%d ref=%d", s.idx, nd.i, target, ref)
		// each of the idx-1 members ahead needs an own, earlier slot at or after the reference block
		if target < ref+uint64(s.idx-1) {
			w.r.Failf(cls+"-slot-too-early-for-index", "seat %d took block %d as reference and waits for block %d: the %d members with lower indexes cannot all have distinct earlier slots", s.idx, ref, target, s.idx-1)
			w.stop = true
		}
		for _, o := range w.presentSeats() {
			if o == s || len(o.refs) == 0 || len(o.slots) == 0 {
				continue
			}
			if o.refs[len(o.refs)-1] != ref {
				continue
			}
			os := o.slots[len(o.slots)-1]
			if os == target {
				w.r.Failf(cls+"-slot-shared", "seats %d and %d both took block %d as reference and both wait for block %d", o.idx, s.idx, ref, target)
				w.stop = true
			} else if (o.idx < s.idx) != (os < target) {
				w.r.Failf(cls+"-slot-order", "seats %d and %d both took block %d as reference but wait for blocks %d and %d: the order of the slots does not follow the member indexes", o.idx, s.idx, ref, os, target)
				w.stop = true
			}
		}
		return
	}
	// approval: all seats share the submission block as reference
	w.mu.Lock()
	defer w.mu.Unlock()
	w.r.LogUnordered("approval-slot node=%d block=%d", nd.i, target)
	for _, o := range w.nodes {
		for _, t := range o.slots {
			if t == target {
				w.r.Failf(cls+"-slot-shared", "two seats (nodes %d and %d) wait for the same block %d to approve the result submitted at block %d (submitter seat %d, precedence period %d)", o.i, nd.i, target, w.subBlock, w.submitter, w.params.ApprovePrecedencePeriodBlocks)
				w.stop = true
			}
		}
	}
	nd.slots = append(nd.slots, target)
}

func init() {
	verifScenarios["C47"] = verifsim.Scenario{Bubble: true, Fn: c47Run}
}

func c47Run(t *testing.T, r *verifsim.Run) {
	c47Load()
	tp := r.T
	w := &c47World{r: r}
	w.mode = []string{"dkg", "approve", "claim"}[tp.Choose("mode", 3)]
	large := tp.Chance("large-group", 2, 5)
	if large {
		// production size is 100 seats; the seats that run are taken at and
		// around indexes where index arithmetic changes regime
		w.n = []int{100, 51, 20, 64, 255}[tp.Choose("large-n", 5)]
		r.Probe("large-group")
	} else {
		w.n = 2 + tp.Choose("n", 6)
	}
	present := []int{}
	if large {
		cands := []int{1, 2, 17, 18, 19, 20, 35, 36, 37, 51, 52, 53, 69, 70, 86, 87, 99, 100, 171, 172, 255, w.n - 1, w.n}
		seen := map[int]bool{}
		k := 2 + tp.Choose("present", 6)
		for len(present) < k {
			x := 1 + tp.Choose("present-any", w.n)
			if tp.Chance("present-boundary", 3, 4) {
				x = cands[tp.Choose("present-which", len(cands))]
			}
			if x < 1 || x > w.n || seen[x] {
				k--
				continue
			}
			seen[x] = true
			present = append(present, x)
		}
		if len(present) == 0 {
			present = append(present, w.n)
		}
		sort.Ints(present)
	} else {
		for i := 1; i <= w.n; i++ {
			present = append(present, i)
		}
	}
	nNodes := 1 + tp.Choose("nodes", len(present))
	h := w.n/2 + 1
	q := h + tp.Choose("quorum", w.n-h+1)
	gp := &GroupParameters{GroupSize: w.n, GroupQuorum: q, HonestThreshold: h}
	need := q
	if w.mode == "claim" {
		need = h
	}
	base := uint64(10 + tp.Choose("base", 50))
	for i := 0; i < nNodes; i++ {
		lag := uint64(0)
		if tp.Chance("node-lag", 1, 3) {
			lag = uint64(tp.Choose("lag", 8))
		}
		w.nodes = append(w.nodes, &c47Node{i: i, blocks: verifadapt.NewNodeBlocks(base + lag), handlers: map[int]func(*DKGResultApprovedEvent){}})
	}
	w.seats = make([]*c47Seat, w.n+1)
	members := make(chain.OperatorIDs, w.n)
	for i := range members {
		members[i] = chain.OperatorID(100000 + i) // operators that are not simulated
	}
	for pi, i := range present {
		nd := w.nodes[pi%nNodes]
		if pi >= nNodes {
			nd = w.nodes[tp.Choose("seat-node", nNodes)]
		}
		s := &c47Seat{idx: i, node: nd, nSigs: w.n}
		if tp.Chance("few-signatures", 1, 12) {
			s.nSigs = tp.Choose("n-sigs", need)
		} else if need < w.n {
			s.nSigs = need + tp.Choose("n-sigs-ok", w.n-need+1)
		}
		s.stateFault = tp.Chance("state-fault", 1, 25)
		s.submitFault = tp.Chance("submit-fault", 1, 15)
		s.invalid = w.mode == "dkg" && tp.Chance("invalid", 1, 25)
		nd.seats = append(nd.seats, s)
		w.seats[i] = s
		members[i-1] = chain.OperatorID(nd.i + 1)
	}
	w.params = &DKGParameters{SubmissionTimeoutBlocks: 100,
		ChallengePeriodBlocks:         uint64(1 + tp.Choose("challenge-period", 6)),
		ApprovePrecedencePeriodBlocks: uint64(1 + tp.Choose("precedence-period", 4))} // premise: a precedence period exists
	w.submitter = 1 + tp.Choose("submitter", w.n)
	if tp.Chance("submitter-present", 1, 2) {
		w.submitter = present[tp.Choose("submitter-which", len(present))]
	}
	w.subBlock = base - uint64(tp.Choose("submitted-before", 5))
	w.nonce = 5
	layout := []int{}
	for _, i := range present {
		layout = append(layout, w.seats[i].node.i)
	}
	r.Logf("cfg mode=%s n=%d present=%v on-nodes=%v q=%d h=%d base=%d params=%v submitter=%d", w.mode, w.n, present, layout, q, h, base, *w.params, w.submitter)
	logger := log.Logger("verif-c47")

	sigsFor := func(s *c47Seat) map[group.MemberIndex][]byte {
		sigs := map[group.MemberIndex][]byte{}
		for k := 0; k < s.nSigs; k++ {
			j := (s.idx-1+k)%w.n + 1
			sigs[group.MemberIndex(j)] = []byte{byte(j)}
		}
		return sigs
	}
	dkgResult := &dkg.Result{Group: group.NewGroup(w.n-h, w.n), PrivateKeyShare: c47Share}
	claim := inactivity.NewClaimPreimage(big.NewInt(5), c47Share.PublicKey(), []group.MemberIndex{1}, false)
	chainResult := &DKGChainResult{SubmitterMemberIndex: group.MemberIndex(w.submitter), GroupPublicKey: []byte{1, 2, 3}, Members: members}

	enterSeat := func(s *c47Seat) {
		s.entered = true
		ctx, cancel := context.WithCancel(context.Background())
		s.cancel = cancel
		ch := &c47Chain{w: w, s: s, nd: s.node}
		go func() {
			defer func() {
				if p := recover(); p != nil {
					r.Failf("panic:tbtc-submit", "seat %d: %v", s.idx, p)
				}
				s.done = true
			}()
			if w.mode == "dkg" {
				sub := newDkgResultSubmitter(logger, ch, gp, &GroupSelectionResult{}, w.waitFn(s.node, s))
				s.err = sub.SubmitResult(ctx, group.MemberIndex(s.idx), dkgResult, sigsFor(s))
			} else {
				sub := newInactivityClaimSubmitter(logger, ch, gp, []uint32{}, w.waitFn(s.node, s))
				s.err = sub.SubmitClaim(ctx, group.MemberIndex(s.idx), claim, sigsFor(s))
			}
		}()
		synctest.Wait()
		if s.nSigs < need && s.submits > 0 {
			r.Probe("submitted-below-signature-threshold")
		}
	}
	enterNode := func(nd *c47Node) {
		nd.entered = true
		de := &dkgExecutor{groupParameters: gp, chain: &c47Chain{w: w, nd: nd},
			operatorIDFn:   func() (chain.OperatorID, error) { return chain.OperatorID(nd.i + 1), nil },
			waitForBlockFn: w.waitFn(nd, nil)}
		de.executeDkgValidation(big.NewInt(1), w.subBlock, chainResult, [32]byte{9})
		synctest.Wait()
		// Earliest admissible approval block per seat, from the on-chain rules
		// the code documents: the submitter may approve one block after the
		// challenge period, everybody else once the precedence period is over,
		// and each of the idx-1 members ahead needs an own earlier slot. The
		// approval call carries no index, so compare as sorted lists.
		precedenceStart := w.subBlock + w.params.ChallengePeriodBlocks + 1
		var lows []uint64
		for _, st := range nd.seats {
			if st.idx == w.submitter {
				lows = append(lows, precedenceStart)
			} else {
				lows = append(lows, precedenceStart+w.params.ApprovePrecedencePeriodBlocks+uint64(st.idx-1))
			}
		}
		w.mu.Lock()
		got := append([]uint64(nil), nd.slots...)
		w.mu.Unlock()
		sort.Slice(lows, func(a, b int) bool { return lows[a] < lows[b] })
		sort.Slice(got, func(a, b int) bool { return got[a] < got[b] })
		if len(got) != len(lows) {
			r.Probe("approval-slots-count-differs-from-seats")
		} else {
			for k := range got {
				if got[k] < lows[k] {
					r.Failf("C47:tbtc-approve-slot-too-early-for-index", "node %d (seats %v, submitter seat %d) waits for approval blocks %v; the earliest admissible blocks for its seats are %v (result submitted at %d, challenge period %d, precedence period %d)", nd.i, c47SeatIdx(nd), w.submitter, got, lows, w.subBlock, w.params.ChallengePeriodBlocks, w.params.ApprovePrecedencePeriodBlocks)
					w.stop = true
					break
				}
			}
		}
	}
	accept := func() {
		w.accepted = true
		if w.mode == "claim" {
			w.nonce++
		}
		if w.mode == "approve" {
			for _, nd := range w.nodes {
				if nd.entered && len(nd.handlers) > 0 {
					nd.pending = true
				}
			}
			return
		}
		for _, s := range w.presentSeats() {
			if s.entered && !s.done {
				s.pending = true
			}
		}
	}
	outside := tp.Weighted("outside-competitor", 5, 1, 1) // none, accepted elsewhere, superseded (dkg only)

	for steps := 0; ; steps++ {
		if w.stop || r.Failed() {
			return
		}
		if steps > 800 {
			r.Inconclusive("step-cap")
			return
		}
		r.Step()
		type ev struct {
			kind string
			a    int
		}
		kinds := map[string][]ev{}
		if w.mode == "approve" {
			for _, nd := range w.nodes {
				if !nd.entered {
					kinds["enter"] = append(kinds["enter"], ev{"enter", nd.i})
				}
				if nd.pending && len(nd.handlers) > 0 {
					kinds["notify"] = append(kinds["notify"], ev{"notify", nd.i})
				}
			}
		} else {
			for _, s := range w.presentSeats() {
				if !s.entered {
					kinds["enter"] = append(kinds["enter"], ev{"enter", s.idx})
				} else if s.pending && !s.done {
					kinds["notify"] = append(kinds["notify"], ev{"notify", s.idx})
				}
			}
		}
		for _, nd := range w.nodes {
			if len(nd.blocks.PendingTargets()) > 0 {
				kinds["block"] = append(kinds["block"], ev{"block", nd.i})
			}
		}
		for ti := range w.mempool {
			kinds["mine"] = append(kinds["mine"], ev{"mine", ti})
		}
		if outside > 0 && !w.accepted && !w.stale && steps > 1 {
			kinds["outside"] = []ev{{"outside", 0}}
		}
		order := []string{"enter", "block", "mine", "notify", "outside"}
		weight := map[string]int{"enter": 6, "block": 7, "mine": 5, "notify": 4, "outside": 1}
		avail, ws := []string{}, []int{}
		for _, kd := range order {
			if len(kinds[kd]) > 0 {
				avail = append(avail, kd)
				ws = append(ws, weight[kd])
			}
		}
		if len(avail) == 0 {
			break
		}
		kd := avail[tp.Weighted("event", ws...)]
		pick := kinds[kd][tp.Choose(kd, len(kinds[kd]))]
		switch kd {
		case "enter":
			if w.mode == "approve" {
				enterNode(w.nodes[pick.a])
				r.Logf("enter node=%d at=%d", pick.a, w.nodes[pick.a].blocks.Height())
			} else {
				s := w.seats[pick.a]
				enterSeat(s)
				r.Logf("enter seat=%d node=%d at=%d sigs=%d done=%v", s.idx, s.node.i, s.node.blocks.Height(), s.nSigs, s.done)
			}
			if pick.a > 1 {
				r.NonTrivial()
			}
		case "block":
			nd := w.nodes[pick.a]
			tg := nd.blocks.PendingTargets()
			sort.Slice(tg, func(a, b int) bool { return tg[a] < tg[b] })
			next := tg[0]
			cur := nd.blocks.Height()
			to := next
			switch tp.Weighted("advance", 5, 2, 2) {
			case 1:
				to = cur + 1
			case 2:
				if next > cur+1 {
					to = next - 1
				}
			}
			if to > next {
				to = next
			}
			if to <= cur {
				to = cur + 1
			}
			nd.blocks.Advance(to)
			r.AddSim(0, int64(to-cur))
			synctest.Wait()
			r.Logf("block node=%d %d -> %d", nd.i, cur, to)
		case "mine":
			tx := w.mempool[pick.a]
			w.mempool = append(w.mempool[:pick.a:pick.a], w.mempool[pick.a+1:]...)
			if pick.a != 0 {
				r.Fault("mined-out-of-order")
			}
			if !w.accepted && !w.stale {
				accept()
				r.Logf("mined tx seat=%d node=%d: accepted", tx.seat, tx.node)
			} else {
				r.Probe("late-transaction-reverted")
				r.Logf("mined tx seat=%d node=%d: reverted", tx.seat, tx.node)
			}
		case "notify":
			if w.mode == "approve" {
				nd := w.nodes[pick.a]
				nd.pending = false
				for id := 1; id <= nd.nextHandle; id++ {
					if h, ok := nd.handlers[id]; ok {
						go h(&DKGResultApprovedEvent{BlockNumber: nd.blocks.Height()})
					}
				}
				synctest.Wait()
				nd.notified = true
				r.Probe("notified-while-waiting-for-slot")
				r.Logf("notify node=%d", nd.i)
			} else {
				s := w.seats[pick.a]
				s.pending = false
				waiting := len(s.slots) > 0 && s.submits == 0
				s.cancel() // what the upstream event callback does
				synctest.Wait()
				s.notified = true
				if waiting {
					r.Probe("notified-while-waiting-for-slot")
				}
				r.Logf("notify seat=%d done=%v", s.idx, s.done)
			}
		case "outside":
			if outside == 2 && w.mode == "dkg" {
				w.stale = true
				for _, s := range w.presentSeats() {
					if s.entered && !s.done {
						s.pending = true // the upstream timeout context fires
					}
				}
				r.Fault("superseded-without-result")
			} else {
				accept()
				r.Fault("competing-outside-submission")
			}
			outside = 0
			r.Logf("outside event")
		}
	}
	for _, s := range w.presentSeats() {
		if s.cancel != nil {
			s.cancel()
		}
	}
	synctest.Wait()
	subs := 0
	for _, s := range w.presentSeats() {
		subs += s.submits
	}
	for _, nd := range w.nodes {
		subs += nd.approves
	}
	if subs > 0 {
		r.Probe("some-seat-submitted-" + w.mode)
	}
}
