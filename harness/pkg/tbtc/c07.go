package tbtc

// E3 (C07, C08): real tECDSA key generation (dkg.Executor.Execute, AsyncMachine,
// tss-lib) for small groups with exclusion sets, under tape-chosen delivery
// interleavings and injected traffic from excluded members / other sessions;
// then the real finalSigningGroup/registerSigner path and real signing.Execute
// by an honest-threshold subset using the STORED member indexes.

import (
	"context"
	"crypto/ecdsa"
	"fmt"
	"math/big"
	"sort"
	"testing"
	"testing/synctest"
	"time"

	"github.com/bnb-chain/tss-lib/ecdsa/keygen"
	"github.com/ipfs/go-log/v2"
	"github.com/keep-network/keep-core/pkg/chain"
	"github.com/keep-network/keep-core/pkg/chain/local_v1"
	"github.com/keep-network/keep-core/pkg/internal/tecdsatest"
	"github.com/keep-network/keep-core/pkg/internal/verifadapt"
	"github.com/keep-network/keep-core/pkg/protocol/group"
	"github.com/keep-network/keep-core/pkg/tecdsa"
	"github.com/keep-network/keep-core/pkg/tecdsa/dkg"
	"github.com/keep-network/keep-core/pkg/tecdsa/signing"

	"verifsim"
)

func init() {
	verifScenarios["C07"] = verifsim.Scenario{Bubble: true, MinBudget: 6, Fn: func(t *testing.T, r *verifsim.Run) { c07Run(t, r, "C07") }}
	verifScenarios["C08"] = verifsim.Scenario{Bubble: true, MinBudget: 6, Fn: func(t *testing.T, r *verifsim.Run) {
		// one run in six is the node-level mode (c08node.go)
		if r.T.Weighted("c08-engine", 5, 1) == 1 {
			c08nodeRun(t, r)
			return
		}
		c07Run(t, r, "C08")
	}}
}

type c07Member struct {
	idx    group.MemberIndex // index at key generation
	node   *verifadapt.NetNode
	res    *dkg.Result
	err    error
	done   bool
	signer *signer
	sig    *signing.Result
	sigErr error
	sigDone bool
}

// c07Pump drives an asynchronous protocol to completion: at each quiescent
// point it drains the outboxes and lets the tape decide, per receiver node,
// which pending envelopes are delivered now (in which order), which are held
// back and which are duplicated; when nothing is deliverable it advances the
// fake clock so that the machines' 100 ms transition polls run.
type c07Pump struct {
	r       *verifsim.Run
	tp      *verifsim.Tape
	sn      *verifadapt.Net
	nodes   []int // receiver node indexes taking part
	pending map[int][]*verifadapt.Envelope
	channel string
	inject  func(e *verifadapt.Envelope) []*verifadapt.Envelope // extra traffic derived from a genuine envelope
	heldNode  int
	heldLeft  int
	chaos   bool
	// drip: one receiver gets its mail one or two messages per 100 ms tick, so
	// that receptions are spread over all its (also the short-lived) states
	drip     bool
	dripNode int
	dripInit bool
}

func (p *c07Pump) run(done func() bool, maxSteps int) bool {
	tp, r := p.tp, p.r
	idle := 0
	for step := 0; step < maxSteps; step++ {
		synctest.Wait()
		if done() {
			return true
		}
		r.Step()
		for _, e := range p.sn.Drain() {
			if e.Channel != p.channel {
				continue
			}
			all := []*verifadapt.Envelope{e}
			if p.inject != nil {
				all = append(p.inject(e), e)
			}
			for _, x := range all {
				for _, n := range p.nodes {
					p.pending[n] = append(p.pending[n], x)
				}
			}
		}
		if p.chaos && !p.dripInit {
			p.dripInit = true
			if tp.Chance("drip", 2, 3) {
				p.drip = true
				p.dripNode = p.nodes[tp.Choose("drip-who", len(p.nodes))]
				r.Fault("drip-fed-member")
			}
		}
		delivered := false
		// a member may be held back for a while so that the others run ahead
		if p.chaos && p.heldLeft == 0 && tp.Chance("hold-start", 1, 12) {
			p.heldNode = p.nodes[tp.Choose("hold-who", len(p.nodes))]
			p.heldLeft = 2 + tp.Choose("hold-len", 25)
			r.Fault("member-held-back")
		}
		for _, n := range p.nodes {
			q := p.pending[n]
			if len(q) == 0 {
				continue
			}
			if p.heldLeft > 0 && n == p.heldNode {
				continue
			}
			var now, later []*verifadapt.Envelope
			for _, e := range q {
				if p.chaos && tp.Chance("postpone", 1, 5) {
					later = append(later, e)
					r.Fault("delivery-postponed")
				} else {
					now = append(now, e)
				}
			}
			if len(now) > 1 && p.chaos {
				perm := tp.Perm("order", len(now))
				sh := make([]*verifadapt.Envelope, len(now))
				ident := true
				for i, j := range perm {
					sh[i] = now[j]
					if i != j {
						ident = false
					}
				}
				now = sh
				if !ident {
					r.Fault("reordered")
				}
			}
			if len(now) > 0 && p.chaos && tp.Chance("dup", 1, 6) {
				now = append(now, now[tp.Choose("dup-which", len(now))])
				r.Fault("duplicate")
			}
			if p.drip && n == p.dripNode && len(now) > 0 {
				k := 1 + tp.Choose("drip-count", 2)
				if k < len(now) {
					later = append(append([]*verifadapt.Envelope(nil), now[k:]...), later...)
					now = now[:k]
				}
			}
			p.pending[n] = later
			if len(now) > 0 {
				p.sn.DeliverBatch(now, n)
				delivered = true
			}
		}
		if p.heldLeft > 0 {
			p.heldLeft--
		}
		if !delivered || (p.drip && len(p.pending[p.dripNode]) > 0) {
			idle++
			time.Sleep(100 * time.Millisecond)
			r.AddSim(int64(100*time.Millisecond), 0)
		} else {
			idle = 0
		}
	}
	return false
}

func c07Run(t *testing.T, r *verifsim.Run, mode string) {
	tp := r.T
	type gp struct{ n, q, h int }
	configs := []gp{{3, 3, 2}, {4, 3, 3}, {5, 4, 3}, {5, 3, 3}, {4, 3, 2}}
	cfg := configs[tp.Weighted("group", 1, 1, 2, 3, 1)]
	params := &GroupParameters{GroupSize: cfg.n, GroupQuorum: cfg.q, HonestThreshold: cfg.h}
	// exclusion set leaving at least the quorum
	maxEx := cfg.n - cfg.q
	nEx := 0
	if maxEx > 0 {
		w := make([]int, maxEx+1)
		for i := range w {
			w[i] = 1 + i
		}
		nEx = tp.Weighted("excluded-count", w...)
	}
	perm := tp.Perm("excluded-who", cfg.n)
	excluded := map[int]bool{}
	var exList []group.MemberIndex
	for i := 0; i < nEx; i++ {
		excluded[perm[i]+1] = true
		exList = append(exList, group.MemberIndex(perm[i]+1))
	}
	sort.Slice(exList, func(i, j int) bool { return exList[i] < exList[j] })
	chaos := tp.Chance("chaos", 3, 4)
	injectOn := tp.Chance("inject", 2, 3)
	r.Logf("cfg mode=%s n=%d quorum=%d honest=%d excluded=%v chaos=%v inject=%v", mode, cfg.n, cfg.q, cfg.h, exList, chaos, injectOn)

	fixtures, err := tecdsatest.LoadPrivateKeyShareTestFixtures(cfg.n)
	if err != nil {
		panic(err)
	}
	logger := log.Logger("verif-tecdsa")
	sn := verifadapt.NewNet()
	var addrs []chain.Address
	var signingChain chain.Signing
	members := make([]*c07Member, cfg.n)
	for i := 1; i <= cfg.n; i++ {
		nn := sn.AddNode(local_v1.DefaultCurve)
		if signingChain == nil {
			signingChain = local_v1.NewSigner(nn.Priv)
		}
		a, err := signingChain.PublicKeyToAddress(nn.Pub)
		if err != nil {
			panic(err)
		}
		addrs = append(addrs, a)
		dkg.RegisterUnmarshallers(nn.Channel("dkg"))
		members[i-1] = &c07Member{idx: group.MemberIndex(i), node: nn}
	}
	mv := group.NewMembershipValidator(logger, addrs, signingChain)
	seed := big.NewInt(int64(100000 + tp.Choose("seed", 100000)))
	session := "verif-dkg-session"
	ctx, cancel := context.WithCancel(context.Background())
	defer cancel()

	var operating []*c07Member
	var nodes []int
	for _, m := range members {
		if excluded[int(m.idx)] {
			continue
		}
		operating = append(operating, m)
		nodes = append(nodes, m.node.Index)
		m := m
		pp := fixtures[int(m.idx)-1].LocalPreParams
		ex := dkg.VerifNewExecutor(logger, []*keygen.LocalPreParams{&pp}, 1)
		synctest.Wait() // the pool worker fills the pool
		go func() {
			defer func() {
				if p := recover(); p != nil {
					m.err = fmt.Errorf("panic: %v", p)
					m.done = true
				}
			}()
			m.res, m.err = ex.Execute(ctx, logger, seed, session, m.idx, cfg.n, cfg.n-cfg.h, append([]group.MemberIndex(nil), exList...), m.node.Channel("dkg"), mv)
			m.done = true
		}()
	}
	// injected traffic: an excluded member's node re-broadcasts operating
	// members' protocol messages under its own (validly held) seat, and an
	// operating member's other session talks on the same channel.
	forgedSeq := uint64(500000)
	inject := func(e *verifadapt.Envelope) []*verifadapt.Envelope {
		var out []*verifadapt.Envelope
		if !injectOn {
			return nil
		}
		if len(exList) > 0 && tp.Chance("inject-excluded", 1, 3) {
			x := exList[tp.Choose("inject-excluded-who", len(exList))]
			if pl, ok := verifadapt.PBSetVarint(e.Payload, 1, uint64(x)); ok {
				forgedSeq++
				out = append(out, &verifadapt.Envelope{From: members[int(x)-1].node.Index, Channel: e.Channel, Type: e.Type, Payload: pl, Seqno: forgedSeq})
				r.Fault("message-from-excluded-member")
			}
		}
		if tp.Chance("inject-session", 1, 2) {
			// a different operating member's content under a victim's seat and
			// key, but in another session: must be ignored
			v := operating[tp.Choose("inject-session-victim", len(operating))]
			if pl, ok := verifadapt.PBSetVarint(e.Payload, 1, uint64(v.idx)); ok {
				if pl2, n := verifadapt.PBReplaceBytes(pl, []byte(session), []byte(session+"-other")); n == 1 && members[e.From].idx != v.idx {
					forgedSeq++
					out = append(out, &verifadapt.Envelope{From: v.node.Index, Channel: e.Channel, Type: e.Type, Payload: pl2, Seqno: forgedSeq})
					r.Fault("message-from-other-session")
				}
			}
		}
		return out
	}
	pump := &c07Pump{r: r, tp: tp, sn: sn, nodes: nodes, pending: map[int][]*verifadapt.Envelope{}, channel: "dkg", inject: inject, chaos: chaos}
	allDone := func() bool {
		for _, m := range operating {
			if !m.done {
				return false
			}
		}
		return true
	}
	if !pump.run(allDone, 3000) {
		if injectOn || chaos {
			// the only thing that differs from the benign twin is the schedule and
			// the injected traffic, both of which must not influence the outcome
			r.Failf(mode+":dkg-did-not-complete", "operating members did not all complete key generation within the step budget (excluded %v, inject=%v chaos=%v): done=%v", exList, injectOn, chaos, c07Done(operating))
		} else {
			r.Failf(mode+":dkg-did-not-complete-benign", "benign key generation did not complete (excluded %v)", exList)
		}
		return
	}
	// ---- C07 oracle ----
	var refKey []byte
	wantMis := fmt.Sprint(exList)
	if len(exList) == 0 {
		wantMis = "[]"
	}
	for _, m := range operating {
		if m.err != nil {
			r.Failf(mode+":dkg-member-error", "operating member %d returned error: %v (excluded %v)", m.idx, m.err, exList)
			return
		}
		kb, err := m.res.GroupPublicKeyBytes()
		if err != nil {
			r.Failf(mode+":dkg-no-key", "member %d: %v", m.idx, err)
			return
		}
		if refKey == nil {
			refKey = kb
		} else if string(refKey) != string(kb) {
			r.Failf(mode+":wallet-keys-differ", "operating members output different wallet public keys (excluded %v)", exList)
			return
		}
		mis := m.res.MisbehavedMembersIndexes()
		got := fmt.Sprint(mis)
		if len(mis) == 0 {
			got = "[]"
		}
		if got != wantMis {
			r.Failf(mode+":misbehaved-list", "member %d lists misbehaving members %v, want exactly the excluded set %v", m.idx, mis, exList)
			return
		}
	}
	r.Probe("dkg-completed")
	if len(exList) > 0 {
		r.Probe("dkg-with-exclusions")
	}
	if mode == "C07" && !tp.Chance("also-sign", 1, 3) {
		return
	}

	// ---- registration through the real tBTC path ----
	for _, m := range operating {
		reg, rerr := newWalletRegistry(&mockPersistenceHandle{}, func(pk *ecdsa.PublicKey) ([32]byte, error) {
			var id [32]byte
			copy(id[:], pk.X.Bytes())
			return id, nil
		})
		if rerr != nil {
			panic(rerr)
		}
		de := &dkgExecutor{groupParameters: params, walletRegistry: reg}
		s, err := de.registerSigner(m.res, m.idx, chain.Addresses(addrs))
		if err != nil {
			r.Failf(mode+":register-signer-error", "member %d: registerSigner failed: %v", m.idx, err)
			return
		}
		m.signer = s
	}
	k := len(operating)
	finalOps := operating[0].signer.wallet.signingGroupOperators
	// C08 clause: the stored index maps to the key-generation party identity
	for _, m := range operating {
		d := m.signer.privateKeyShare.Data()
		fi := int(m.signer.signingGroupMemberIndex)
		if fi < 1 || fi > len(d.Ks) || d.Ks[fi-1].Cmp(d.ShareID) != 0 {
			r.Failf(mode+":stored-index-not-own-party", "member with key-generation index %d is stored under signing index %d, which does not address its own key-generation party identity (excluded %v)", m.idx, fi, exList)
			return
		}
		if string(operatorsKey(m.signer.wallet.signingGroupOperators)) != string(operatorsKey(finalOps)) {
			r.Failf(mode+":final-groups-differ", "members store different final signing groups")
			return
		}
		if fi <= len(finalOps) && finalOps[fi-1] != addrs[int(m.idx)-1] {
			r.Failf(mode+":stored-index-wrong-operator", "signing index %d of member %d points at another operator", fi, m.idx)
			return
		}
	}
	// ---- signing by an honest-threshold subset ----
	sperm := tp.Perm("signers", k)
	// the honest threshold exactly (what production trims to) or, sometimes,
	// a larger quorum of the final group
	nSigners := cfg.h
	if k > cfg.h {
		w := make([]int, k-cfg.h+1)
		w[0] = 3
		for i := 1; i < len(w); i++ {
			w[i] = 1
		}
		nSigners += tp.Weighted("signers-above-threshold", w...)
		if nSigners > cfg.h {
			r.Probe("signing-quorum-above-threshold")
		}
	}
	inSet := map[int]bool{}
	for i := 0; i < nSigners; i++ {
		inSet[sperm[i]] = true
	}
	var signers []*c07Member
	var sigExcluded []group.MemberIndex
	var snodes []int
	for i, m := range operating {
		if inSet[i] {
			signers = append(signers, m)
			snodes = append(snodes, m.node.Index)
		} else {
			sigExcluded = append(sigExcluded, m.signer.signingGroupMemberIndex)
		}
	}
	sort.Slice(sigExcluded, func(i, j int) bool { return sigExcluded[i] < sigExcluded[j] })
	sigSession := "verif-sign-1"
	msg := new(big.Int).SetBytes(tp.Bytes("message", 32))
	smv := group.NewMembershipValidator(logger, finalOps, signingChain)
	sctx, scancel := context.WithCancel(context.Background())
	defer scancel()
	for _, m := range operating {
		signing.RegisterUnmarshallers(m.node.Channel("sign"))
	}
	for _, m := range signers {
		m := m
		go func() {
			defer func() {
				if p := recover(); p != nil {
					m.sigErr = fmt.Errorf("panic: %v", p)
					m.sigDone = true
				}
			}()
			m.sig, m.sigErr = signing.Execute(sctx, logger, msg, sigSession, m.signer.signingGroupMemberIndex, m.signer.privateKeyShare,
				k, k-cfg.h, append([]group.MemberIndex(nil), sigExcluded...), m.node.Channel("sign"), smv)
			m.sigDone = true
		}()
	}
	// injected traffic during signing: confirmations of the property's "stored
	// index" clause need hostile traffic too - messages from final-group members
	// excluded from this signing attempt, messages claiming a signer's seat
	// from another operator's key, and other-session messages of valid signers
	byFinal := map[group.MemberIndex]*c07Member{}
	for _, m := range operating {
		byFinal[m.signer.signingGroupMemberIndex] = m
	}
	sinject := func(e *verifadapt.Envelope) []*verifadapt.Envelope {
		var out []*verifadapt.Envelope
		if !injectOn {
			return nil
		}
		if len(sigExcluded) > 0 && tp.Chance("sinject-excluded", 1, 3) {
			x := sigExcluded[tp.Choose("sinject-excluded-who", len(sigExcluded))]
			if pl, ok := verifadapt.PBSetVarint(e.Payload, 1, uint64(x)); ok {
				forgedSeq++
				out = append(out, &verifadapt.Envelope{From: byFinal[x].node.Index, Channel: e.Channel, Type: e.Type, Payload: pl, Seqno: forgedSeq})
				r.Fault("signing-message-from-excluded-member")
			}
		}
		if len(signers) > 1 && tp.Chance("sinject-claim", 1, 3) {
			v := signers[tp.Choose("sinject-claim-victim", len(signers))]
			a := signers[tp.Choose("sinject-claim-attacker", len(signers))]
			if a != v && members[e.From] != v {
				if pl, ok := verifadapt.PBSetVarint(e.Payload, 1, uint64(v.signer.signingGroupMemberIndex)); ok {
					forgedSeq++
					out = append(out, &verifadapt.Envelope{From: a.node.Index, Channel: e.Channel, Type: e.Type, Payload: pl, Seqno: forgedSeq})
					r.Fault("signing-message-claiming-foreign-seat")
				}
			}
		}
		if tp.Chance("sinject-session", 1, 3) {
			v := signers[tp.Choose("sinject-session-victim", len(signers))]
			if pl, ok := verifadapt.PBSetVarint(e.Payload, 1, uint64(v.signer.signingGroupMemberIndex)); ok && members[e.From] != v {
				if pl2, n := verifadapt.PBReplaceBytes(pl, []byte(sigSession), []byte(sigSession+"-other")); n == 1 {
					forgedSeq++
					out = append(out, &verifadapt.Envelope{From: v.node.Index, Channel: e.Channel, Type: e.Type, Payload: pl2, Seqno: forgedSeq})
					r.Fault("signing-message-from-other-session")
				}
			}
		}
		return out
	}
	spump := &c07Pump{r: r, tp: tp, sn: sn, nodes: snodes, pending: map[int][]*verifadapt.Envelope{}, channel: "sign", chaos: chaos, inject: sinject}
	sigAll := func() bool {
		for _, m := range signers {
			if !m.sigDone {
				return false
			}
		}
		return true
	}
	r.Logf("signing: final group %d, signers (keygen idx) %v, excluded final idx %v", k, c07Idx(signers), sigExcluded)
	if !spump.run(sigAll, 6000) {
		r.Failf(mode+":signing-did-not-complete", "honest-threshold subset %v (key-generation indexes) of the final group could not sign (excluded at keygen %v)", c07Idx(signers), exList)
		return
	}
	pub, _ := operating[0].res.GroupPublicKey()
	var refSig *tecdsa.Signature
	for _, m := range signers {
		if m.sigErr != nil {
			r.Failf(mode+":signing-member-error", "signer (keygen idx %d, stored idx %d) returned error: %v", m.idx, m.signer.signingGroupMemberIndex, m.sigErr)
			return
		}
		s := m.sig.Signature
		if refSig == nil {
			refSig = s
		} else if !refSig.Equals(s) {
			r.Failf(mode+":signatures-differ", "signers returned different signatures")
			return
		}
		if !ecdsa.Verify(pub, msg.Bytes(), s.R, s.S) {
			// msg as 32-byte hash
			h := make([]byte, 32)
			msg.FillBytes(h)
			if !ecdsa.Verify(pub, h, s.R, s.S) {
				r.Failf(mode+":signature-invalid", "signature does not verify under the wallet public key (excluded at keygen %v, signers %v)", exList, c07Idx(signers))
				return
			}
		}
		half := new(big.Int).Rsh(pub.Curve.Params().N, 1)
		if s.S.Cmp(half) > 0 {
			r.Failf(mode+":high-s", "signature has a high S value")
			return
		}
	}
	r.Probe("signing-completed")
	if len(exList) > 0 {
		r.Probe("signing-after-exclusions")
	}
}

func operatorsKey(a []chain.Address) []byte {
	var b []byte
	for _, x := range a {
		b = append(b, []byte(x.String())...)
		b = append(b, '|')
	}
	return b
}

func c07Idx(ms []*c07Member) []int {
	out := []int{}
	for _, m := range ms {
		out = append(out, int(m.idx))
	}
	return out
}

func c07Done(ms []*c07Member) []bool {
	out := []bool{}
	for _, m := range ms {
		out = append(out, m.done)
	}
	return out
}
