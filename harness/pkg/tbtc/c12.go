package tbtc

// C12 (tBTC parts): the property names wallet coordination and readiness
// announcements among the protocol steps that must never act on a message
// whose claimed member index is not held by the sending network key. Both are
// already exercised by full engines of other properties (C24 follower engine:
// forged coordination messages under foreign / leader / out-of-range seats;
// C11 retry-loop engine: real announcer under forged announcements). This
// scenario runs those engines under the C12 key so that their oracles also
// decide C12; violation classes keep the engine's own prefix.

import (
	"testing"

	"verifsim"
)

func init() {
	verifScenarios["C12"] = verifsim.Scenario{Bubble: true, Fn: c12Run}
}

func c12Run(t *testing.T, r *verifsim.Run) {
	switch r.T.Weighted("c12-engine", 1, 1) {
	case 0:
		c24Run(t, r)
	default:
		c11Engine(t, r, "C12")
	}
}
