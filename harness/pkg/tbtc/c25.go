package tbtc

// C25: a wallet never runs two actions at the same time. The real
// walletDispatcher is driven by batches of simultaneous operations (dispatches
// from separate goroutines and completions of gated execute() calls); the
// tape decides the batches, the wallets, the action types, the order in which
// actions end and their outcome.

import (
	"crypto/ecdsa"
	"crypto/elliptic"
	"errors"
	"fmt"
	"math/big"
	"sync"
	"testing"
	"testing/synctest"

	"github.com/keep-network/keep-core/pkg/chain"
	"github.com/keep-network/keep-core/pkg/tecdsa"

	"verifsim"
)

func init() {
	verifScenarios["C25"] = verifsim.Scenario{Bubble: true, Fn: c25Run}
}

type c25Scenario struct {
	mu       sync.Mutex
	gates    *verifsim.Gates
	inflight []int    // per wallet: execute() calls currently running
	double   []string // descriptions of observed overlaps
	outcome  []error  // per wallet: what the running action returns when released
	extraSeq int
}

type c25Action struct {
	sc     *c25Scenario
	id     int
	w      int
	wal    wallet
	typ    WalletActionType
	starts int // guarded by sc.mu
	ends   int
}

func (a *c25Action) wallet() wallet               { return a.wal }
func (a *c25Action) actionType() WalletActionType { return a.typ }
func (a *c25Action) execute() error {
	sc := a.sc
	sc.mu.Lock()
	a.starts++
	sc.inflight[a.w]++
	label := fmt.Sprintf("w%d", a.w)
	if sc.inflight[a.w] > 1 {
		sc.double = append(sc.double, fmt.Sprintf("wallet %d: action #%d (%s) started while another action of the same wallet was executing", a.w, a.id, a.typ))
		sc.extraSeq++
		label = fmt.Sprintf("w%d-extra%d", a.w, sc.extraSeq)
	}
	sc.mu.Unlock()

	sc.gates.PointAs(label, "execute")

	sc.mu.Lock()
	sc.inflight[a.w]--
	a.ends++
	err := sc.outcome[a.w]
	sc.mu.Unlock()
	return err
}

// c25KeyPool: private scalars of secp256k1 keys by shape of the public key.
// Searched once per process over small scalars (deterministic): keys whose X
// and/or Y coordinate has a leading zero byte (about 1 in 128 each) have a
// shorter big.Int.Bytes() than the fixed-width encoding.
var c25KeyPool struct {
	once                         sync.Once
	normal, shortX, shortY, both []int64
}

func c25Keys() (normal, shortX, shortY, both []int64) {
	c25KeyPool.once.Do(func() {
		kp := &c25KeyPool
		for d := int64(2); d < 40000; d++ {
			x, y := tecdsa.Curve.ScalarBaseMult(big.NewInt(d).Bytes())
			sx, sy := x.BitLen() <= 248, y.BitLen() <= 248
			switch {
			case sx && sy:
				if len(kp.both) < 2 {
					kp.both = append(kp.both, d)
				}
			case sx:
				if len(kp.shortX) < 4 {
					kp.shortX = append(kp.shortX, d)
				}
			case sy:
				if len(kp.shortY) < 4 {
					kp.shortY = append(kp.shortY, d)
				}
			default:
				if len(kp.normal) < 4 {
					kp.normal = append(kp.normal, d)
				}
			}
			if len(kp.shortX) >= 4 && len(kp.shortY) >= 4 && len(kp.normal) >= 4 && (len(kp.both) >= 1 || d > 3000) {
				break
			}
		}
	})
	return c25KeyPool.normal, c25KeyPool.shortX, c25KeyPool.shortY, c25KeyPool.both
}

func c25Run(t *testing.T, r *verifsim.Run) {
	tp := r.T
	sc := &c25Scenario{gates: verifsim.NewGates()}
	lockLeaked := false
	defer func() {
		// with a leaked dispatcher lock the released actions would block on a
		// sync.Mutex in their clean-up and the bubble could never end; leave
		// them parked (durably blocked) instead
		if !lockLeaked {
			sc.gates.ReleaseAll()
		}
	}()

	nW := 2 + tp.Choose("wallets", 3)
	steps := 6 + tp.Choose("steps", 30)
	wallets := make([]wallet, nW)
	kNormal, kShortX, kShortY, kBoth := c25Keys()
	usedKey := map[int64]bool{}
	shapes := make([]string, nW)
	for i := range wallets {
		// key shape by tape: 0 ordinary, 1 Y with a leading zero byte, 2 X with
		// a leading zero byte, 3 both
		pools := [][]int64{kNormal, kShortY, kShortX, kBoth}
		names := []string{"plain", "shortY", "shortX", "shortXY"}
		wk := []int{3, 2, 2, 1}
		if len(kBoth) == 0 {
			wk[3] = 0
		}
		shape := tp.Weighted("wallet-key-shape", wk...)
		if len(pools[shape]) == 0 {
			shape = 0
		}
		var d int64
		for _, c := range pools[shape] {
			if !usedKey[c] {
				d = c
				break
			}
		}
		if d == 0 { // pool of that shape exhausted
			shape = 0
			for c := int64(50001); ; c++ {
				if !usedKey[c] {
					d = c
					break
				}
			}
		}
		usedKey[d] = true
		shapes[i] = names[shape]
		if shape != 0 {
			r.Fault("wallet-key-" + names[shape])
		}
		x, y := tecdsa.Curve.ScalarBaseMult(big.NewInt(d).Bytes())
		wallets[i] = wallet{publicKey: &ecdsa.PublicKey{Curve: tecdsa.Curve, X: x, Y: y}}
	}
	// a wallet value whose public key is not on the wallet curve (P-256): the
	// dispatcher cannot encode it; dispatching it must fail promptly and must
	// not disturb anybody else.
	p256 := elliptic.P256()
	bx, by := p256.ScalarBaseMult(big.NewInt(4711).Bytes())
	badWallet := wallet{publicKey: &ecdsa.PublicKey{Curve: p256, X: bx, Y: by}}
	sc.inflight = make([]int, nW)
	sc.outcome = make([]error, nW)
	r.Logf("cfg wallets=%d shapes=%v steps=%d", nW, shapes, steps)

	wd := newWalletDispatcher()
	types := []WalletActionType{ActionNoop, ActionHeartbeat, ActionDepositSweep, ActionRedemption, ActionMovingFunds, ActionMovedFundsSweep}

	// model
	busy := make([]bool, nW)       // an accepted action has not ended yet
	hadAction := make([]bool, nW)  // the wallet ran at least one action that ended
	lastFailed := make([]bool, nW) // ... and the last one returned an error
	running := make([]*c25Action, nW)
	var all []*c25Action
	nextID := 0

	type op struct {
		release bool
		w       int
		act     *c25Action
		err     error
		pan     interface{}
		done    bool
	}

	// lockFree probes the dispatcher's mutex at quiescence (in-package
	// white-box probe): nothing is running, so nobody may hold it; if it is
	// held, every further dispatch and every completion would block forever
	// (and, blocking on a sync.Mutex, could not even be waited out by the
	// simulator). Reported as the liveness violation it causes.
	lockFree := func(after string) bool {
		if wd.actionsMutex.TryLock() {
			wd.actionsMutex.Unlock()
			return true
		}
		lockLeaked = true
		r.Failf("C25:dispatch-blocked", "the dispatcher's lock is still held at quiescence after %s: every later dispatch for every wallet blocks forever", after)
		return false
	}

	for s := 0; s < steps && !r.Failed(); s++ {
		r.Step()
		if tp.Chance("dispatch-foreign-curve-wallet", 1, 8) {
			// alone in its step: if the dispatcher mishandled it, operations
			// started together with it could block on a sync.Mutex, which the
			// simulator cannot wait out
			nextID++
			a := &c25Action{sc: sc, id: nextID, w: 0, wal: badWallet, typ: types[tp.Choose("action-type", len(types))]}
			var err error
			var pan interface{}
			finished := false
			go func() {
				defer func() {
					p := recover()
					sc.mu.Lock()
					pan, finished = p, true
					sc.mu.Unlock()
				}()
				e := wd.dispatch(a)
				sc.mu.Lock()
				err = e
				sc.mu.Unlock()
			}()
			synctest.Wait()
			sc.mu.Lock()
			e, p, fin, st := err, pan, finished, a.starts
			sc.mu.Unlock()
			r.Fault("foreign-curve-wallet-dispatched")
			r.Logf("step dispatch(foreign-curve wallet) finished=%v failed=%v", fin, e != nil)
			switch {
			case !fin:
				r.Failf("C25:dispatch-blocked", "dispatch for a wallet whose key is not on the wallet curve has not returned at quiescence")
			case p != nil:
				r.Failf("C25:dispatch-panic", "dispatch for a wallet whose key is not on the wallet curve panicked: %v", p)
			case e == nil || st != 0:
				r.Failf("C25:unencodable-wallet-accepted", "dispatch for a wallet whose key is not on the wallet curve returned %v and execute() ran %d times; want an error and no execution", e, st)
			case errors.Is(e, errWalletBusy):
				r.Failf("C25:unexpected-error", "dispatch for a never-used wallet with a foreign-curve key returned errWalletBusy")
			}
			if r.Failed() {
				return
			}
			if !lockFree("a failed dispatch (wallet key not on the wallet curve)") {
				return
			}
			busyAny := false
			for w := 0; w < nW; w++ {
				if busy[w] {
					busyAny = true
				}
			}
			if busyAny {
				r.Probe("foreign-curve-dispatch-while-wallets-busy")
			}
			continue
		}
		nOps := 1 + tp.Weighted("batch", 5, 3, 2, 1, 1)
		var ops []*op
		relW := map[int]bool{}
		dispW := map[int]bool{}
		for i := 0; i < nOps; i++ {
			// candidates for release: busy wallets not already touched by a
			// dispatch in this batch
			var rel []int
			for w := 0; w < nW; w++ {
				if busy[w] && !relW[w] && !dispW[w] {
					rel = append(rel, w)
				}
			}
			doRel := len(rel) > 0 && tp.Chance("release", 2, 5)
			if doRel {
				w := rel[tp.Choose("release-wallet", len(rel))]
				relW[w] = true
				ops = append(ops, &op{release: true, w: w})
				continue
			}
			var cand []int
			for w := 0; w < nW; w++ {
				if !relW[w] {
					cand = append(cand, w)
				}
			}
			if len(cand) == 0 {
				continue
			}
			w := cand[tp.Choose("dispatch-wallet", len(cand))]
			dispW[w] = true
			nextID++
			wal := wallets[w]
			if tp.Chance("wallet-alias", 1, 4) {
				// the same wallet seen through another value: fresh key object,
				// different operator list
				wal = wallet{
					publicKey:             &ecdsa.PublicKey{Curve: tecdsa.Curve, X: new(big.Int).Set(wal.publicKey.X), Y: new(big.Int).Set(wal.publicKey.Y)},
					signingGroupOperators: []chain.Address{"0xAA", "0xBB"},
				}
			}
			a := &c25Action{sc: sc, id: nextID, w: w, wal: wal, typ: types[tp.Choose("action-type", len(types))]}
			all = append(all, a)
			ops = append(ops, &op{w: w, act: a})
		}
		if len(ops) == 0 {
			continue
		}
		if len(ops) > 1 {
			r.Fault("simultaneous-operations")
		}
		// outcomes of the actions released in this batch
		for _, o := range ops {
			if o.release {
				sc.mu.Lock()
				if tp.Chance("action-fails", 1, 3) {
					sc.outcome[o.w] = errors.New("c25: action failed")
				} else {
					sc.outcome[o.w] = nil
				}
				sc.mu.Unlock()
			}
		}
		// run the batch: all operations start together
		startCh := make(chan struct{})
		for _, o := range ops {
			o := o
			if o.release {
				continue
			}
			go func() {
				defer func() {
					p := recover()
					sc.mu.Lock()
					o.pan = p
					o.done = true
					sc.mu.Unlock()
				}()
				<-startCh
				err := wd.dispatch(o.act)
				sc.mu.Lock()
				o.err = err
				sc.mu.Unlock()
			}()
		}
		synctest.Wait()
		close(startCh)
		for _, o := range ops {
			if o.release {
				sc.gates.Release(fmt.Sprintf("w%d", o.w))
			}
		}
		synctest.Wait()

		// ---- oracle for this step ----
		sc.mu.Lock()
		double := append([]string(nil), sc.double...)
		blocked := -1
		for _, o := range ops {
			if !o.release && !o.done {
				blocked = o.w
			}
		}
		sc.mu.Unlock()
		if blocked >= 0 {
			r.Failf("C25:dispatch-blocked", "a dispatch for wallet %d has not returned at quiescence (dispatch must not wait for any action)", blocked)
			return
		}

		desc := ""
		anyBusyBefore := false
		for w := 0; w < nW; w++ {
			if busy[w] {
				anyBusyBefore = true
			}
		}
		// releases first (they are independent of this batch's dispatches:
		// no wallet has both)
		for _, o := range ops {
			if !o.release {
				continue
			}
			a := running[o.w]
			sc.mu.Lock()
			ends := a.ends
			failed := sc.outcome[o.w] != nil
			sc.mu.Unlock()
			desc += fmt.Sprintf(" end(w%d,fail=%v)", o.w, failed)
			if ends != 1 {
				r.Failf("C25:harness-release", "released action #%d of wallet %d did not end (ends=%d)", a.id, o.w, ends)
				return
			}
			busy[o.w] = false
			running[o.w] = nil
			hadAction[o.w] = true
			lastFailed[o.w] = failed
			if failed {
				r.Fault("action-returned-error")
			}
			r.Probe("action-ended")
		}
		// dispatches, grouped per wallet
		for w := 0; w < nW; w++ {
			var ds []*op
			for _, o := range ops {
				if !o.release && o.w == w {
					ds = append(ds, o)
				}
			}
			if len(ds) == 0 {
				continue
			}
			accepted := 0
			var acc *c25Action
			for _, o := range ds {
				if o.pan != nil {
					r.Failf("C25:dispatch-panic", "dispatch for wallet %d panicked: %v", w, o.pan)
					return
				}
				switch {
				case o.err == nil:
					accepted++
					acc = o.act
				case errors.Is(o.err, errWalletBusy):
				default:
					r.Failf("C25:unexpected-error", "dispatch for wallet %d returned %v (want nil or errWalletBusy)", w, o.err)
					return
				}
			}
			desc += fmt.Sprintf(" dispatch(w%d x%d -> %d accepted)", w, len(ds), accepted)
			if len(ds) > 1 {
				r.Probe("same-wallet-contention")
			}
			if busy[w] {
				if accepted > 0 {
					r.Failf("C25:busy-wallet-accepted", "wallet %d was executing action #%d (%s); %d of %d simultaneous dispatches for it were accepted instead of errWalletBusy", w, running[w].id, running[w].typ, accepted, len(ds))
					return
				}
				r.Probe("busy-refused")
				continue
			}
			if accepted > 1 {
				r.Failf("C25:two-accepted", "wallet %d was idle; %d of %d simultaneous dispatches were accepted (at most one action may run)", w, accepted, len(ds))
				return
			}
			if accepted == 0 {
				otherBusy := false
				for x := 0; x < nW; x++ {
					if x != w && (busy[x] || relW[x] || dispW[x]) {
						otherBusy = true
					}
				}
				switch {
				case hadAction[w]:
					r.Failf("C25:not-available-after-end", "wallet %d is idle (its last action ended, failed=%v, and the system was quiescent) but all %d dispatches were refused", w, lastFailed[w], len(ds))
				case otherBusy:
					r.Failf("C25:blocked-by-other-wallet", "wallet %d never ran an action and is idle, another wallet is busy or being dispatched at the same time; all %d dispatches for it were refused", w, len(ds))
				default:
					r.Failf("C25:idle-wallet-refused", "wallet %d is idle but all %d dispatches were refused", w, len(ds))
				}
				return
			}
			// exactly one accepted: it must be executing by now (bounded
			// liveness: within this step, i.e. at quiescence)
			sc.mu.Lock()
			st := acc.starts
			sc.mu.Unlock()
			if st == 0 {
				r.Failf("C25:accepted-not-started", "dispatch of action #%d for idle wallet %d was accepted but execute() has not started at quiescence (other wallets busy: %v)", acc.id, w, anyBusyBefore)
				return
			}
			if anyBusyBefore {
				r.Probe("accepted-while-other-wallet-busy")
			}
			if hadAction[w] {
				r.Probe("accepted-after-previous-action-ended")
				if lastFailed[w] {
					r.Probe("accepted-after-failed-action")
				}
			}
			busy[w] = true
			running[w] = acc
		}
		r.Logf("step%s", desc)
		if !lockFree("a batch of dispatches/completions") {
			return
		}
		if len(double) > 0 {
			r.Failf("C25:two-actions-in-flight", "%s", double[0])
			return
		}
		// every action: executed at most once, refused ones never
		sc.mu.Lock()
		for _, a := range all {
			isRunning := false
			for w := 0; w < nW; w++ {
				if running[w] == a {
					isRunning = true
				}
			}
			if a.starts > 1 {
				r.Failf("C25:action-executed-twice", "action #%d of wallet %d executed %d times", a.id, a.w, a.starts)
			} else if a.starts == 1 && a.ends == 0 && !isRunning {
				r.Failf("C25:refused-action-executed", "action #%d of wallet %d is executing although its dispatch was refused", a.id, a.w)
			}
		}
		sc.mu.Unlock()
	}
}
