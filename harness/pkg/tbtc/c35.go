package tbtc

// C35: signing done check. The real signingDoneCheck (listen / signalDone /
// waitUntilAllDone) of every member of a signing group runs over the
// simulated broadcast network inside a synctest bubble. The tape decides the
// seat layout, the included set, who starts when, which confirmations are
// sent (honest signalDone and forged ones: excluded/foreign seats, wrong
// message or attempt, late end block, other signature, duplicates), every
// delivery (order, loss, duplication, per receiver) and the fake-clock steps
// between the waiters' 100 ms polls.
//
// Oracle (written from the statement, from the delivered history): when a
// waiter reports a signature, every included member must have an acceptable
// confirmation delivered to that waiter (authenticated sender controls the
// claimed seat, seat is included, same message, same attempt, end block
// within the timeout) carrying the reported signature; the reported end block
// is the latest of the included members' end blocks.

import (
	"context"
	"fmt"
	"math/big"
	"sort"
	"sync"
	"testing"
	"testing/synctest"
	"time"

	"github.com/ipfs/go-log/v2"
	"github.com/keep-network/keep-core/pkg/chain"
	"github.com/keep-network/keep-core/pkg/chain/local_v1"
	"github.com/keep-network/keep-core/pkg/internal/verifadapt"
	"github.com/keep-network/keep-core/pkg/net"
	"github.com/keep-network/keep-core/pkg/operator"
	"github.com/keep-network/keep-core/pkg/protocol/group"
	"github.com/keep-network/keep-core/pkg/tecdsa"
	"github.com/keep-network/keep-core/pkg/tecdsa/signing"

	"verifsim"
)

func init() {
	verifScenarios["C35"] = verifsim.Scenario{Bubble: true, Fn: c35Run}
}

// c35Key returns a deterministic operator key (so that addresses and their
// order are identical in every replay).
func c35Key(i int) (*operator.PrivateKey, *operator.PublicKey) {
	d := big.NewInt(int64(7919*(i+1) + 13))
	x, y := local_v1.DefaultCurve.ScalarBaseMult(d.Bytes())
	priv := &operator.PrivateKey{
		PublicKey: operator.PublicKey{Curve: operator.Secp256k1, X: x, Y: y},
		D:         d,
	}
	return priv, &priv.PublicKey
}

type c35Conf struct {
	sig int
	end uint64
}

type c35Member struct {
	idx      group.MemberIndex
	node     int
	included bool
	sdc      *signingDoneCheck
	ctx      context.Context
	cancel   context.CancelFunc

	signals  bool
	endBlock uint64

	mu        sync.Mutex
	listening bool
	waiting   bool
	finished  bool
	res       *signing.Result
	end       uint64
	err       error
	panicked  string

	started bool
	parked  bool
	checked bool
	// model, from the delivered history
	okConf   map[group.MemberIndex][]c35Conf // acceptable confirmations per included seat
	exclConf map[group.MemberIndex]bool      // otherwise valid confirmations of non-included seats
	validAny map[group.MemberIndex]bool      // seats with any confirmation valid apart from inclusion
}

func (m *c35Member) state() (listening, waiting, finished bool) {
	m.mu.Lock()
	defer m.mu.Unlock()
	return m.listening, m.waiting, m.finished
}

type c35Flight struct {
	env  *verifadapt.Envelope
	msg  *signingDoneMessage
	sig  int
	left []int // receiver nodes not yet served
	id   int
}

// c35Run: two engines behind one scenario key. Mode 0 drives the done check
// directly (one attempt, arbitrary confirmation histories); mode 1 runs the
// real signingRetryLoop of all members with the real done check over several
// attempts (engine in c11.go) so that confirmations of one attempt meet the
// listeners of another.
func c35Run(t *testing.T, r *verifsim.Run) {
	if r.T.Weighted("c35-engine", 2, 1) == 1 {
		c11Engine(t, r, "C35")
		return
	}
	c35Single(t, r)
}

// c35ExtremeEnd: end blocks far beyond the timeout (boundaries of 32/63/64-bit
// arithmetic); every value is > timeout.
func c35ExtremeEnd(i int, timeout uint64) uint64 {
	switch i {
	case 0:
		return timeout + 1
	case 1:
		return 1 << 32
	case 2:
		return 1<<63 - 1
	case 3:
		return 1 << 63
	case 4:
		return 1<<63 + timeout + 1
	}
	return ^uint64(0)
}

func c35Single(t *testing.T, r *verifsim.Run) {
	tp := r.T
	n := 3 + tp.Choose("group-size", 3)
	// seat layout
	seatNode := make([]int, n)
	multi := tp.Chance("multi-seat", 1, 3)
	for i := 0; i < n; i++ {
		seatNode[i] = i
		if multi {
			seatNode[i] = (i + tp.Choose("seat-node", n)) % n
		}
	}
	included := make([]bool, n)
	var includedIdx []group.MemberIndex
	for i := 0; i < n; i++ {
		included[i] = !tp.Chance("excluded", 1, 3)
	}
	anyIncl := false
	for i := 0; i < n; i++ {
		anyIncl = anyIncl || included[i]
	}
	if !anyIncl {
		included[0] = true
	}
	for i := 0; i < n; i++ {
		if included[i] {
			includedIdx = append(includedIdx, group.MemberIndex(i+1))
		}
	}
	message := big.NewInt(int64(100 + tp.Choose("message", 50)))
	attempt := uint64(1 + tp.Choose("attempt", 3))
	timeoutBlock := uint64(1000 + tp.Choose("timeout", 10))
	sigs := []*tecdsa.Signature{
		{R: big.NewInt(200), S: big.NewInt(300), RecoveryID: 2},
		{R: big.NewInt(201), S: big.NewInt(300), RecoveryID: 2},
	}
	sigID := func(s *tecdsa.Signature) int {
		for i, x := range sigs {
			if s != nil && x.Equals(s) {
				return i
			}
		}
		return -1
	}

	sn := verifadapt.NewNet()
	nodes := make([]*verifadapt.NetNode, n+1) // last one is an outsider
	var operators []chain.Address
	for i := 0; i <= n; i++ {
		priv, pub := c35Key(i)
		nodes[i] = sn.AddNodeWithKey(priv, pub)
		ch := nodes[i].Channel("c35")
		ch.SetUnmarshaler(func() net.TaggedUnmarshaler { return &signingDoneMessage{} })
	}
	signingImpl := local_v1.NewSigner(nodes[0].Priv)
	for i := 0; i < n; i++ {
		operators = append(operators, signingImpl.PublicKeyBytesToAddress(nodes[seatNode[i]].PubBytes))
	}
	logger := log.Logger("verif-c35")
	gates := verifsim.NewGates()
	rootCtx, rootCancel := context.WithCancel(context.Background())
	defer rootCancel()

	members := make([]*c35Member, n)
	for i := 0; i < n; i++ {
		m := &c35Member{idx: group.MemberIndex(i + 1), node: seatNode[i], included: included[i],
			okConf: map[group.MemberIndex][]c35Conf{}, exclConf: map[group.MemberIndex]bool{}, validAny: map[group.MemberIndex]bool{}}
		m.ctx, m.cancel = context.WithCancel(rootCtx)
		m.sdc = newSigningDoneCheck(n, nodes[seatNode[i]].Channel("c35"),
			group.NewMembershipValidator(logger, operators, signingImpl))
		m.signals = included[i] && !tp.Chance("silent-member", 1, 6)
		m.endBlock = timeoutBlock - uint64(tp.Choose("end-block", 20))
		members[i] = m
	}
	r.Logf("cfg n=%d seatNode=%v included=%v attempt=%d timeout=%d", n, seatNode, includedIdx, attempt, timeoutBlock)

	startMember := func(m *c35Member) {
		go func() {
			defer func() {
				if p := recover(); p != nil {
					m.mu.Lock()
					m.panicked = fmt.Sprint(p)
					m.finished = true
					m.mu.Unlock()
				}
			}()
			m.sdc.listen(m.ctx, message, attempt, timeoutBlock, includedIdx)
			m.mu.Lock()
			m.listening = true
			m.mu.Unlock()
			gates.PointAs(fmt.Sprintf("m%d", m.idx), "after-listen")
			if m.signals {
				_ = m.sdc.signalDone(m.ctx, m.idx, message, attempt, &signing.Result{Signature: sigs[0]}, m.endBlock)
			}
			m.mu.Lock()
			m.waiting = true
			m.mu.Unlock()
			res, end, err := m.sdc.waitUntilAllDone(m.ctx)
			m.mu.Lock()
			m.res, m.end, m.err, m.finished = res, end, err, true
			m.mu.Unlock()
		}()
	}

	var pool []*c35Flight
	flightSeq := 0
	collect := func() {
		for _, e := range sn.Drain() {
			dm := &signingDoneMessage{}
			if err := dm.Unmarshal(e.Payload); err != nil {
				continue
			}
			recv := make([]int, 0, n)
			for i := 0; i < n; i++ { // the outsider runs no check
				recv = append(recv, i)
			}
			flightSeq++
			pool = append(pool, &c35Flight{env: e, msg: dm, sig: sigID(dm.signature), left: recv, id: flightSeq})
		}
	}
	seatsOf := func(node int) []int {
		var out []int
		for i := 0; i < n; i++ {
			if seatNode[i] == node {
				out = append(out, i)
			}
		}
		return out
	}

	// record what a delivery means for the model of every member that has a
	// live handler on the receiving node
	recordDelivery := func(f *c35Flight, to int) {
		dm := f.msg
		seat := int(dm.senderID) - 1
		membershipOK := seat >= 0 && seat < n && seatNode[seat] == f.env.From
		valid := membershipOK && dm.message.Cmp(message) == 0 && dm.attemptNumber == attempt &&
			dm.endBlock <= timeoutBlock && dm.signature != nil
		for _, si := range seatsOf(to) {
			w := members[si]
			l, _, fin := w.state()
			if !l || fin {
				continue
			}
			if !membershipOK {
				r.Probe("delivered:bad-membership")
			} else if dm.message.Cmp(message) != 0 {
				r.Probe("delivered:wrong-message")
			} else if dm.attemptNumber != attempt {
				r.Probe("delivered:wrong-attempt")
			} else if dm.endBlock > timeoutBlock {
				r.Probe("delivered:late-end-block")
			}
			if !valid {
				continue
			}
			if _, wt, _ := w.state(); !wt {
				r.Probe("delivered:between-listen-and-wait")
			}
			if w.validAny[dm.senderID] {
				r.Probe("delivered:second-confirmation-of-a-member")
			}
			w.validAny[dm.senderID] = true
			if included[seat] {
				w.okConf[dm.senderID] = append(w.okConf[dm.senderID], c35Conf{f.sig, dm.endBlock})
				if f.sig != 0 {
					r.Probe("delivered:other-signature")
				}
			} else {
				w.exclConf[dm.senderID] = true
				r.Probe("delivered:excluded-member-confirmation")
			}
		}
	}

	checkMember := func(w *c35Member) {
		w.mu.Lock()
		res, end, err, pan := w.res, w.end, w.err, w.panicked
		w.mu.Unlock()
		w.checked = true
		if pan != "" {
			r.Failf("C35:panic", "member %d: panic in done check: %s", w.idx, pan)
			return
		}
		if err != nil {
			if err == errWaitDoneTimedOut {
				r.Probe("outcome:timeout")
			} else {
				r.Probe("outcome:signature-mismatch-error")
			}
			r.Logf("member %d finished: error", w.idx)
			return
		}
		r.Probe("outcome:result")
		r.Logf("member %d finished: result end=%d", w.idx, end)
		var missing []group.MemberIndex
		for _, i := range includedIdx {
			if len(w.okConf[i]) == 0 {
				missing = append(missing, i)
			}
		}
		if len(missing) > 0 {
			var excl []int
			for k := range w.exclConf {
				excl = append(excl, int(k))
			}
			sort.Ints(excl)
			if len(excl) > 0 {
				r.Failf("C35:excluded-member-confirmation-counted",
					"member %d reported a signature although included members %v never delivered an acceptable confirmation to it; "+
						"confirmations of members %v that are NOT included in the attempt (included: %v) were counted instead",
					w.idx, missing, excl, includedIdx)
			} else {
				r.Failf("C35:result-before-all-included-confirmed",
					"member %d reported a signature although included members %v never delivered an acceptable confirmation "+
						"(same message %v, attempt %d, end block <= %d) to it; included: %v",
					w.idx, missing, message, attempt, timeoutBlock, includedIdx)
			}
			return
		}
		if res == nil || res.Signature == nil {
			r.Failf("C35:nil-result", "member %d: nil result without error", w.idx)
			return
		}
		sg := sigID(res.Signature)
		for _, i := range includedIdx {
			ok := false
			for _, c := range w.okConf[i] {
				ok = ok || c.sig == sg
			}
			if !ok {
				r.Failf("C35:mismatching-signature-reported",
					"member %d reported signature #%d but included member %d never confirmed that signature (its confirmations: %v)",
					w.idx, sg, i, w.okConf[i])
				return
			}
		}
		var lo, hi uint64
		for _, i := range includedIdx {
			mn, mx := w.okConf[i][0].end, w.okConf[i][0].end
			for _, c := range w.okConf[i] {
				if c.end < mn {
					mn = c.end
				}
				if c.end > mx {
					mx = c.end
				}
			}
			if mn > lo {
				lo = mn
			}
			if mx > hi {
				hi = mx
			}
		}
		if end < lo || end > hi {
			r.Failf("C35:end-block-not-latest-of-included",
				"member %d reported end block %d; the latest end block among the included members' confirmations is in [%d,%d] (included %v, confirmations %v)",
				w.idx, end, lo, hi, includedIdx, w.okConf)
		}
	}

	// white-box: nothing invalid (apart from seat inclusion, judged at the
	// result) may be recorded as a confirmation
	checkRecorded := func(w *c35Member) {
		if l, _, _ := w.state(); !l {
			return
		}
		w.sdc.doneSignersMutex.Lock()
		var ks []int
		for k := range w.sdc.doneSigners {
			ks = append(ks, int(k))
		}
		w.sdc.doneSignersMutex.Unlock()
		sort.Ints(ks)
		for _, k := range ks {
			if !w.validAny[group.MemberIndex(k)] {
				r.Failf("C35:invalid-confirmation-recorded",
					"member %d recorded a confirmation for seat %d although no confirmation with a matching authenticated sender, message, attempt and end block within the timeout was delivered to it",
					w.idx, k)
				return
			}
		}
	}

	forged := 0
	for step := 0; step < 160; step++ {
		// finished members
		allDone := true
		anyStarted := false
		for _, m := range members {
			if !m.started {
				continue
			}
			anyStarted = true
			_, _, fin := m.state()
			if fin && !m.checked {
				checkMember(m)
				if r.Failed() {
					break
				}
			}
			if !fin {
				allDone = false
			}
		}
		if r.Failed() {
			break
		}
		unstarted := 0
		for _, m := range members {
			if !m.started {
				unstarted++
			}
		}
		if anyStarted && allDone && (unstarted == 0 || tp.Chance("stop-early", 1, 2)) {
			break
		}
		r.Step()
		type ev struct {
			kind string
			a, b int
		}
		kinds := map[string][]ev{}
		for i, m := range members {
			l, wt, fin := m.state()
			if !m.started {
				kinds["start"] = append(kinds["start"], ev{"start", i, 0})
			} else if m.parked && l && !wt {
				kinds["release"] = append(kinds["release"], ev{"release", i, 0})
			} else if wt && !fin {
				kinds["cancel"] = append(kinds["cancel"], ev{"cancel", i, 0})
			}
		}
		for pi, f := range pool {
			for _, to := range f.left {
				kinds["deliver"] = append(kinds["deliver"], ev{"deliver", pi, to})
			}
		}
		kinds["sleep"] = []ev{{"sleep", 0, 0}}
		if forged < 10 {
			kinds["forge"] = []ev{{"forge", 0, 0}}
		}
		order := []string{"start", "release", "deliver", "sleep", "forge", "cancel"}
		weight := map[string]int{"start": 4, "release": 4, "deliver": 8, "sleep": 4, "forge": 3, "cancel": 1}
		var avail []string
		var w []int
		for _, k := range order {
			if len(kinds[k]) > 0 {
				avail = append(avail, k)
				w = append(w, weight[k])
			}
		}
		kd := avail[tp.Weighted("event", w...)]
		cands := kinds[kd]
		pick := cands[0]
		if len(cands) > 1 {
			pick = cands[tp.Choose(kd, len(cands))]
		}
		switch kd {
		case "start":
			m := members[pick.a]
			m.started = true
			m.parked = true
			startMember(m)
			r.Logf("start member=%d", m.idx)
		case "release":
			m := members[pick.a]
			m.parked = false
			gates.Release(fmt.Sprintf("m%d", m.idx))
			r.Logf("release member=%d signals=%v end=%d", m.idx, m.signals, m.endBlock)
		case "cancel":
			m := members[pick.a]
			m.cancel()
			r.Fault("waiter-timeout")
			r.Logf("cancel member=%d", m.idx)
		case "sleep":
			d := []time.Duration{100, 30, 70, 250}[tp.Choose("sleep", 4)] * time.Millisecond
			time.Sleep(d)
			r.AddSim(int64(d), 0)
			r.Logf("sleep %v", d)
		case "forge":
			forged++
			from := tp.Choose("forge-from", n+1)
			seats := seatsOf(from)
			seat := 0
			if len(seats) > 0 && !tp.Chance("forge-foreign-seat", 1, 4) {
				seat = seats[tp.Choose("forge-own-seat", len(seats))] + 1
			} else {
				seat = 1 + tp.Choose("forge-seat", n+1)
			}
			msg := new(big.Int).Set(message)
			if tp.Chance("forge-wrong-message", 1, 7) {
				msg.Add(msg, big.NewInt(1))
			}
			att := attempt
			if tp.Chance("forge-wrong-attempt", 1, 7) {
				att = attempt + 1 - uint64(2*tp.Choose("forge-attempt-dir", 2))
			}
			end := timeoutBlock
			switch tp.Weighted("forge-end", 4, 1, 2, 2) {
			case 0:
				end = timeoutBlock - uint64(1+tp.Choose("forge-end-early", 25))
			case 2:
				end = timeoutBlock + 1 + uint64(tp.Choose("forge-end-late", 3))
			case 3:
				end = c35ExtremeEnd(tp.Choose("forge-end-extreme", 6), timeoutBlock)
				r.Probe("forged:extreme-end-block")
			}
			sg := 0
			if tp.Chance("forge-other-signature", 1, 5) {
				sg = 1
			}
			dm := &signingDoneMessage{senderID: group.MemberIndex(seat), message: msg, attemptNumber: att,
				signature: sigs[sg], endBlock: end}
			_ = nodes[from].Channel("c35").Send(rootCtx, dm)
			r.Fault("forged-confirmation")
			r.Logf("forge from-node=%d seat=%d msg-ok=%v attempt=%d end=%d sig=%d", from, seat, msg.Cmp(message) == 0, att, end, sg)
		case "deliver":
			f := pool[pick.a]
			to := pick.b
			if pick.a != 0 || f.left[0] != to {
				r.NonTrivial()
			}
			recordDelivery(f, to)
			cnt := sn.Deliver(f.env, to)
			if tp.Chance("keep-for-duplicate", 1, 6) {
				r.Fault("duplicate-delivery")
			} else {
				var nl []int
				for _, x := range f.left {
					if x != to {
						nl = append(nl, x)
					}
				}
				f.left = nl
				if len(nl) == 0 {
					pool = append(pool[:pick.a], pool[pick.a+1:]...)
				}
			}
			r.Logf("deliver #%d from-node=%d seat=%d to-node=%d handlers=%d", f.id, f.env.From, f.msg.senderID, to, cnt)
		}
		synctest.Wait()
		collect()
		for _, m := range members {
			if m.started {
				checkRecorded(m)
			}
		}
		if r.Failed() {
			break
		}
	}
	// whatever is still in flight is lost
	if len(pool) > 0 {
		r.Fault("lost-confirmation")
	}
	for _, m := range members {
		_, _, fin := m.state()
		if m.started && fin && !m.checked && !r.Failed() {
			checkMember(m)
		}
	}
	rootCancel()
	gates.ReleaseAll()
	synctest.Wait()
}

// c35LoopOracle: C35 judged on the results of real signing retry loops. For
// every member whose loop reported a signature, the attempt is identified by
// the reported timeout block; every member that this member's done check was
// armed with for that attempt must have a confirmation FOR THAT ATTEMPT (same
// message, authenticated sender owns the seat, end block within that
// attempt's timeout) delivered to the member's node after the done check was
// armed. Deliveries are counted generously (whether or not the listener was
// still alive), so the oracle only demands less than the statement.
func c35LoopOracle(r *verifsim.Run, members []*c11Member, seatNode []int, deliv [][]c11DoneDelivery, message *big.Int) {
	sigKey := func(s *tecdsa.Signature) string {
		if s == nil {
			return "nil"
		}
		return fmt.Sprintf("%v/%v/%d", s.R, s.S, s.RecoveryID)
	}
	for _, m := range members {
		m.mu.Lock()
		recs := append([]*c11Rec{}, m.recs...)
		fin, ok := m.finished, m.resOK
		end, tmo, sig := m.resEnd, m.resTimeout, m.resSig
		m.mu.Unlock()
		for _, x := range recs {
			r.Logf("obs member=%d att=%d ready=%v listen=%v/%d incl=%v invoked=%v excl=%v", m.idx, x.n, x.ready, x.listened, x.listenTimeout, x.included, x.invoked, x.excluded)
		}
		if !fin || !ok {
			continue
		}
		var x *c11Rec
		ownFailedBefore := false
		for _, y := range recs {
			if y.listened && y.listenTimeout == tmo {
				x = y
			}
		}
		if x == nil {
			r.Failf("C35:loop-result-for-unknown-attempt", "member %d: loop reported a result with attempt timeout %d but never armed a done check with that timeout", m.idx, tmo)
			return
		}
		for _, y := range recs {
			if y.n < x.n && y.invoked {
				ownFailedBefore = true
			}
		}
		r.Probe("loop:result-reported")
		if x.n > 1 {
			r.Probe("loop:result-in-a-later-attempt")
		}
		if ownFailedBefore {
			r.Probe("loop:result-after-own-failed-attempt")
		}
		r.Logf("member %d loop result: attempt=%d end=%d", m.idx, x.n, end)
		type conf struct {
			sig string
			end uint64
		}
		okConf := map[group.MemberIndex][]conf{}
		staleSeats := map[int]bool{}
		for _, d := range deliv[m.node] {
			if d.seq <= x.listenSeq {
				continue
			}
			seat := int(d.dm.senderID) - 1
			if seat < 0 || seat >= len(seatNode) || seatNode[seat] != d.from {
				continue
			}
			if d.dm.message.Cmp(message) != 0 || d.dm.signature == nil {
				continue
			}
			if d.dm.attemptNumber != uint64(x.n) {
				staleSeats[seat+1] = true
				r.Probe("loop:other-attempt-confirmation-delivered-while-armed")
				continue
			}
			if d.dm.endBlock > x.listenTimeout {
				continue
			}
			if !c11Has(x.included, d.dm.senderID) {
				continue
			}
			okConf[d.dm.senderID] = append(okConf[d.dm.senderID], conf{sigKey(d.dm.signature), d.dm.endBlock})
		}
		var missing []group.MemberIndex
		for _, mi := range x.included {
			if len(okConf[mi]) == 0 {
				missing = append(missing, mi)
			}
		}
		if len(missing) > 0 {
			var st []int
			for k := range staleSeats {
				st = append(st, k)
			}
			sort.Ints(st)
			if len(st) > 0 {
				r.Failf("C35:other-attempt-confirmation-counted",
					"member %d reported a signature for attempt %d (included %v) although members %v never delivered a confirmation for attempt %d to it; confirmations labelled with ANOTHER attempt from seats %v were delivered while attempt %d's done check was armed and must have been counted",
					m.idx, x.n, x.included, missing, x.n, st, x.n)
			} else {
				r.Failf("C35:loop-result-before-all-included-confirmed",
					"member %d reported a signature for attempt %d (included %v) although members %v never delivered an acceptable confirmation for that attempt to it",
					m.idx, x.n, x.included, missing)
			}
			return
		}
		sk := sigKey(sig)
		var lo, hi uint64
		for _, mi := range x.included {
			found := false
			mn, mx := okConf[mi][0].end, okConf[mi][0].end
			for _, c := range okConf[mi] {
				found = found || c.sig == sk
				if c.end < mn {
					mn = c.end
				}
				if c.end > mx {
					mx = c.end
				}
			}
			if !found {
				r.Failf("C35:mismatching-signature-reported", "member %d reported signature %s for attempt %d but included member %d never confirmed that signature (%v)", m.idx, sk, x.n, mi, okConf[mi])
				return
			}
			if mn > lo {
				lo = mn
			}
			if mx > hi {
				hi = mx
			}
		}
		if end < lo || end > hi {
			r.Failf("C35:end-block-not-latest-of-included", "member %d reported end block %d for attempt %d; the latest end block among the included members' confirmations is in [%d,%d]", m.idx, end, x.n, lo, hi)
			return
		}
	}
}
