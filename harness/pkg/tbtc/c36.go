package tbtc

// C36: heartbeat escalation. Histories of real heartbeatAction.execute calls
// over 1-3 wallets sharing one heartbeatFailureCounter (as in node). Actions
// of different wallets overlap: the signing stub and the inactivity-claim
// stub park at gates and the tape decides which one completes next and how
// (success / low activity with a tape-chosen active set / error / running
// into the signing deadline); staking and proposal validity vary per action.
//
// Oracle: reference model written from the statement - one counter per
// wallet; only a low-activity outcome increments, only a success resets,
// everything else leaves it unchanged; a claim is expected exactly on a
// low-activity outcome that brings the count to >= 3 with a non-empty
// non-ready set, naming exactly the non-ready members with
// heartbeatFailed=true.

import (
	"context"
	"crypto/ecdsa"
	"fmt"
	"math/big"
	"sort"
	"sync"
	"testing"
	"testing/synctest"

	"github.com/ipfs/go-log/v2"
	"github.com/keep-network/keep-core/pkg/chain"
	"github.com/keep-network/keep-core/pkg/internal/verifadapt"
	"github.com/keep-network/keep-core/pkg/protocol/group"
	"github.com/keep-network/keep-core/pkg/tecdsa"

	"verifsim"
)

func init() {
	verifScenarios["C36"] = verifsim.Scenario{Bubble: true, Fn: c36Run}
}

// c36Run: two engines behind one scenario key. Engine 0: histories of
// heartbeat actions (signing executor stubbed). Engine 1: the real signing
// retry loops of all members of a wallet whose signing group may be smaller
// than the configured group size (c11.go); what is judged there is the
// activity report the heartbeat's inactivity claim is built from.
func c36Run(t *testing.T, r *verifsim.Run) {
	if r.T.Weighted("c36-engine", 3, 1) == 1 {
		c11Engine(t, r, "C36")
		return
	}
	c36Histories(t, r)
}

const (
	c36GroupSize      = 100
	c36RequiredActive = 70 // documented minimum of active members for a valid heartbeat
	c36ClaimAfter     = 3  // "at least three consecutive such outcomes"
)

type c36Claim struct {
	members         []group.MemberIndex
	heartbeatFailed bool
	ctxLive         bool
}

// c36Action is one dispatched heartbeat action with its own stubs.
type c36Action struct {
	id     int
	wallet int
	gates  *verifsim.Gates
	start  uint64

	// inputs
	unstaking    bool
	stakeUnknown bool
	validity     int // 0 valid, 1 invalid, 2 unknown to the chain

	mu        sync.Mutex
	signCalls int
	claims    []c36Claim
	finished  bool
	err       error
	panicked  string

	// decided by the simulator before the gates are released
	outKind   int // 0 success, 1 low activity, 2 error, 3 deadline
	active    []group.MemberIndex
	inactive  []group.MemberIndex
	claimFail bool

	// model
	signDecided bool
	// the signing executor was reached although the operator is unstaking or
	// the proposal is invalid
	signedDespite bool
	expectClaim   bool // a claim is due under every reading of "consecutive"
	allowClaim    bool // a claim is due under the lenient reading (errors do not break a run)
	why           string
}

func (a *c36Action) sign(ctx context.Context, message *big.Int, startBlock uint64) (*tecdsa.Signature, *signingActivityReport, uint64, error) {
	a.mu.Lock()
	a.signCalls++
	a.mu.Unlock()
	a.gates.PointAs(fmt.Sprintf("sign-%d", a.wallet), "sign")
	switch a.outKind {
	case 2:
		return nil, nil, 0, fmt.Errorf("signing failed")
	case 3:
		<-ctx.Done()
		return nil, nil, 0, fmt.Errorf("signing timed out")
	}
	return &tecdsa.Signature{R: big.NewInt(1), S: big.NewInt(2)},
		&signingActivityReport{activeMembers: a.active, inactiveMembers: a.inactive}, startBlock + 1, nil
}

func (a *c36Action) claimInactivity(ctx context.Context, inactive []group.MemberIndex, heartbeatFailed bool, sessionID *big.Int) error {
	a.mu.Lock()
	a.claims = append(a.claims, c36Claim{members: append([]group.MemberIndex(nil), inactive...), heartbeatFailed: heartbeatFailed, ctxLive: ctx.Err() == nil})
	a.mu.Unlock()
	a.gates.PointAs(fmt.Sprintf("claim-%d", a.wallet), "claim")
	if a.claimFail {
		return fmt.Errorf("claim failed")
	}
	return nil
}

func c36Histories(t *testing.T, r *verifsim.Run) {
	tp := r.T
	nWallets := 1 + tp.Choose("wallets", 3)
	histLen := 4 + tp.Choose("history", 22)
	gates := verifsim.NewGates()
	blocks := verifadapt.NewNodeBlocks(100)
	lc := &localChain{
		heartbeatProposalValidations: map[[16]byte]bool{},
		eligibleStakes:               map[chain.Address]*big.Int{},
		blockCounter:                 blocks,
	}
	waitForBlock := func(ctx context.Context, h uint64) error {
		w, err := blocks.BlockHeightWaiter(h)
		if err != nil {
			return err
		}
		select {
		case <-w:
		case <-ctx.Done():
		}
		return nil
	}
	wallets := make([]wallet, nWallets)
	for i := range wallets {
		d := big.NewInt(int64(1000 + 17*i))
		x, y := tecdsa.Curve.ScalarBaseMult(d.Bytes())
		wallets[i] = wallet{publicKey: &ecdsa.PublicKey{Curve: tecdsa.Curve, X: x, Y: y}}
	}
	counter := newHeartbeatFailureCounter()
	lg := log.Logger("verif-c36")
	r.Logf("cfg wallets=%d history=%d", nWallets, histLen)

	// consecutive low-activity outcomes per wallet: model = lenient reading
	// (only a success resets; DESIGN §7 C36), strict = every other outcome
	// breaks the run. A claim is demanded only when both readings agree and
	// forbidden only when both agree.
	model := make([]int, nWallets)
	strict := make([]int, nWallets)
	running := make([]*c36Action, nWallets)
	dispatched := 0
	maxExpiry := uint64(0)

	finish := func(a *c36Action) {
		a.mu.Lock()
		claims, err, pan, signCalls := a.claims, a.err, a.panicked, a.signCalls
		a.mu.Unlock()
		running[a.wallet] = nil
		r.Logf("action %d wallet=%d finished err=%v claims=%d", a.id, a.wallet, err != nil, len(claims))
		if pan != "" {
			r.Failf("C36:panic", "action %d: %s", a.id, pan)
			return
		}
		if !a.signDecided {
			// the action ended before signing
			if signCalls > 0 {
				return // cannot happen: sign parks
			}
			if a.unstaking {
				a.why = "operator is unstaking"
			} else if a.stakeUnknown {
				a.why = "eligible stake query failed"
			} else {
				a.why = "proposal is invalid"
			}
			strict[a.wallet] = 0
			if !a.unstaking && !a.stakeUnknown && a.validity == 0 {
				// not a clause of the property: only makes the history undecidable
				r.Inconclusive("heartbeat-not-signed")
				return
			}
		}
		if a.signedDespite {
			cls := "C36:invalid-proposal-signed"
			if a.unstaking {
				cls = "C36:heartbeat-signed-while-unstaking"
			}
			if len(claims) > 0 {
				cls = "C36:claim-on-invalid-proposal"
				if a.unstaking {
					cls = "C36:claim-while-unstaking"
				}
			}
			r.Failf(cls, "action %d wallet %d: %s, yet the heartbeat was handed to the signing executor (outcome %d, %d active) and %d inactivity claim(s) followed", a.id, a.wallet, a.why, a.outKind, len(a.active), len(claims))
			return
		}
		if !a.allowClaim {
			if len(claims) > 0 {
				cls := "C36:claim-without-three-consecutive-failures"
				switch {
				case a.unstaking && !a.signDecided:
					cls = "C36:claim-while-unstaking"
				case !a.signDecided:
					cls = "C36:claim-on-invalid-proposal"
				case a.outKind >= 2:
					cls = "C36:claim-on-signing-error"
				case a.outKind == 0:
					cls = "C36:claim-after-successful-heartbeat"
				case len(a.inactive) == 0:
					cls = "C36:claim-with-empty-inactive-set"
				}
				r.Failf(cls, "action %d wallet %d: inactivity claim %v made although %s (model count for the wallet: %d)", a.id, a.wallet, claims[0].members, a.why, model[a.wallet])
			}
			return
		}
		if len(claims) == 0 && !a.expectClaim {
			r.Probe("claim-optional-not-made")
			return
		}
		if len(claims) == 0 {
			r.Failf("C36:no-claim-on-third-consecutive-failure", "action %d wallet %d: %s, but no inactivity claim was made (err=%v)", a.id, a.wallet, a.why, err)
			return
		}
		if len(claims) > 1 {
			r.Failf("C36:claim-repeated", "action %d wallet %d: %d claims in one heartbeat", a.id, a.wallet, len(claims))
			return
		}
		c := claims[0]
		got := append([]group.MemberIndex(nil), c.members...)
		want := append([]group.MemberIndex(nil), a.inactive...)
		sort.Slice(got, func(i, j int) bool { return got[i] < got[j] })
		sort.Slice(want, func(i, j int) bool { return want[i] < want[j] })
		same := len(got) == len(want)
		for i := 0; same && i < len(got); i++ {
			same = got[i] == want[i]
		}
		if !same {
			r.Failf("C36:claim-names-wrong-members", "action %d wallet %d: claim names %v, the members that did not announce readiness are %v", a.id, a.wallet, got, want)
			return
		}
		if !c.heartbeatFailed {
			r.Failf("C36:claim-not-marked-heartbeat-failure", "action %d wallet %d: claim made with heartbeatFailed=false", a.id, a.wallet)
			return
		}
		r.Probe("claim-made")
	}

	for step := 0; step < 400; step++ {
		// collect finished actions
		for w := 0; w < nWallets; w++ {
			a := running[w]
			if a == nil {
				continue
			}
			a.mu.Lock()
			fin := a.finished
			a.mu.Unlock()
			if fin {
				finish(a)
			}
		}
		if r.Failed() {
			break
		}
		type ev struct {
			kind string
			w    int
		}
		kinds := map[string][]ev{}
		parked := map[string]bool{}
		for _, p := range gates.List() {
			parked[p.Label] = true
		}
		busy := 0
		for w := 0; w < nWallets; w++ {
			if running[w] == nil {
				if dispatched < histLen {
					kinds["dispatch"] = append(kinds["dispatch"], ev{"dispatch", w})
				}
				continue
			}
			busy++
			if parked[fmt.Sprintf("sign-%d", w)] {
				kinds["sign"] = append(kinds["sign"], ev{"sign", w})
			}
			if parked[fmt.Sprintf("claim-%d", w)] {
				kinds["claim"] = append(kinds["claim"], ev{"claim", w})
			}
		}
		if busy == 0 && dispatched >= histLen {
			break
		}
		kinds["blocks"] = []ev{{"blocks", 0}}
		order := []string{"sign", "claim", "dispatch", "blocks"}
		weight := map[string]int{"sign": 5, "claim": 5, "dispatch": 5, "blocks": 1}
		var avail []string
		var wt []int
		for _, k := range order {
			if len(kinds[k]) > 0 {
				avail = append(avail, k)
				wt = append(wt, weight[k])
			}
		}
		kd := avail[tp.Weighted("event", wt...)]
		cands := kinds[kd]
		pick := cands[0]
		if len(cands) > 1 {
			pick = cands[tp.Choose(kd, len(cands))]
		}
		r.Step()
		switch kd {
		case "blocks":
			by := uint64(1 + tp.Choose("blocks", 40))
			blocks.Advance(blocks.Height() + by)
			r.AddSim(0, int64(by))
			r.Logf("blocks +%d", by)
		case "dispatch":
			w := pick.w
			dispatched++
			a := &c36Action{id: dispatched, wallet: w, gates: gates}
			switch tp.Weighted("stake", 12, 2, 1) {
			case 1:
				a.unstaking = true
				r.Fault("unstaking")
			case 2:
				a.stakeUnknown = true
				r.Fault("stake-query-error")
			}
			a.validity = tp.Weighted("proposal", 12, 2, 1)
			if a.validity != 0 {
				r.Fault("invalid-proposal")
			}
			proposal := &HeartbeatProposal{}
			copy(proposal.Message[:], []byte{0xff, 0xff, 0xff, 0xff, 0xff, 0xff, 0xff, 0xff})
			proposal.Message[14] = byte(dispatched >> 8)
			proposal.Message[15] = byte(dispatched)
			lc.eligibleStakesMutex.Lock()
			delete(lc.eligibleStakes, stakingProvider)
			if a.unstaking {
				lc.eligibleStakes[stakingProvider] = big.NewInt(0)
			} else if !a.stakeUnknown {
				lc.eligibleStakes[stakingProvider] = big.NewInt(int64(1 + tp.Choose("stake-amount", 3)*40000))
			}
			lc.eligibleStakesMutex.Unlock()
			switch a.validity {
			case 0:
				lc.setHeartbeatProposalValidationResult(proposal, true)
			case 1:
				lc.setHeartbeatProposalValidationResult(proposal, false)
			}
			start := blocks.Height()
			expiry := start + heartbeatTotalProposalValidityBlocks
			if expiry > maxExpiry {
				maxExpiry = expiry
			}
			a.start = start
			action := newHeartbeatAction(lg, lc, wallets[w], a, proposal, counter, a, start, expiry, waitForBlock)
			running[w] = a
			if busy > 0 {
				r.NonTrivial()
				r.Probe("overlapping-wallet-actions")
			}
			go func() {
				defer func() {
					if p := recover(); p != nil {
						a.mu.Lock()
						a.panicked, a.finished = fmt.Sprint(p), true
						a.mu.Unlock()
					}
				}()
				err := action.execute()
				a.mu.Lock()
				a.err, a.finished = err, true
				a.mu.Unlock()
			}()
			r.Logf("dispatch action %d wallet=%d unstaking=%v stakeUnknown=%v proposal=%d start=%d", a.id, w, a.unstaking, a.stakeUnknown, a.validity, start)
		case "sign":
			w := pick.w
			a := running[w]
			a.outKind = tp.Weighted("outcome", 5, 8, 2, 1)
			switch a.outKind {
			case 0, 1:
				var nActive int
				if a.outKind == 0 {
					nActive = []int{c36GroupSize, c36RequiredActive, c36RequiredActive + 1, 85}[tp.Choose("active-ok", 4)]
				} else {
					nActive = []int{c36RequiredActive - 1, 51, 60, c36RequiredActive - 2}[tp.Choose("active-low", 4)]
				}
				// which members are inactive: an arithmetic walk over the seats
				startSeat := tp.Choose("inactive-from", c36GroupSize)
				stride := []int{1, 3, 7, 9}[tp.Choose("inactive-stride", 4)]
				inact := map[int]bool{}
				for j := 0; j < c36GroupSize-nActive; j++ {
					inact[(startSeat+j*stride)%c36GroupSize] = true
				}
				a.active, a.inactive = []group.MemberIndex{}, []group.MemberIndex{}
				for s := 0; s < c36GroupSize; s++ {
					if inact[s] {
						a.inactive = append(a.inactive, group.MemberIndex(s+1))
					} else {
						a.active = append(a.active, group.MemberIndex(s+1))
					}
				}
				if a.outKind == 1 && tp.Chance("empty-inactive-report", 1, 12) {
					a.inactive = []group.MemberIndex{}
					r.Fault("undetermined-inactive-set")
				}
			case 2:
				r.Fault("signing-error")
			case 3:
				r.Fault("signing-deadline")
			}
			a.signDecided = true
			if a.unstaking || a.validity != 0 {
				// must not get here: no signing, no counter change, no claim
				a.signedDespite = true
				a.why = "the proposal is invalid"
				if a.unstaking {
					a.why = "the operator is unstaking"
				}
				strict[w] = 0
				r.Probe("signing-reached-despite-unstaking-or-invalid-proposal")
			}
			// model
			switch {
			case a.signedDespite:
			default:
				switch a.outKind {
				case 0:
					model[w] = 0
					strict[w] = 0
					a.why = "the heartbeat succeeded with enough active members"
				case 1:
					model[w]++
					strict[w]++
					if model[w] >= c36ClaimAfter && len(a.inactive) > 0 {
						a.allowClaim = true
						a.expectClaim = strict[w] >= c36ClaimAfter
						if !a.expectClaim {
							r.Probe("claim-due-only-under-lenient-reading")
						}
						a.why = fmt.Sprintf("this is consecutive low-activity heartbeat #%d of the wallet (%d/%d active)", model[w], len(a.active), c36GroupSize)
						if model[w] > c36ClaimAfter {
							r.Probe("claim-expected-beyond-third")
						}
					} else if len(a.inactive) == 0 {
						a.why = "the set of inactive members is empty"
					} else {
						a.why = fmt.Sprintf("this is only consecutive low-activity heartbeat #%d of the wallet", model[w])
					}
				default:
					a.why = "the heartbeat signing returned an error"
					strict[w] = 0
					if model[w] > 0 {
						r.Probe("error-inside-a-failure-run")
					}
				}
			}
			a.claimFail = tp.Chance("claim-fails", 1, 6)
			r.Logf("sign-complete action %d wallet=%d outcome=%d active=%d inactive=%d model=%d expectClaim=%v", a.id, w, a.outKind, len(a.active), len(a.inactive), model[w], a.expectClaim)
			gates.Release(fmt.Sprintf("sign-%d", w))
			if a.outKind == 3 {
				synctest.Wait()
				// the signing deadline: proposal expiry minus the claim validity window
				dl := a.deadlineBlock()
				if blocks.Height() < dl {
					r.AddSim(0, int64(dl-blocks.Height()))
					blocks.Advance(dl)
				}
			}
		case "claim":
			w := pick.w
			a := running[w]
			if a.claimFail {
				r.Fault("claim-error")
			}
			r.Logf("claim-complete action %d wallet=%d fail=%v", a.id, w, a.claimFail)
			gates.Release(fmt.Sprintf("claim-%d", w))
		}
		synctest.Wait()
	}
	for w := 0; w < nWallets; w++ {
		if a := running[w]; a != nil && !r.Failed() {
			a.mu.Lock()
			fin := a.finished
			a.mu.Unlock()
			if fin {
				finish(a)
			} else {
				r.Inconclusive("step-cap")
			}
		}
	}
	gates.ReleaseAll()
	synctest.Wait()
	// let the block-bound context goroutines end
	if maxExpiry > blocks.Height() {
		blocks.Advance(maxExpiry + 1)
	}
	synctest.Wait()
}

// deadlineBlock is the block by which heartbeat signing must end so that the
// inactivity claim still fits into the proposal validity (documented layout:
// total validity 600 blocks, the last 300 reserved for the claim).
func (a *c36Action) deadlineBlock() uint64 {
	return a.start + 600 - 300
}
