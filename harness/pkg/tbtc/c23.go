package tbtc

// C23: coordination windows are triggered at most once, in order, only for
// positive multiples of the window frequency. The real watchCoordinationWindows
// runs on a WatchBlocks stream of a verifadapt.NodeBlocks; the tape decides
// every stream element (next, repeated, skipped, regressing, phantom far-ahead
// numbers, bursts with omissions), when the context is cancelled, whether the
// block source notices the cancellation, and how long each onWindowFn lasts.

import (
	"context"
	"fmt"
	"sort"
	"sync"
	"testing"
	"testing/synctest"

	"github.com/keep-network/keep-core/pkg/internal/verifadapt"

	"verifsim"
)

// c23Freq is the window frequency as stated by the property/documentation
// ("window starting at block 900 has index 1"); deliberately not the
// package constant.
const c23Freq = 900

func init() {
	verifScenarios["C23"] = verifsim.Scenario{Bubble: true, Fn: c23Run}
}

type c23Obs struct {
	mu    sync.Mutex
	calls []uint64 // coordination block of each onWindowFn invocation, in start order
	nilW  int
}

func c23Run(t *testing.T, r *verifsim.Run) {
	tp := r.T
	gates := verifsim.NewGates()
	defer gates.ReleaseAll()

	start := uint64(c23Freq*tp.Choose("start-window", 4)) + uint64(c23Freq-3+tp.Choose("start-off", 6))
	nb := verifadapt.NewNodeBlocks(start)
	// The block source may notice the watcher's cancellation late (production:
	// the subscriber loop checks ctx.Err() only when the next block arrives and
	// that check races with the cancel). laggy => the stream keeps offering
	// elements after the watcher's context was cancelled.
	laggy := tp.Chance("source-ignores-cancel", 1, 2)
	steps := 8 + tp.Choose("steps", 40)
	r.Logf("cfg start=%d laggy=%v steps=%d", start, laggy, steps)

	streamCtx, stopStream := context.WithCancel(context.Background())
	defer stopStream()
	ctx, cancel := context.WithCancel(context.Background())
	defer cancel()

	obs := &c23Obs{}
	slowNext := false
	cbSeq := 0
	watcherDone := false

	watchFn := func(c context.Context) <-chan uint64 {
		if laggy {
			return nb.WatchBlocks(streamCtx)
		}
		return nb.WatchBlocks(c)
	}
	onWindow := func(w *coordinationWindow) {
		obs.mu.Lock()
		if w == nil {
			obs.nilW++
			obs.mu.Unlock()
			return
		}
		obs.calls = append(obs.calls, w.coordinationBlock)
		slow := slowNext
		cbSeq++
		label := fmt.Sprintf("cb-%03d", cbSeq)
		obs.mu.Unlock()
		if slow {
			gates.PointAs(label, "onWindowFn")
		}
	}
	setSlow := func(b bool) {
		obs.mu.Lock()
		slowNext = b
		obs.mu.Unlock()
	}
	go func() {
		watchCoordinationWindows(ctx, watchFn, onWindow)
		obs.mu.Lock()
		watcherDone = true
		obs.mu.Unlock()
	}()
	synctest.Wait()

	// ---- oracle state ----
	offered := map[uint64]bool{}
	invoked := map[uint64]bool{}
	var maxInvoked uint64
	seen := 0
	cancelled := false
	last := start // last offered value
	head := start // highest "true" height
	handoffStuck := false

	check := func(what string) bool {
		obs.mu.Lock()
		calls := append([]uint64(nil), obs.calls...)
		nilW := obs.nilW
		obs.mu.Unlock()
		if nilW > 0 {
			r.Failf("C23:nil-window", "onWindowFn invoked with a nil window after %s", what)
			return false
		}
		for _, b := range calls[seen:] {
			r.Logf("  onWindow block=%d", b)
			if cancelled {
				r.Failf("C23:after-cancel", "onWindowFn invoked for block %d after the watcher's context was cancelled and the system was quiescent (event: %s)", b, what)
				return false
			}
			if b == 0 || b%c23Freq != 0 {
				r.Failf("C23:not-a-window", "onWindowFn invoked for block %d which is not a positive multiple of %d (event: %s)", b, c23Freq, what)
				return false
			}
			if !offered[b] {
				r.Failf("C23:never-offered", "onWindowFn invoked for block %d which the block stream never carried (event: %s)", b, what)
				return false
			}
			if invoked[b] {
				r.Failf("C23:window-twice", "onWindowFn invoked a second time for the window starting at block %d (event: %s; all invocations %v)", b, what, calls)
				return false
			}
			if b < maxInvoked {
				r.Failf("C23:window-regressed", "onWindowFn invoked for window %d after a later window %d had already been started (event: %s; all invocations %v)", b, maxInvoked, what, calls)
				return false
			}
			invoked[b] = true
			maxInvoked = b
			r.Probe("window-started")
			if len(gates.List()) > 0 {
				r.Probe("window-started-while-earlier-callback-running")
			}
		}
		seen = len(calls)
		return true
	}

	// checkBurst judges the invocations caused by a hand-off burst without
	// relying on the order in which the callback goroutines got to run: the
	// new invocations are taken as a set and compared with what a watcher
	// reading the handed elements in order may start at all.
	checkBurst := func(handedElems []uint64, what string) bool {
		obs.mu.Lock()
		calls := append([]uint64(nil), obs.calls...)
		nilW := obs.nilW
		obs.mu.Unlock()
		if nilW > 0 {
			r.Failf("C23:nil-window", "onWindowFn invoked with a nil window after %s", what)
			return false
		}
		fresh := append([]uint64(nil), calls[seen:]...)
		seen = len(calls)
		sort.Slice(fresh, func(i, j int) bool { return fresh[i] < fresh[j] })
		// windows a sequential reader may start, by the statement
		may := map[uint64]bool{}
		m := maxInvoked
		for _, v := range handedElems {
			if v > 0 && v%c23Freq == 0 && v > m && !invoked[v] {
				may[v] = true
				m = v
			}
		}
		for i, b := range fresh {
			r.Logf("  onWindow block=%d", b)
			switch {
			case b == 0 || b%c23Freq != 0:
				r.Failf("C23:not-a-window", "onWindowFn invoked for block %d which is not a positive multiple of %d (event: %s)", b, c23Freq, what)
			case !offered[b]:
				r.Failf("C23:never-offered", "onWindowFn invoked for block %d which the block stream never carried (event: %s)", b, what)
			case invoked[b] || (i > 0 && fresh[i-1] == b):
				r.Failf("C23:window-twice", "onWindowFn invoked a second time for the window starting at block %d (event: %s; invocations of this burst %v)", b, what, fresh)
			case b < maxInvoked:
				r.Failf("C23:window-regressed", "onWindowFn invoked for window %d after a later window %d had already been started (event: %s)", b, maxInvoked, what)
			case !may[b] && !handoffStuck:
				r.Failf("C23:window-regressed", "onWindowFn invoked for window %d although a later window was handed over earlier in the same burst (event: %s; invocations of this burst %v)", b, what, fresh)
			}
			if r.Failed() {
				return false
			}
			r.Probe("window-started")
			r.Probe("window-started-in-handoff-burst")
		}
		for _, b := range fresh {
			invoked[b] = true
			if b > maxInvoked {
				maxInvoked = b
			}
		}
		if len(fresh) >= 2 {
			r.Probe("two-windows-in-one-handoff-burst")
		}
		return true
	}

	offer := func(v uint64, kind string) {
		offered[v] = true
		last = v
		if v > head {
			head = v
		}
		nb.EmitRaw(v)
		r.Logf("emit %s %d", kind, v)
	}

	for s := 0; s < steps; s++ {
		r.Step()
		// kinds: 0 next, 1 repeat, 2 skip ahead (gap), 3 regress, 4 jump onto a
		// window boundary neighbourhood, 5 burst with omissions, 6 release a
		// parked callback, 7 cancel
		w := []int{10, 3, 3, 3, 6, 2, 0, 0, 0}
		if len(gates.List()) > 0 {
			w[6] = 3
		}
		if !cancelled {
			w[7] = 1
			if !handoffStuck {
				w[8] = 4
			}
		}
		k := tp.Weighted("event", w...)
		what := ""
		switch k {
		case 0:
			setSlow(tp.Chance("slow-callback", 1, 3))
			// a monotone step of the true head (goes through Advance so that
			// the height moves as well)
			if last == nb.Height() {
				offered[last+1] = true
				nb.Advance(last + 1)
				last++
				if last > head {
					head = last
				}
				r.Logf("emit next %d", last)
			} else {
				offer(last+1, "next")
			}
			r.AddSim(0, 1)
			what = fmt.Sprintf("next %d", last)
		case 1:
			setSlow(tp.Chance("slow-callback", 1, 3))
			r.Fault("block-repeated")
			offer(last, "repeat")
			what = fmt.Sprintf("repeat %d", last)
		case 2:
			setSlow(tp.Chance("slow-callback", 1, 3))
			gap := uint64(2 + tp.Choose("gap", 5))
			if tp.Chance("gap-over-window", 1, 3) {
				gap += c23Freq
			}
			r.Fault("block-skipped")
			r.AddSim(0, int64(gap))
			offer(last+gap, "skip")
			what = fmt.Sprintf("skip to %d", last)
		case 3:
			setSlow(tp.Chance("slow-callback", 1, 3))
			var v uint64
			switch tp.Choose("regress-kind", 4) {
			case 0: // a little back
				d := uint64(1 + tp.Choose("back", 5))
				if d > last {
					d = last
				}
				v = last - d
			case 1: // onto an earlier window boundary
				m := last / c23Freq
				if m > 0 {
					m -= uint64(tp.Choose("back-windows", int(m)+1))
				}
				v = m * c23Freq
			case 2: // to genesis
				v = 0
			default: // onto the most recent boundary at or below
				v = last / c23Freq * c23Freq
			}
			r.Fault("block-regressed")
			offer(v, "regress")
			what = fmt.Sprintf("regress to %d", v)
		case 4:
			setSlow(tp.Chance("slow-callback", 1, 3))
			m := uint64(tp.Choose("window", 7))
			off := []int64{0, -1, 1, -2, 2}[tp.Weighted("off", 4, 2, 1, 1, 1)]
			v := int64(m*c23Freq) + off
			if v < 0 {
				v = 0
			}
			if uint64(v) < last {
				r.Fault("block-regressed")
			} else if uint64(v) > last+1 {
				r.Fault("block-skipped")
			} else if uint64(v) == last {
				r.Fault("block-repeated")
			}
			offer(uint64(v), "jump")
			what = fmt.Sprintf("jump to %d", v)
		case 5:
			// a burst: the head moves by n blocks at once; an element the
			// watcher is too busy to take is lost, which to the watcher is the
			// same as an element never offered, so the tape decides the lost
			// ones and every offered one is taken at quiescence.
			setSlow(tp.Chance("slow-callback", 1, 3))
			n := 2 + tp.Choose("burst", 5)
			base := last
			r.Fault("block-burst")
			for i := 1; i <= n; i++ {
				v := base + uint64(i)
				if tp.Chance("burst-lost", 1, 3) {
					r.Fault("burst-element-lost")
					r.Logf("lost %d", v)
					last = v
					continue
				}
				offer(v, "burst")
				synctest.Wait()
				if !check(fmt.Sprintf("burst element %d", v)) {
					return
				}
			}
			r.AddSim(0, int64(n))
			what = fmt.Sprintf("burst to %d", last)
		case 8:
			// a hand-off burst: a helper goroutine hands 2-4 elements to the
			// watcher back-to-back with blocking sends and NO quiescence in
			// between, so the watcher reads the next element while the
			// callback goroutine of the previous one may not have run yet. The
			// outcome of such a burst is judged order-independently (below);
			// the -race build sees unsynchronised bookkeeping.
			setSlow(tp.Chance("slow-callback", 1, 3))
			n := 2 + tp.Choose("handoff-n", 3)
			var elems []uint64
			prev := last
			for i := 0; i < n; i++ {
				var v uint64
				switch tp.Weighted("handoff-elem", 5, 2, 2, 1) {
				case 0:
					v = uint64(tp.Choose("window", 7)) * c23Freq
				case 1:
					v = prev
				case 2:
					v = uint64(1+tp.Choose("window", 6))*c23Freq - 1 + 2*uint64(tp.Choose("side", 2))
				default:
					v = prev + 1
				}
				elems = append(elems, v)
				prev = v
			}
			for _, v := range elems {
				offered[v] = true
			}
			handed := 0
			finished := false
			go func() {
				for _, v := range elems {
					ok := nb.EmitRawBlocking(v)
					obs.mu.Lock()
					if ok {
						handed++
					}
					obs.mu.Unlock()
					if !ok {
						break
					}
				}
				obs.mu.Lock()
				finished = true
				obs.mu.Unlock()
			}()
			synctest.Wait()
			obs.mu.Lock()
			h, fin := handed, finished
			obs.mu.Unlock()
			r.Fault("handoff-burst")
			r.Logf("handoff %v handed=%d finished=%v", elems, h, fin)
			last = elems[len(elems)-1]
			if last > head {
				head = last
			}
			if !fin || h != len(elems) {
				// the watcher did not take everything (it is busy or gone):
				// from now on only value-based clauses apply, no more hand-offs
				handoffStuck = true
				r.Probe("handoff-not-completed")
			}
			if !checkBurst(elems[:h], fmt.Sprintf("hand-off burst %v", elems)) {
				return
			}
			continue
		case 6:
			ps := gates.List()
			p := ps[tp.Choose("release", len(ps))]
			gates.Release(p.Label)
			r.Fault("slow-callback-released")
			r.Logf("release %s", p.Label)
			what = "release " + p.Label
		case 7:
			cancel()
			r.Logf("cancel")
			r.NonTrivial()
			what = "cancel"
		}
		synctest.Wait()
		if k == 7 {
			// invocations caused by elements taken before the cancellation
			// have all started by now (quiescence): account for them first.
			if !check(what) {
				return
			}
			cancelled = true
			obs.mu.Lock()
			done := watcherDone
			obs.mu.Unlock()
			if done {
				r.Probe("watcher-returned-after-cancel")
			}
			if laggy {
				r.Fault("stream-continues-after-cancel")
			}
			continue
		}
		if !check(what) {
			return
		}
	}
	if len(invoked) >= 2 {
		r.Probe("two-or-more-windows")
	}
	if cancelled && laggy {
		r.Probe("elements-offered-after-cancel")
	}
}
