package tbtc

// C08, node-level mode: the wallet key generation as the NODE runs it.
//
// The protocol-level engine (c07.go) calls dkg.Executor.Execute and
// registerSigner itself; the glue between them - dkgExecutor.checkEligibility,
// generateSigningGroup (one goroutine per controlled seat, announcement,
// retry loop, attempt function, registerSigner call, result publication) - is
// not executed there. Here one or two operators hold ALL seats of a 3..5 seat
// group (tape-chosen layouts: one operator with every seat, two operators with
// interleaved seats) and every operator is a real dkgExecutor built by
// newDkgExecutor and started through executeDkgIfEligible. The nodes talk over
// verifadapt.Net (the tape decides order/postponement/duplicates through
// c07Pump), blocks advance with the bubble's fake clock. Afterwards the wallet
// registries are inspected (stored index <-> key-generation party identity,
// distinct indexes, agreement, own operator) and an honest-threshold subset of
// the registered signers signs with the STORED indexes.

import (
	"context"
	"crypto/ecdsa"
	"fmt"
	"math/big"
	"sort"
	"testing"
	"testing/synctest"
	"time"

	"github.com/bnb-chain/tss-lib/ecdsa/keygen"
	"github.com/ipfs/go-log/v2"
	"google.golang.org/protobuf/proto"
	"google.golang.org/protobuf/types/known/timestamppb"

	"github.com/keep-network/keep-core/pkg/chain"
	"github.com/keep-network/keep-core/pkg/chain/local_v1"
	"github.com/keep-network/keep-core/pkg/generator"
	"github.com/keep-network/keep-core/pkg/internal/tecdsatest"
	"github.com/keep-network/keep-core/pkg/internal/verifadapt"
	"github.com/keep-network/keep-core/pkg/operator"
	"github.com/keep-network/keep-core/pkg/protocol/group"
	"github.com/keep-network/keep-core/pkg/tecdsa"
	dkgpb "github.com/keep-network/keep-core/pkg/tecdsa/dkg/gen/pb"
	"github.com/keep-network/keep-core/pkg/tecdsa/signing"

	"verifsim"
)

const (
	c08nodeBlockTime          = time.Second
	c08nodeStartBlock         = 100
	c08nodeSubmissionTimeout  = 1000 // blocks; localChain's own value (10) is shorter than one announcement phase
	c08nodeSignChannel        = "c08node-sign"
	c08nodeClassIndex         = "C08:stored-index-not-own-party"
	c08nodeClassWrongOperator = "C08:stored-index-wrong-operator"
)

// c08nodeChain is one operator's handle on the shared localChain test double:
// the chain state (DKG state machine, result submission event, block counter)
// is common, the operator key is the node's own. SelectGroup (not implemented
// by localChain) answers with the scenario's seat layout.
type c08nodeChain struct {
	*localChain
	priv      *operator.PrivateKey
	selection *GroupSelectionResult
}

func (c *c08nodeChain) Signing() chain.Signing { return local_v1.NewSigner(c.priv) }

func (c *c08nodeChain) OperatorKeyPair() (*operator.PrivateKey, *operator.PublicKey, error) {
	return c.priv, &c.priv.PublicKey, nil
}

func (c *c08nodeChain) SelectGroup() (*GroupSelectionResult, error) {
	return &GroupSelectionResult{
		OperatorsIDs:       append(chain.OperatorIDs(nil), c.selection.OperatorsIDs...),
		OperatorsAddresses: append(chain.Addresses(nil), c.selection.OperatorsAddresses...),
	}, nil
}

func (c *c08nodeChain) DKGParameters() (*DKGParameters, error) {
	return &DKGParameters{
		SubmissionTimeoutBlocks:       c08nodeSubmissionTimeout,
		ChallengePeriodBlocks:         15,
		ApprovePrecedencePeriodBlocks: 5,
	}, nil
}

type c08nodeNode struct {
	name  string
	nn    *verifadapt.NetNode
	addr  chain.Address
	opID  chain.OperatorID
	seats []int // 1-based seats of the selected group held by this operator
	chain *c08nodeChain
	disk  *verifadapt.SimDisk
	reg   *walletRegistry
	latch *generator.ProtocolLatch
	exec  *dkgExecutor
}

type c08nodeSeat struct {
	node    *c08nodeNode
	party   int // 1-based position of the signer's own party identity in its key-generation party list
	s       *signer
	sig     *signing.Result
	sigErr  error
	sigDone bool
}

// c08nodeLayouts[n-3] lists the seat layouts for an n seat group; entry 0 (the
// benign choice) gives every seat to one operator.
var c08nodeLayouts = [][]string{
	{"AAA", "ABA", "AAB", "BAA", "ABB"},
	{"AAAA", "ABAB", "AABB", "ABBA", "BAAA"},
	{"AAAAA", "AABBA", "ABABA", "ABBAB", "BBABA"},
}

func c08nodePreParamsFile(pp *keygen.LocalPreParams, created time.Time) []byte {
	b, err := proto.Marshal(&dkgpb.PreParams{
		Data: &dkgpb.PreParams_LocalPreParams{
			PaillierSK: &dkgpb.PreParams_PrivateKey{
				PublicKey: &dkgpb.PreParams_PublicKey{N: pp.PaillierSK.N.Bytes()},
				LambdaN:   pp.PaillierSK.LambdaN.Bytes(),
				PhiN:      pp.PaillierSK.PhiN.Bytes(),
			},
			NTilde: pp.NTildei.Bytes(),
			H1I:    pp.H1i.Bytes(),
			H2I:    pp.H2i.Bytes(),
			Alpha:  pp.Alpha.Bytes(),
			Beta:   pp.Beta.Bytes(),
			P:      pp.P.Bytes(),
			Q:      pp.Q.Bytes(),
		},
		CreationTimestamp: timestamppb.New(created),
	})
	if err != nil {
		panic(err)
	}
	return b
}

func c08nodeRun(t *testing.T, r *verifsim.Run) {
	tp := r.T
	type gp struct{ n, q, h int }
	configs := []gp{{3, 3, 2}, {4, 3, 3}, {5, 4, 3}}
	ci := tp.Weighted("c08node-group", 8, 1, 1)
	cfg := configs[ci]
	params := &GroupParameters{GroupSize: cfg.n, GroupQuorum: cfg.q, HonestThreshold: cfg.h}
	layout := c08nodeLayouts[ci][tp.Weighted("c08node-layout", 3, 2, 1, 1, 1)]
	chaos := tp.Chance("c08node-chaos", 3, 4)
	delayBlocks := uint64(tp.Choose("c08node-delay-blocks", 3))
	seed := big.NewInt(int64(100000 + tp.Choose("c08node-seed", 100000)))
	r.Logf("cfg mode=C08-node n=%d quorum=%d honest=%d layout=%s chaos=%v delay=%d", cfg.n, cfg.q, cfg.h, layout, chaos, delayBlocks)
	r.Probe("node-mode-run")

	fixtures, err := tecdsatest.LoadPrivateKeyShareTestFixtures(cfg.n)
	if err != nil {
		panic(err)
	}
	vlog := log.Logger("verif-tecdsa")
	sn := verifadapt.NewNet()

	// ---- chain: pkg/tbtc's localChain double on a fake-clock block counter ----
	// (ConnectWithKey would start local_v1's never-ending ticker goroutine,
	// with which a synctest bubble cannot end; the counter below ticks on the
	// same fake clock and is stopped at the end of the run)
	blocks := verifadapt.NewNodeBlocks(c08nodeStartBlock)
	lc := &localChain{
		dkgResultSubmissionHandlers: make(map[int]func(submission *DKGResultSubmittedEvent)),
		dkgResultApprovalHandlers:   make(map[int]func(submission *DKGResultApprovedEvent)),
		dkgResultChallengeHandlers:  make(map[int]func(submission *DKGResultChallengedEvent)),
		inactivityClaimedHandlers:   make(map[int]func(submission *InactivityClaimedEvent)),
		blockCounter:                blocks,
	}
	if err := lc.startDKG(); err != nil {
		panic(err)
	}
	if err := lc.setDKGResultValidity(true); err != nil {
		panic(err)
	}
	stopTicker := make(chan struct{})
	tickerDone := make(chan struct{})
	go func() {
		defer close(tickerDone)
		tm := time.NewTicker(c08nodeBlockTime)
		defer tm.Stop()
		for {
			select {
			case <-stopTicker:
				return
			case <-tm.C:
				blocks.Advance(blocks.Height() + 1)
			}
		}
	}()
	defer func() {
		// end of run: stop the clock, then let every context bound to the DKG
		// timeout block expire so that the seats' goroutines unwind
		close(stopTicker)
		<-tickerDone
		blocks.Advance(c08nodeStartBlock + c08nodeSubmissionTimeout + 500)
		synctest.Wait()
	}()

	// ---- operators ----
	byName := map[byte]*c08nodeNode{}
	var nodes []*c08nodeNode
	for i := 0; i < cfg.n; i++ {
		c := layout[i]
		nd := byName[c]
		if nd == nil {
			nn := sn.AddNode(local_v1.DefaultCurve)
			nd = &c08nodeNode{name: string(c), nn: nn, opID: chain.OperatorID(len(nodes) + 1)}
			a, err := local_v1.NewSigner(nn.Priv).PublicKeyToAddress(nn.Pub)
			if err != nil {
				panic(err)
			}
			nd.addr = a
			byName[c] = nd
			nodes = append(nodes, nd)
		}
		nd.seats = append(nd.seats, i+1)
	}
	selection := &GroupSelectionResult{}
	for i := 0; i < cfg.n; i++ {
		nd := byName[layout[i]]
		selection.OperatorsIDs = append(selection.OperatorsIDs, nd.opID)
		selection.OperatorsAddresses = append(selection.OperatorsAddresses, nd.addr)
	}
	if len(nodes) > 1 {
		r.Probe("node-two-operators")
	}
	channelName := fmt.Sprintf("%s-%s", ProtocolName, seed.Text(16))
	var pumpNodes []int
	for _, nd := range nodes {
		nd := nd
		nd.chain = &c08nodeChain{localChain: lc, priv: nd.nn.Priv, selection: selection}
		nd.disk = verifadapt.NewSimDisk()
		// the operator's pre-parameter store holds exactly one fixture set per seat
		for k, seat := range nd.seats {
			created := time.Now().Add(time.Duration(k) * time.Second)
			nd.disk.PutCurrent("preparams", fmt.Sprintf("pp_%d", k), c08nodePreParamsFile(&fixtures[seat-1].LocalPreParams, created))
		}
		reg, err := newWalletRegistry(nd.disk.Handle(), lc.CalculateWalletID)
		if err != nil {
			panic(err)
		}
		nd.reg = reg
		nd.latch = generator.NewProtocolLatch()
		waiter := &node{chain: nd.chain}
		nd.exec = newDkgExecutor(
			params,
			func() (chain.OperatorID, error) { return nd.opID, nil },
			nd.addr,
			nd.chain,
			nd.nn,
			reg,
			nd.latch,
			Config{
				PreParamsPoolSize:              len(nd.seats),
				PreParamsGenerationTimeout:     time.Minute,
				PreParamsGenerationDelay:       time.Hour,
				PreParamsGenerationConcurrency: 1,
				KeyGenerationConcurrency:       1,
			},
			nd.disk.Handle(),
			generator.VerifC08nodeStoppedScheduler(),
			waiter.waitForBlockHeight,
		)
		if got := nd.exec.preParamsCount(); got != len(nd.seats) {
			panic(fmt.Sprintf("harness: operator %s has %d pre-parameters loaded for %d seats", nd.name, got, len(nd.seats)))
		}
		if len(nd.seats) > 1 {
			r.Probe("node-multi-seat-operator")
		}
		pumpNodes = append(pumpNodes, nd.nn.Index)
	}
	// every operator sees the DKG start at the same block; channels and
	// unmarshalers of all nodes exist before the first block tick
	for _, nd := range nodes {
		nd.exec.executeDkgIfEligible(seed, c08nodeStartBlock, delayBlocks)
	}

	// several seats of one operator publish through the node's single channel
	// from concurrent goroutines: at every quiescent point (the pump asks
	// "done?" right before it drains) each node's outbox is put into a
	// canonical order (by claimed member index, each member's own program
	// order preserved), so that no tape decision depends on a goroutine race
	canon := func() {
		verifadapt.C08nodeSortOutboxes(sn, func(e *verifadapt.Envelope) uint64 {
			if fs, ok := verifadapt.PBParse(e.Payload); ok {
				for _, f := range fs {
					if f.Num == 1 {
						return f.Val
					}
				}
			}
			return 0
		})
	}
	seenExecuting := false
	keygenDone := func() bool {
		canon()
		busy := false
		for _, nd := range nodes {
			if nd.latch.IsExecuting() {
				busy = true
			}
		}
		if busy {
			seenExecuting = true
		}
		return seenExecuting && !busy
	}
	pump := &c07Pump{r: r, tp: tp, sn: sn, nodes: pumpNodes, pending: map[int][]*verifadapt.Envelope{}, channel: channelName, chaos: chaos}
	finished := pump.run(keygenDone, 6000)

	// ---- what the nodes stored ----
	var seats []*c08nodeSeat
	for _, nd := range nodes {
		keys := nd.reg.getWalletsPublicKeys()
		if len(keys) > 1 {
			r.Failf("C08:node-wallets-differ", "operator %s registered signers of %d different wallets after one key generation", nd.name, len(keys))
			return
		}
		for _, k := range keys {
			for _, s := range nd.reg.getSigners(k) {
				seats = append(seats, &c08nodeSeat{node: nd, s: s})
			}
		}
	}
	if !finished || len(seats) != cfg.n {
		if chaos {
			// the announcement and protocol windows are measured in blocks; a
			// hostile schedule may legitimately cost an attempt
			r.Inconclusive("node-keygen-incomplete-under-chaos")
			return
		}
		r.Failf("C08:node-keygen-did-not-complete", "benign schedule, layout %s: %d of %d seats registered a signer (all goroutines finished: %v)", layout, len(seats), cfg.n, finished)
		return
	}
	r.Probe("node-keygen-completed")
	lc.dkgMutex.Lock()
	submitted := lc.dkgResult != nil
	lc.dkgMutex.Unlock()
	if submitted {
		r.Probe("node-result-submitted")
	}
	// own party identity of every stored signer (position of its share id in
	// the party list fixed at key generation)
	for _, st := range seats {
		d := st.s.privateKeyShare.Data()
		for j, kj := range d.Ks {
			if kj.Cmp(d.ShareID) == 0 {
				st.party = j + 1
			}
		}
		if st.party == 0 {
			r.Failf("C08:node-share-without-party", "a stored key share's identity is not in its own party list")
			return
		}
	}
	sort.SliceStable(seats, func(i, j int) bool {
		if seats[i].party != seats[j].party {
			return seats[i].party < seats[j].party
		}
		return seats[i].node.nn.Index < seats[j].node.nn.Index
	})
	var storedList []int
	for _, st := range seats {
		storedList = append(storedList, int(st.s.signingGroupMemberIndex))
	}
	r.Logf("registered: %d signers, stored indexes by key-generation party %v", len(seats), storedList)
	ref := seats[0].s.wallet
	for _, st := range seats {
		d := st.s.privateKeyShare.Data()
		fi := int(st.s.signingGroupMemberIndex)
		if fi < 1 || fi > len(d.Ks) || d.Ks[fi-1].Cmp(d.ShareID) != 0 {
			r.Failf(c08nodeClassIndex, "layout %s: operator %s stored the signer holding key-generation party %d under signing index %d, which does not address that party identity (stored indexes by party: %v)", layout, st.node.name, st.party, fi, storedList)
			return
		}
	}
	seen := map[int]bool{}
	for _, st := range seats {
		fi := int(st.s.signingGroupMemberIndex)
		if seen[fi] {
			r.Failf("C08:node-stored-indexes-not-distinct", "layout %s: signing index %d is stored for two signers (stored indexes by party: %v)", layout, fi, storedList)
			return
		}
		seen[fi] = true
		w := st.s.wallet
		if w.publicKey.X.Cmp(ref.publicKey.X) != 0 || w.publicKey.Y.Cmp(ref.publicKey.Y) != 0 {
			r.Failf("C08:node-wallets-differ", "layout %s: registered signers belong to different wallet public keys", layout)
			return
		}
		if string(operatorsKey(w.signingGroupOperators)) != string(operatorsKey(ref.signingGroupOperators)) {
			r.Failf("C08:final-groups-differ", "layout %s: registered signers store different final signing groups", layout)
			return
		}
		if fi > len(w.signingGroupOperators) || w.signingGroupOperators[fi-1] != st.node.addr {
			r.Failf(c08nodeClassWrongOperator, "layout %s: signing index %d stored by operator %s points at another operator's seat", layout, fi, st.node.name)
			return
		}
		if got := st.s.privateKeyShare.PublicKey(); got.X.Cmp(w.publicKey.X) != 0 || got.Y.Cmp(w.publicKey.Y) != 0 {
			r.Failf("C08:node-wallets-differ", "layout %s: a stored key share does not belong to the wallet it is registered for", layout)
			return
		}
	}

	// ---- signing by an honest-threshold subset with the stored indexes ----
	k := len(ref.signingGroupOperators)
	sperm := tp.Perm("c08node-signers", len(seats))
	nSigners := cfg.h
	if len(seats) > cfg.h {
		w := make([]int, len(seats)-cfg.h+1)
		w[0] = 3
		for i := 1; i < len(w); i++ {
			w[i] = 1
		}
		nSigners += tp.Weighted("c08node-signers-above-threshold", w...)
	}
	inSet := map[int]bool{}
	for i := 0; i < nSigners; i++ {
		inSet[sperm[i]] = true
	}
	var signers []*c08nodeSeat
	var sigExcluded []group.MemberIndex
	var signerParties []int
	sigNodes := map[int]bool{}
	for i, st := range seats {
		if inSet[i] {
			signers = append(signers, st)
			signerParties = append(signerParties, st.party)
			sigNodes[st.node.nn.Index] = true
		} else {
			sigExcluded = append(sigExcluded, st.s.signingGroupMemberIndex)
		}
	}
	sort.Slice(sigExcluded, func(i, j int) bool { return sigExcluded[i] < sigExcluded[j] })
	var snodes []int
	for _, nd := range nodes {
		signing.RegisterUnmarshallers(nd.nn.Channel(c08nodeSignChannel))
		if sigNodes[nd.nn.Index] {
			snodes = append(snodes, nd.nn.Index)
		}
	}
	msg := new(big.Int).SetBytes(tp.Bytes("c08node-message", 32))
	sctx, scancel := context.WithCancel(context.Background())
	defer scancel()
	for _, st := range signers {
		st := st
		smv := group.NewMembershipValidator(vlog, st.s.wallet.signingGroupOperators, st.node.chain.Signing())
		go func() {
			defer func() {
				if p := recover(); p != nil {
					st.sigErr = fmt.Errorf("panic: %v", p)
					st.sigDone = true
				}
			}()
			st.sig, st.sigErr = signing.Execute(sctx, vlog, msg, "c08node-sign-1", st.s.signingGroupMemberIndex, st.s.privateKeyShare,
				k, st.s.wallet.groupDishonestThreshold(cfg.h), append([]group.MemberIndex(nil), sigExcluded...),
				st.node.nn.Channel(c08nodeSignChannel), smv)
			st.sigDone = true
		}()
	}
	r.Logf("signing: final group %d, signers (key-generation parties) %v, excluded stored indexes %v", k, signerParties, sigExcluded)
	spump := &c07Pump{r: r, tp: tp, sn: sn, nodes: snodes, pending: map[int][]*verifadapt.Envelope{}, channel: c08nodeSignChannel, chaos: chaos}
	sigAll := func() bool {
		canon()
		for _, st := range signers {
			if !st.sigDone {
				return false
			}
		}
		return true
	}
	if !spump.run(sigAll, 6000) {
		r.Failf("C08:signing-did-not-complete", "layout %s: honest-threshold subset %v (key-generation parties) of the registered signers could not sign", layout, signerParties)
		return
	}
	pub := ref.publicKey
	half := new(big.Int).Rsh(tecdsa.Curve.Params().N, 1)
	hash := make([]byte, 32)
	msg.FillBytes(hash)
	var refSig *tecdsa.Signature
	for _, st := range signers {
		if st.sigErr != nil {
			r.Failf("C08:signing-member-error", "layout %s: signer (key-generation party %d, stored index %d) returned error: %v", layout, st.party, st.s.signingGroupMemberIndex, st.sigErr)
			return
		}
		s := st.sig.Signature
		if refSig == nil {
			refSig = s
		} else if !refSig.Equals(s) {
			r.Failf("C08:signatures-differ", "layout %s: signers returned different signatures", layout)
			return
		}
		if !ecdsa.Verify(pub, msg.Bytes(), s.R, s.S) && !ecdsa.Verify(pub, hash, s.R, s.S) {
			r.Failf("C08:signature-invalid", "layout %s: signature does not verify under the wallet public key (signers %v)", layout, signerParties)
			return
		}
		if s.S.Cmp(half) > 0 {
			r.Failf("C08:high-s", "layout %s: signature has a high S value", layout)
			return
		}
	}
	r.Probe("node-signing-completed")
}
