package tbtc

// C19 (tBTC part). One run has three sections:
//
//  A signing-done wire: the victim is a RUNNING signingDoneCheck (real listen
//    routine) on a channel with the registrations of node.getSigningExecutor
//    (signing, announcer, signingDoneMessage); a group member's node sends a
//    valid done message and tape-corrupted copies. Accepted ones are first
//    given to isValidDoneMessage in a recoverable call (same code the listen
//    goroutine runs), then delivered to the live listener; finally
//    waitUntilAllDone must return the signature of the valid message.
//  B coordination wire: the victim is a follower (real executeFollowerRoutine)
//    waiting for its leader's message; valid coordination messages of every
//    proposal kind and corrupted copies are delivered to it.
//  C signer records on a simulated disk: signers are registered through the
//    real walletRegistry/walletStorage, durable files are corrupted as a crash
//    or bad disk would (torn prefix of any length, empty file, bit flips,
//    protobuf-level edits, also of the embedded tECDSA private key share =
//    pkg/tecdsa marshaling), the node restarts (newWalletRegistry ->
//    loadSigners). The per-file work of loadSigners runs in goroutines
//    keep-core spawns itself (a panic there kills the process), therefore each
//    durable file first goes through the same calls in a recoverable
//    "pre-flight" (signer.Unmarshal, getWalletStorageKey, public key hash);
//    only if that does not panic the real start-up path runs.

import (
	"context"
	"crypto/ecdsa"
	"crypto/sha256"
	"fmt"
	"math/big"
	"runtime/debug"
	"sort"
	"sync"
	"testing"
	"testing/synctest"
	"time"

	"github.com/ipfs/go-log/v2"
	"github.com/keep-network/keep-core/pkg/bitcoin"
	"github.com/keep-network/keep-core/pkg/chain"
	"github.com/keep-network/keep-core/pkg/chain/local_v1"
	"github.com/keep-network/keep-core/pkg/generator"
	"github.com/keep-network/keep-core/pkg/internal/tecdsatest"
	"github.com/keep-network/keep-core/pkg/internal/verifadapt"
	"github.com/keep-network/keep-core/pkg/net"
	"github.com/keep-network/keep-core/pkg/protocol/announcer"
	"github.com/keep-network/keep-core/pkg/protocol/group"
	"github.com/keep-network/keep-core/pkg/tecdsa"
	"github.com/keep-network/keep-core/pkg/tecdsa/signing"

	"verifsim"
)

func init() {
	verifScenarios["C19"] = verifsim.Scenario{Bubble: true, Fn: c19Run, MinBudget: 120}
}

var (
	c19Once   sync.Once
	c19Shares []*tecdsa.PrivateKeyShare
)

func c19Load() {
	c19Once.Do(func() {
		data, err := tecdsatest.LoadPrivateKeyShareTestFixtures(3)
		if err != nil {
			panic(err)
		}
		for i := range data {
			c19Shares = append(c19Shares, tecdsa.NewPrivateKeyShare(data[i]))
		}
	})
}

type c19World struct {
	r       *verifsim.Run
	sn      *verifadapt.Net
	nodes   []*verifadapt.NetNode
	chains  []*localChain
	addrs   []chain.Address
	wal     wallet
	logger  log.StandardLogger
	sender  int // node index; member index = node index + 1
	victim  int
	walletK *ecdsa.PublicKey
}

func c19Build(r *verifsim.Run) *c19World {
	tp := r.T
	w := &c19World{r: r, sn: verifadapt.NewNet(), logger: log.Logger("verif-c19-tbtc")}
	n := 3 + tp.Choose("n", 2)
	for i := 0; i < n; i++ {
		nn := w.sn.AddNode(local_v1.DefaultCurve)
		lc := &localChain{operatorPrivateKey: nn.Priv}
		w.nodes = append(w.nodes, nn)
		w.chains = append(w.chains, lc)
		w.addrs = append(w.addrs, lc.Signing().PublicKeyBytesToAddress(nn.PubBytes))
	}
	wx, wy := tecdsa.Curve.ScalarBaseMult(big.NewInt(int64(777 + tp.Choose("wallet-key", 500))).Bytes())
	w.walletK = &ecdsa.PublicKey{Curve: tecdsa.Curve, X: wx, Y: wy}
	w.wal = wallet{publicKey: w.walletK, signingGroupOperators: w.addrs}
	w.victim = 0
	w.sender = 1 + tp.Choose("sender", n-1)
	return w
}

func c19Run(t *testing.T, r *verifsim.Run) {
	c19Load()
	w := c19Build(r)
	r.Logf("cfg n=%d sender=%d", len(w.nodes), w.sender+1)
	// the disk section first: minimisation truncates the tail of the decision
	// list, so a disk violation's replay carries no wire decisions
	if c19SignerDisk(w); r.Failed() {
		return
	}
	if c19SigningDone(w); r.Failed() {
		return
	}
	c19Coordination(w)
}

// ---------------------------------------------------------------- A ---

func c19SigningDone(w *c19World) {
	r, tp := w.r, w.r.T
	victim, sender := w.nodes[w.victim], w.nodes[w.sender]
	chName := "c19-signing"
	ch := victim.Channel(chName)
	// registrations of node.getSigningExecutor
	signing.RegisterUnmarshallers(ch)
	announcer.RegisterUnmarshaller(ch)
	ch.SetUnmarshaler(func() net.TaggedUnmarshaler { return &signingDoneMessage{} })
	mv := group.NewMembershipValidator(w.logger, w.wal.signingGroupOperators, w.chains[w.victim].Signing())

	message := new(big.Int).SetBytes(tp.Bytes("sd-message", 32))
	attempt := uint64(1 + tp.Choose("sd-attempt", 5))
	timeoutBlock := uint64(100 + tp.Choose("sd-timeout", 100))
	senderIdx := group.MemberIndex(w.sender + 1)

	ctx, cancel := context.WithCancel(context.Background())
	defer cancel()
	sdc := newSigningDoneCheck(len(w.nodes), ch, mv)
	sdc.listen(ctx, message, attempt, timeoutBlock, []group.MemberIndex{senderIdx})
	synctest.Wait()

	sent := &signingDoneMessage{
		senderID:      senderIdx,
		message:       message,
		attemptNumber: attempt,
		signature: &tecdsa.Signature{
			R:          new(big.Int).SetBytes(tp.Bytes("sd-r", 32)),
			S:          new(big.Int).SetBytes(tp.Bytes("sd-s", 32)),
			RecoveryID: int8(tp.Choose("sd-recid", 4)),
		},
		endBlock: timeoutBlock - uint64(tp.Choose("sd-end", 50)),
	}
	h := verifadapt.NewHostile(r, "C19", w.sn, sender.Index, victim.Index, chName)
	h.OnAccept = func(typ string, m *verifadapt.Message, valid bool) {
		dm := m.Body.(*signingDoneMessage)
		// pre-flight of what the listen goroutine does with the message
		ok := sdc.isValidDoneMessage(dm, m.SenderPublicKey(), message, attempt, timeoutBlock)
		if ok && !valid {
			r.Probe("mutated-done-message-passes-the-listener-filter")
		}
		if w.sn.Deliver(m.OrigSeqEnv, victim.Index) > 0 {
			r.Probe("delivered-to-running-done-check")
		}
		synctest.Wait()
	}
	payload := h.RoundTrip(sent)
	if r.Failed() || payload == nil {
		return
	}
	h.Attack(sent.Type(), payload, 5+tp.Choose("sd-attacks", 16))
	if r.Failed() {
		return
	}
	wctx, wcancel := context.WithTimeout(context.Background(), 2*time.Second)
	defer wcancel()
	var res *signing.Result
	var err error
	if p, v, stk := verifadapt.GuardedCall(func() { res, _, err = sdc.waitUntilAllDone(wctx) }); p {
		r.Failf("C19:handler-panic:"+sent.Type(), "waitUntilAllDone panicked after corrupted done messages: %v\n%s", v, stk)
		return
	}
	if err != nil || res == nil || res.Signature == nil || !res.Signature.Equals(sent.signature) {
		r.Failf("C19:valid-done-message-lost", "the done check received the sender's valid done message first, but waitUntilAllDone returned (%v, %v)", res, err)
	}
}

// ---------------------------------------------------------------- B ---

func c19Proposal(tp *verifsim.Tape, kind int) (CoordinationProposal, string) {
	fee := func(l string) *big.Int { return new(big.Int).SetBytes(tp.Bytes(l, 1+tp.Choose(l+"-len", 8))) }
	switch kind {
	case 0:
		return &NoopProposal{}, "noop"
	case 1:
		p := &HeartbeatProposal{}
		copy(p.Message[:], tp.Bytes("hb-message", 16))
		return p, "heartbeat"
	case 2:
		p := &DepositSweepProposal{SweepTxFee: fee("ds-fee")}
		k := 1 + tp.Choose("ds-deposits", 3)
		for i := 0; i < k; i++ {
			var hsh bitcoin.Hash
			copy(hsh[:], tp.Bytes("ds-hash", 32))
			p.DepositsKeys = append(p.DepositsKeys, struct {
				FundingTxHash      bitcoin.Hash
				FundingOutputIndex uint32
			}{hsh, uint32(tp.Choose("ds-index", 1000))})
			p.DepositsRevealBlocks = append(p.DepositsRevealBlocks, big.NewInt(int64(1+tp.Choose("ds-block", 1<<20))))
		}
		return p, "deposit-sweep"
	case 3:
		p := &RedemptionProposal{RedemptionTxFee: fee("rd-fee")}
		k := 1 + tp.Choose("rd-scripts", 3)
		for i := 0; i < k; i++ {
			p.RedeemersOutputScripts = append(p.RedeemersOutputScripts, bitcoin.Script(tp.Bytes("rd-script", 1+tp.Choose("rd-script-len", 30))))
		}
		return p, "redemption"
	case 4:
		p := &MovingFundsProposal{MovingFundsTxFee: fee("mf-fee")}
		k := 1 + tp.Choose("mf-targets", 3)
		for i := 0; i < k; i++ {
			var t [20]byte
			copy(t[:], tp.Bytes("mf-target", 20))
			p.TargetWallets = append(p.TargetWallets, t)
		}
		return p, "moving-funds"
	default:
		p := &MovedFundsSweepProposal{SweepTxFee: fee("mfs-fee"), MovingFundsTxOutputIndex: uint32(tp.Choose("mfs-index", 1000))}
		copy(p.MovingFundsTxHash[:], tp.Bytes("mfs-hash", 32))
		return p, "moved-funds-sweep"
	}
}

type c19NoGenerator struct{}

func (c19NoGenerator) Generate(*CoordinationProposalRequest) (CoordinationProposal, error) {
	return &NoopProposal{}, nil
}

func c19Coordination(w *c19World) {
	r, tp := w.r, w.r.T
	victim, sender := w.nodes[w.victim], w.nodes[w.sender]
	chName := "c19-coordination"
	ch := victim.Channel(chName)
	// registration of node.getCoordinationExecutor
	ch.SetUnmarshaler(func() net.TaggedUnmarshaler { return &coordinationMessage{} })
	lc := w.chains[w.victim]
	mv := group.NewMembershipValidator(w.logger, w.wal.signingGroupOperators, lc.Signing())
	ce := newCoordinationExecutor(lc, w.wal, []group.MemberIndex{group.MemberIndex(w.victim + 1)}, w.addrs[w.victim],
		c19NoGenerator{}, ch, mv, generator.NewProtocolLatch(), nil)
	leader := w.addrs[w.sender]
	coordinationBlock := uint64(900 * (1 + tp.Choose("coordination-window", 10)))
	allowed := []WalletActionType{ActionNoop, ActionHeartbeat, ActionDepositSweep, ActionRedemption, ActionMovingFunds, ActionMovedFundsSweep}

	kind := tp.Choose("proposal-kind", 6)
	proposal, pname := c19Proposal(tp, kind)
	sent := &coordinationMessage{
		senderID:            group.MemberIndex(w.sender + 1),
		coordinationBlock:   coordinationBlock,
		walletPublicKeyHash: bitcoin.PublicKeyHash(w.walletK),
		proposal:            proposal,
	}
	r.Logf("coordination proposal=%s", pname)
	r.Probe("type:" + sent.Type() + "/" + pname)

	h := verifadapt.NewHostile(r, "C19", w.sn, sender.Index, victim.Index, chName)
	h.OnAccept = func(typ string, m *verifadapt.Message, valid bool) {
		// a follower waiting for its leader
		ctx, cancel := context.WithCancel(context.Background())
		defer cancel()
		var got CoordinationProposal
		returned := false
		go func() {
			defer func() {
				if p := recover(); p != nil {
					r.Failf("C19:handler-panic:"+typ, "the running executeFollowerRoutine panicked on a coordination message its unmarshaler accepted (hex %x): %v\n%s", m.OrigSeqEnv.Payload, p, debug.Stack())
				}
			}()
			got, _, _ = ce.executeFollowerRoutine(ctx, leader, coordinationBlock, allowed)
			returned = true
		}()
		synctest.Wait()
		w.sn.Deliver(m.OrigSeqEnv, victim.Index)
		synctest.Wait()
		cancel()
		synctest.Wait()
		if r.Failed() {
			return
		}
		if got != nil {
			r.Probe("follower-accepted-proposal")
			_ = got.ActionType()
			if got.ActionType() != ActionNoop {
				_ = got.ValidityBlocks()
			}
			_ = fmt.Sprint(got.ActionType())
		}
		if valid && m.OrigSeqEnv.Seqno != 0 {
			if !returned || got == nil {
				r.Failf("C19:valid-coordination-message-lost", "the follower did not return the proposal of its leader's valid message (%s)", pname)
			} else if d := verifadapt.CanonDiff(verifadapt.Canon(proposal), verifadapt.Canon(got)); d != "" {
				r.Failf("C19:roundtrip-mismatch:"+typ, "the follower returned a proposal that differs from the one its leader sent: %s", d)
			}
		}
	}
	payload := h.RoundTrip(sent)
	if r.Failed() || payload == nil {
		return
	}
	h.Attack(sent.Type(), payload, 5+tp.Choose("co-attacks", 16))
	if r.Failed() {
		return
	}
	// a second valid message of the same action type with other contents (the
	// next window): decoding it must not disturb the value decoded for the first
	proposal, _ = c19Proposal(tp, kind)
	coordinationBlock += 900
	h.RoundTrip(&coordinationMessage{
		senderID:            group.MemberIndex(w.sender + 1),
		coordinationBlock:   coordinationBlock,
		walletPublicKeyHash: bitcoin.PublicKeyHash(w.walletK),
		proposal:            proposal,
	})
	if !r.Failed() {
		h.Recheck("")
	}
}

// ---------------------------------------------------------------- C ---

func c19WalletID(pub *ecdsa.PublicKey) ([32]byte, error) {
	return sha256.Sum256(append(pub.X.Bytes(), pub.Y.Bytes()...)), nil
}

func c19SignerDisk(w *c19World) {
	r, tp := w.r, w.r.T
	disk := verifadapt.NewSimDisk()
	wr, err := newWalletRegistry(disk.Handle(), c19WalletID)
	if err != nil {
		r.Inconclusive("registry-open-error")
		return
	}
	k := 1 + tp.Choose("signers", 3)
	var saved []*signer
	for m := 1; m <= k; m++ {
		s := &signer{wallet: w.wal, signingGroupMemberIndex: group.MemberIndex(m), privateKeyShare: c19Shares[m-1]}
		if err := wr.registerSigner(s); err != nil {
			r.Failf("C19:valid-record-not-saved:tbtc-signer", "registerSigner failed on a healthy disk: %v", err)
			return
		}
		saved = append(saved, s)
	}
	files := disk.CurrentFiles()
	if len(files) != k {
		r.Failf("C19:valid-record-not-saved:tbtc-signer", "%d signers registered, %d files on disk", k, len(files))
		return
	}
	r.Probe("record:tbtc-signer")
	r.Probe("record:tecdsa-private-key-share")
	// corrupt some of the durable files (decision 0 = intact)
	intact := map[string]bool{}
	var kinds []string
	for _, f := range files {
		var nb []byte
		var kind string
		if tp.Chance("corrupt-key-share-only", 1, 4) {
			// the embedded tECDSA private key share (field 3 of pb.Signer)
			fs, ok := verifadapt.PBParse(f.Data)
			if !ok {
				r.Inconclusive("saved-signer-not-protobuf")
				return
			}
			kind = "intact"
			for i := range fs {
				if fs[i].Num == 3 {
					var sub string
					fs[i].Data, sub = verifadapt.CorruptFile(tp, fs[i].Data)
					if sub != "intact" {
						kind = "key-share:" + sub
					}
				}
			}
			nb = verifadapt.PBBuild(fs)
			if kind == "intact" {
				nb = f.Data
			}
		} else {
			nb, kind = verifadapt.CorruptFile(tp, f.Data)
		}
		kinds = append(kinds, kind)
		if kind == "intact" {
			intact[f.Name] = true
			continue
		}
		r.Fault("disk:" + kind)
		disk.PutCurrent(f.Dir, f.Name, nb)
	}
	r.Logf("signer files: %v", kinds)

	// pre-flight: the per-file work of loadSigners / newWalletRegistry
	for _, f := range disk.CurrentFiles() {
		s := &signer{}
		var uerr error
		if p, v, stk := verifadapt.GuardedCall(func() { uerr = s.Unmarshal(f.Data) }); p {
			r.Failf("C19:startup-panic:tbtc-signer:"+verifadapt.PanicSite(stk),
				"restart with a damaged signer file: signer.Unmarshal (called by walletStorage.loadSigners from a goroutine without recover, i.e. the node dies at start-up) panics on file %s with %d bytes (intact %v): %v\n%s",
				f.Name, len(f.Data), intact[f.Name], v, stk)
			return
		}
		if uerr != nil {
			r.Probe("damaged-signer-file-rejected")
			continue
		}
		if p, v, stk := verifadapt.GuardedCall(func() {
			_ = getWalletStorageKey(s.wallet.publicKey)
			_ = bitcoin.PublicKeyHash(s.wallet.publicKey)
		}); p {
			r.Failf("C19:startup-panic:tbtc-signer:"+verifadapt.PanicSite(stk),
				"restart with a damaged signer file: signer.Unmarshal ACCEPTS file %s (%d bytes, intact %v) and returns a signer whose wallet public key makes the next start-up step (getWalletStorageKey / PublicKeyHash in loadSigners / newWalletRegistry, no recover) panic: %v\n%s",
				f.Name, len(f.Data), intact[f.Name], v, stk)
			return
		}
		if !intact[f.Name] {
			r.Probe("damaged-signer-file-accepted-as-record")
		}
	}
	// the real start-up path
	var wr2 *walletRegistry
	if p, v, stk := verifadapt.GuardedCall(func() { wr2, err = newWalletRegistry(disk.Reopen(), c19WalletID) }); p {
		r.Failf("C19:startup-panic:tbtc-signer:"+verifadapt.PanicSite(stk), "newWalletRegistry panicked: %v\n%s", v, stk)
		return
	}
	if err != nil {
		r.Probe("registry-start-up-error")
		return
	}
	loaded := wr2.getSigners(w.walletK)
	sort.Slice(loaded, func(i, j int) bool { return loaded[i].signingGroupMemberIndex < loaded[j].signingGroupMemberIndex })
	for _, s := range saved {
		name := fmt.Sprintf("membership_%v", s.signingGroupMemberIndex)
		if !intact[name] {
			continue
		}
		found := false
		want := verifadapt.Canon(s)
		for _, l := range loaded {
			if verifadapt.Canon(l) == want {
				found = true
			}
		}
		if !found {
			var d string
			for _, l := range loaded {
				if l.signingGroupMemberIndex == s.signingGroupMemberIndex {
					d = verifadapt.CanonDiff(want, verifadapt.Canon(l))
				}
			}
			r.Failf("C19:roundtrip-mismatch:tbtc-signer", "the intact signer record of member %d did not load back equal after the restart (%d signers loaded) %s", s.signingGroupMemberIndex, len(loaded), d)
			return
		}
		r.Probe("intact-signer-record-loaded-equal")
	}
}
