package tbtc

// C37 (pkg/tbtc part): the real tbtc event deduplicator (newDeduplicator:
// notifyDKGStarted / notifyDKGResultSubmitted / notifyWalletClosed) driven by
// concurrent deliveries whose interleaving at the TimeCache boundaries and
// whose position relative to the caching period are tape decisions. Engine
// and oracle: verifadapt.C37Run.

import (
	"encoding/hex"
	"fmt"
	"math/big"
	"strconv"
	"testing"

	"github.com/keep-network/keep-core/pkg/internal/verifadapt"

	"verifsim"
)

func init() {
	verifScenarios["C37"] = verifsim.Scenario{Bubble: true, Fn: c37Run}
}

type c37ResultEvent struct {
	seed  *big.Int
	hash  DKGChainResultHash
	block uint64
}

func (e c37ResultEvent) desc() string {
	return fmt.Sprintf("seed=0x%s hash=0x%s block=%d", e.seed.Text(16), hex.EncodeToString(e.hash[:]), e.block)
}

func (e c37ResultEvent) equal(o c37ResultEvent) bool {
	return e.seed.Cmp(o.seed) == 0 && e.hash == o.hash && e.block == o.block
}

func c37RandSeed(tp *verifsim.Tape) *big.Int {
	switch tp.Choose("seed-size", 4) {
	case 0:
		return big.NewInt(int64(tp.Choose("seed-small", 4096)))
	case 1:
		return new(big.Int).SetUint64(tp.Uint64("seed-64"))
	case 2:
		return new(big.Int).SetBytes(tp.Bytes("seed-256", 32))
	default:
		return new(big.Int).SetBytes(tp.Bytes("seed-128", 16))
	}
}

func c37RandBlock(tp *verifsim.Tape) uint64 {
	switch tp.Choose("block-size", 3) {
	case 0:
		return uint64(tp.Choose("block-small", 100000))
	case 1:
		return uint64(10000000 + tp.Choose("block-mainnet", 20000000))
	default:
		return tp.Uint64("block-64") >> 20
	}
}

// c37Resplit builds an event that differs from e in every field but whose
// fields, written one after another without separators (seed in base
// seedBase, 64 hex digits of the hash, decimal block), give the same text:
// the field borders are moved by shift digits (positive: to the left, digits
// leave the seed). ok=false when no valid event results.
func c37Resplit(e c37ResultEvent, seedBase int, shift int) (c37ResultEvent, bool) {
	a := e.seed.Text(seedBase)
	b := hex.EncodeToString(e.hash[:])
	c := strconv.FormatUint(e.block, 10)
	all := a + b + c
	la := len(a) - shift
	if la < 1 || la+64 >= len(all) {
		return e, false
	}
	a2, b2, c2 := all[:la], all[la:la+64], all[la+64:]
	if (len(a2) > 1 && a2[0] == '0') || (len(c2) > 1 && c2[0] == '0') || len(c2) > 18 {
		return e, false
	}
	seed2, ok := new(big.Int).SetString(a2, seedBase)
	if !ok {
		return e, false
	}
	hb, err := hex.DecodeString(b2)
	if err != nil {
		return e, false
	}
	blk, err := strconv.ParseUint(c2, 10, 64)
	if err != nil {
		return e, false
	}
	out := c37ResultEvent{seed: seed2, block: blk}
	copy(out.hash[:], hb)
	if out.equal(e) {
		return e, false
	}
	return out, true
}

// c37Derive fills b deterministically from (base, salt).
func c37Derive(b []byte, base, salt uint64) {
	for i := 0; i < len(b); i += 8 {
		v := verifsim.Mix(base, salt*64+uint64(i/8)+1)
		for j := 0; j < 8 && i+j < len(b); j++ {
			b[i+j] = byte(v >> (8 * uint(j)))
		}
	}
}

func c37Run(t *testing.T, r *verifsim.Run) {
	tp := r.T
	d := newDeduplicator()
	kind := tp.Choose("kind", 3)
	nEvents := 1 + tp.Choose("events", 4)
	cfg := verifadapt.C37Config{}
	switch kind {
	case 0: // DKG started: the event is the seed
		cfg.Func, cfg.Period = "tbtc.notifyDKGStarted", DKGSeedCachePeriod
		var seeds []*big.Int
		for len(seeds) < nEvents {
			var s *big.Int
			if len(seeds) == 0 || tp.Chance("fresh", 1, 2) {
				s = c37RandSeed(tp)
			} else {
				base := seeds[tp.Choose("base", len(seeds))]
				switch tp.Choose("near", 6) {
				case 0:
					s = new(big.Int).Add(base, big.NewInt(1))
				case 1:
					s = new(big.Int).Lsh(base, 4) // hex text gains a trailing 0
				case 2:
					s = new(big.Int).Rsh(base, 4) // hex text loses its last digit
				case 3: // differs only above bit 64
					s = new(big.Int).Add(base, new(big.Int).Lsh(big.NewInt(1), 64))
				case 4: // differs only above bit 128
					s = new(big.Int).Add(base, new(big.Int).Lsh(big.NewInt(1), 128))
				default:
					s = new(big.Int).Lsh(base, 8)
				}
			}
			dup := false
			for _, o := range seeds {
				if o.Cmp(s) == 0 {
					dup = true
				}
			}
			if dup {
				r.Inconclusive("generator-duplicate")
				return
			}
			seeds = append(seeds, s)
		}
		for _, s := range seeds {
			s := s
			cfg.Events = append(cfg.Events, verifadapt.C37Event{
				Desc:    "seed=0x" + s.Text(16),
				Deliver: func() bool { return d.notifyDKGStarted(new(big.Int).Set(s)) },
			})
		}
		cfg.MakeBurst = func(base uint64, n int) []verifadapt.C37Event {
			var out []verifadapt.C37Event
			for i := 0; i < n; i++ {
				b := make([]byte, 24)
				c37Derive(b, base, uint64(i))
				b[0] |= 0x80 // 192-bit values: distinct from every seed above with overwhelming probability
				s := new(big.Int).SetBytes(b)
				dup := false
				for _, o := range seeds {
					if o.Cmp(s) == 0 {
						dup = true
					}
				}
				if dup {
					continue
				}
				seeds = append(seeds, s)
				out = append(out, verifadapt.C37Event{
					Desc:    "seed=0x" + s.Text(16),
					Deliver: func() bool { return d.notifyDKGStarted(new(big.Int).Set(s)) },
				})
			}
			return out
		}
	case 1: // DKG result submitted: (seed, result hash, block)
		cfg.Func, cfg.Period = "tbtc.notifyDKGResultSubmitted", DKGResultHashCachePeriod
		var evs []c37ResultEvent
		for len(evs) < nEvents {
			var e c37ResultEvent
			derive := 0
			if len(evs) > 0 {
				derive = tp.Weighted("derive", 2, 1, 1, 1, 4)
			}
			if derive == 0 {
				e = c37ResultEvent{seed: c37RandSeed(tp), block: c37RandBlock(tp)}
				copy(e.hash[:], tp.Bytes("hash", 32))
				if tp.Chance("digit-borders", 1, 2) {
					// hash starts and ends with decimal digits 1..9, so that a
					// moved border still yields well-formed fields
					for _, i := range []int{0, 1, 30, 31} {
						e.hash[i] = byte((1+tp.Choose("hd", 9))<<4 | (1 + tp.Choose("hd", 9)))
					}
				}
			} else {
				base := evs[tp.Choose("base", len(evs))]
				e = c37ResultEvent{seed: new(big.Int).Set(base.seed), hash: base.hash, block: base.block}
				switch derive {
				case 1:
					e.block = base.block + 1 + uint64(tp.Choose("dblock", 3))
				case 2:
					e.hash[tp.Choose("hash-byte", 32)] ^= byte(1 << uint(tp.Choose("hash-bit", 8)))
				case 3:
					e.seed.Add(e.seed, big.NewInt(1))
				case 4:
					seedBase := []int{16, 10}[tp.Choose("seed-base", 2)]
					shift := []int{1, -1, 2, -2, 3, -3}[tp.Choose("shift", 6)]
					if re, ok := c37Resplit(base, seedBase, shift); ok {
						e = re
						r.Probe("border-shifted-pair-generated")
					} else {
						e.block = base.block + 7
					}
				}
			}
			dup := false
			for _, o := range evs {
				if o.equal(e) {
					dup = true
				}
			}
			if dup {
				r.Inconclusive("generator-duplicate")
				return
			}
			evs = append(evs, e)
		}
		for _, e := range evs {
			e := e
			cfg.Events = append(cfg.Events, verifadapt.C37Event{
				Desc:    e.desc(),
				Deliver: func() bool { return d.notifyDKGResultSubmitted(new(big.Int).Set(e.seed), e.hash, e.block) },
			})
		}
		cfg.MakeBurst = func(base uint64, n int) []verifadapt.C37Event {
			var out []verifadapt.C37Event
			for i := 0; i < n; i++ {
				sb := make([]byte, 16)
				c37Derive(sb, base, uint64(3*i))
				var bb [8]byte
				c37Derive(bb[:], base, uint64(3*i+2))
				e := c37ResultEvent{seed: new(big.Int).SetBytes(sb), block: uint64(bb[0])<<16 | uint64(bb[1])<<8 | uint64(bb[2])}
				c37Derive(e.hash[:], base, uint64(3*i+1))
				dup := false
				for _, o := range evs {
					if o.equal(e) {
						dup = true
					}
				}
				if dup {
					continue
				}
				evs = append(evs, e)
				out = append(out, verifadapt.C37Event{
					Desc:    e.desc(),
					Deliver: func() bool { return d.notifyDKGResultSubmitted(new(big.Int).Set(e.seed), e.hash, e.block) },
				})
			}
			return out
		}
	default: // wallet closed: 32-byte wallet ID
		cfg.Func, cfg.Period = "tbtc.notifyWalletClosed", WalletClosedCachePeriod
		var ids [][32]byte
		for len(ids) < nEvents {
			var id [32]byte
			if len(ids) == 0 || tp.Chance("fresh", 1, 2) {
				copy(id[:], tp.Bytes("wallet", 32))
				if tp.Chance("leading-zeros", 1, 4) {
					id[0], id[1] = 0, 0
				}
			} else {
				id = ids[tp.Choose("base", len(ids))]
				switch tp.Choose("near", 3) {
				case 0:
					id[tp.Choose("wallet-byte", 32)] ^= byte(1 << uint(tp.Choose("wallet-bit", 8)))
				case 1: // bytes moved by one position
					var s [32]byte
					copy(s[1:], id[:31])
					id = s
				default:
					var s [32]byte
					copy(s[:31], id[1:])
					id = s
				}
			}
			dup := false
			for _, o := range ids {
				if o == id {
					dup = true
				}
			}
			if dup {
				r.Inconclusive("generator-duplicate")
				return
			}
			ids = append(ids, id)
		}
		for _, id := range ids {
			id := id
			cfg.Events = append(cfg.Events, verifadapt.C37Event{
				Desc:    "wallet=0x" + hex.EncodeToString(id[:]),
				Deliver: func() bool { return d.notifyWalletClosed(id) },
			})
		}
		cfg.MakeBurst = func(base uint64, n int) []verifadapt.C37Event {
			var out []verifadapt.C37Event
			for i := 0; i < n; i++ {
				var id [32]byte
				c37Derive(id[:], base, uint64(i))
				dup := false
				for _, o := range ids {
					if o == id {
						dup = true
					}
				}
				if dup {
					continue
				}
				ids = append(ids, id)
				out = append(out, verifadapt.C37Event{
					Desc:    "wallet=0x" + hex.EncodeToString(id[:]),
					Deliver: func() bool { return d.notifyWalletClosed(id) },
				})
			}
			return out
		}
	}
	r.Logf("kind=%s period=%v events=%d", cfg.Func, cfg.Period, len(cfg.Events))
	for i, e := range cfg.Events {
		r.Logf("event %d: %s", i, e.Desc)
	}
	verifadapt.C37Run(r, cfg)
}
