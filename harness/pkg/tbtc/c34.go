package tbtc

// C34: main UTXO lookup and chain-sync check over simulated wallet histories.
//
// The real DetermineWalletMainUtxo and EnsureWalletSyncedBetweenChains run
// against c34Sim: a Bitcoin model (confirmed list, mempool, not-yet-broadcast
// transactions, spent-ness derived from inputs) and a Bridge model (registered
// main UTXO hash, revealed deposits, moved funds sweep requests). Every query
// first passes through beforeQuery where the tape may mine a block (mempool
// prefix becomes confirmed), broadcast a pending transaction or fail the query.
// The oracle reads the model's ground truth.

import (
	"bytes"
	"crypto/sha256"
	"encoding/binary"
	"fmt"
	"testing"

	"github.com/keep-network/keep-core/pkg/bitcoin"

	"verifsim"
)

const (
	c34Pending   = 0
	c34Mempool   = 1
	c34Confirmed = 2
)

type c34Tx struct {
	label     string
	tx        *bitcoin.Transaction
	hash      bitcoin.Hash
	own       bool // produced by the wallet
	sweep     bool // own deposit sweep / moved funds sweep
	firstType bool // own sweep made without a main UTXO input
	state     int
}

type c34Sim struct {
	r       *verifsim.Run
	pkh     [20]byte
	p2pkh   []byte
	p2wpkh  []byte
	pending []*c34Tx
	mempool []*c34Tx
	confd   []*c34Tx

	registered [32]byte
	deposits   map[string]bool
	movedFunds map[string]bool

	dynamic bool
	errors  bool
	nQuery  int
	erred   bool // an error was injected during the current operation
	events  int  // chain events during the current operation

	// snapshots taken at query instants
	snapUtxos      map[string]int64 // confirmed unspent wallet outputs at the last GetUtxos
	utxoQueryErred bool
	qUtxosDone     bool // GetUtxos answered, GetMempoolUtxos not yet
	inOpQueries    int
}

func c34Key(h bitcoin.Hash, idx uint32) string {
	return fmt.Sprintf("%x:%d", h[:], idx)
}

func (s *c34Sim) isWalletScript(script []byte) bool {
	return bytes.Equal(script, s.p2pkh) || bytes.Equal(script, s.p2wpkh)
}

func (s *c34Sim) live() []*c34Tx {
	return append(append([]*c34Tx(nil), s.confd...), s.mempool...)
}

func (s *c34Sim) spent(h bitcoin.Hash, idx uint32) bool {
	for _, t := range s.live() {
		for _, in := range t.tx.Inputs {
			if in.Outpoint.TransactionHash == h && in.Outpoint.OutputIndex == idx {
				return true
			}
		}
	}
	return false
}

func (s *c34Sim) utxosOf(list []*c34Tx) []*bitcoin.UnspentTransactionOutput {
	out := []*bitcoin.UnspentTransactionOutput{}
	for _, t := range list {
		for i, o := range t.tx.Outputs {
			if s.isWalletScript(o.PublicKeyScript) && !s.spent(t.hash, uint32(i)) {
				out = append(out, &bitcoin.UnspentTransactionOutput{
					Outpoint: &bitcoin.TransactionOutpoint{TransactionHash: t.hash, OutputIndex: uint32(i)},
					Value:    o.Value,
				})
			}
		}
	}
	return out
}

// c34UtxoHash is the Bridge model's main UTXO hash (any injective function of
// outpoint and value serves).
func c34UtxoHash(h bitcoin.Hash, idx uint32, value int64) [32]byte {
	b := make([]byte, 0, 44)
	b = append(b, h[:]...)
	var i4 [4]byte
	var i8 [8]byte
	binary.BigEndian.PutUint32(i4[:], idx)
	binary.BigEndian.PutUint64(i8[:], uint64(value))
	b = append(append(b, i4[:]...), i8[:]...)
	return sha256.Sum256(b)
}

// ---- scheduling point ----

func (s *c34Sim) mine(n int) {
	blk := s.mempool[:n]
	s.mempool = append([]*c34Tx(nil), s.mempool[n:]...)
	for _, t := range blk {
		t.state = c34Confirmed
		s.confd = append(s.confd, t)
	}
	s.r.AddSim(0, 1)
}

// chainEvents lets the chain move BETWEEN two operations (never inside one:
// the statement quantifies over histories, not over growth during one check).
func (s *c34Sim) chainEvents(when string) {
	tp := s.r.T
	if !s.dynamic {
		return
	}
	for k := 0; k < 3; k++ {
		ev := tp.Weighted("event", 6, 2, 2)
		if ev == 0 {
			break
		}
		if ev == 1 && len(s.mempool) > 0 {
			n := 1 + tp.Choose("mine-n", len(s.mempool))
			s.r.Logf("event mine %d mempool tx(s) [first %s] %s", n, s.mempool[0].label, when)
			s.mine(n)
			s.r.Fault("block-mined-between-operations")
		} else if ev == 2 && len(s.pending) > 0 {
			t := s.pending[0]
			s.pending = s.pending[1:]
			t.state = c34Mempool
			s.mempool = append(s.mempool, t)
			s.r.Logf("event broadcast %s %s", t.label, when)
			s.r.Fault("tx-broadcast-between-operations")
		}
	}
}

// beforeQuery is the fault point in front of every query of an operation.
func (s *c34Sim) beforeQuery(name string) error {
	s.nQuery++
	tp := s.r.T
	if s.dynamic && s.inOpQueries > 0 && (len(s.mempool) > 0 || len(s.pending) > 0) {
		// a chain change would have been possible here; deliberately not injected
		s.r.Probe("chain-change-possible-between-queries-of-one-call(not-injected)")
	}
	s.inOpQueries++
	if s.errors && tp.Chance("query-error", 1, 20) {
		s.erred = true
		s.r.Fault("query-error")
		s.r.Logf("query #%d %s -> injected error", s.nQuery, name)
		return fmt.Errorf("c34: injected error at %s", name)
	}
	return nil
}

// ---- bitcoin.Chain stub ----

type c34Btc struct {
	bitcoin.Chain // unimplemented methods are never called (nil => panic)
	s             *c34Sim
}

func (b *c34Btc) GetTxHashesForPublicKeyHash(pkh [20]byte) ([]bitcoin.Hash, error) {
	s := b.s
	if err := s.beforeQuery("GetTxHashesForPublicKeyHash"); err != nil {
		return nil, err
	}
	out := []bitcoin.Hash{}
	if pkh != s.pkh {
		return out, nil
	}
	for _, t := range s.confd {
		for _, o := range t.tx.Outputs {
			if s.isWalletScript(o.PublicKeyScript) {
				out = append(out, t.hash)
				break
			}
		}
	}
	s.r.Logf("q GetTxHashes -> %d", len(out))
	return out, nil
}

func (b *c34Btc) GetTransaction(h bitcoin.Hash) (*bitcoin.Transaction, error) {
	s := b.s
	if err := s.beforeQuery("GetTransaction"); err != nil {
		return nil, err
	}
	for _, t := range s.live() {
		if t.hash == h {
			s.r.Logf("q GetTransaction %s", t.label)
			return t.tx, nil
		}
	}
	s.r.Logf("q GetTransaction -> not found")
	return nil, fmt.Errorf("transaction not found")
}

func (b *c34Btc) GetUtxosForPublicKeyHash(pkh [20]byte) ([]*bitcoin.UnspentTransactionOutput, error) {
	s := b.s
	if err := s.beforeQuery("GetUtxosForPublicKeyHash"); err != nil {
		s.utxoQueryErred = true
		return nil, err
	}
	out := []*bitcoin.UnspentTransactionOutput{}
	if pkh == s.pkh {
		out = s.utxosOf(s.confd)
	}
	s.snapUtxos = map[string]int64{}
	for _, u := range out {
		s.snapUtxos[c34Key(u.Outpoint.TransactionHash, u.Outpoint.OutputIndex)] = u.Value
	}
	s.qUtxosDone = true
	s.r.Logf("q GetUtxos -> %d", len(out))
	return out, nil
}

func (b *c34Btc) GetMempoolUtxosForPublicKeyHash(pkh [20]byte) ([]*bitcoin.UnspentTransactionOutput, error) {
	s := b.s
	if err := s.beforeQuery("GetMempoolUtxosForPublicKeyHash"); err != nil {
		return nil, err
	}
	s.qUtxosDone = false
	out := []*bitcoin.UnspentTransactionOutput{}
	if pkh == s.pkh {
		out = s.utxosOf(s.mempool)
	}
	s.r.Logf("q GetMempoolUtxos -> %d", len(out))
	return out, nil
}

// ---- BridgeChain stub ----

type c34Bridge struct {
	BridgeChain // unimplemented methods are never called
	s           *c34Sim
}

func (b *c34Bridge) GetWallet(pkh [20]byte) (*WalletChainData, error) {
	if err := b.s.beforeQuery("GetWallet"); err != nil {
		return nil, err
	}
	b.s.r.Logf("q GetWallet")
	return &WalletChainData{MainUtxoHash: b.s.registered, State: StateLive}, nil
}

func (b *c34Bridge) ComputeMainUtxoHash(u *bitcoin.UnspentTransactionOutput) [32]byte {
	return c34UtxoHash(u.Outpoint.TransactionHash, u.Outpoint.OutputIndex, u.Value)
}

func (b *c34Bridge) GetDepositRequest(h bitcoin.Hash, idx uint32) (*DepositChainRequest, bool, error) {
	if err := b.s.beforeQuery("GetDepositRequest"); err != nil {
		return nil, false, err
	}
	found := b.s.deposits[c34Key(h, idx)]
	b.s.r.Logf("q GetDepositRequest -> %v", found)
	if !found {
		return nil, false, nil
	}
	return &DepositChainRequest{}, true, nil
}

func (b *c34Bridge) GetMovedFundsSweepRequest(h bitcoin.Hash, idx uint32) (*MovedFundsSweepRequest, bool, error) {
	if err := b.s.beforeQuery("GetMovedFundsSweepRequest"); err != nil {
		return nil, false, err
	}
	found := b.s.movedFunds[c34Key(h, idx)]
	b.s.r.Logf("q GetMovedFundsSweepRequest -> %v", found)
	if !found {
		return nil, false, nil
	}
	return &MovedFundsSweepRequest{}, true, nil
}

// ---- history generator ----

type c34Gen struct {
	s  *c34Sim
	tp *verifsim.Tape
	n  int
}

func (g *c34Gen) hash(label string) bitcoin.Hash {
	var h bitcoin.Hash
	copy(h[:], g.tp.Bytes(label, 32))
	return h
}

func (g *c34Gen) otherScript() []byte {
	b := g.tp.Bytes("other-script", 20)
	if g.tp.Chance("other-p2pkh", 1, 2) {
		return append(append([]byte{0x76, 0xa9, 0x14}, b...), 0x88, 0xac)
	}
	return append([]byte{0x00, 0x14}, b...)
}

func (g *c34Gen) walletScript() []byte {
	if g.tp.Chance("wallet-p2pkh", 1, 2) {
		return c34Copy(g.s.p2pkh)
	}
	return c34Copy(g.s.p2wpkh)
}

func c34Copy(b []byte) []byte { return append([]byte(nil), b...) }

func (g *c34Gen) input(h bitcoin.Hash, idx uint32) *bitcoin.TransactionInput {
	return &bitcoin.TransactionInput{
		Outpoint:        &bitcoin.TransactionOutpoint{TransactionHash: h, OutputIndex: idx},
		SignatureScript: g.tp.Bytes("sigscript", 8),
		Sequence:        0xffffffff,
	}
}

func (g *c34Gen) depositInput() *bitcoin.TransactionInput {
	h := g.hash("deposit-funding")
	idx := uint32(g.tp.Choose("deposit-idx", 3))
	g.s.deposits[c34Key(h, idx)] = true
	return g.input(h, idx)
}

func (g *c34Gen) value() int64 { return int64(1000 + g.tp.Choose("value", 5)*100000) }

func (g *c34Gen) finish(label string, tx *bitcoin.Transaction) *c34Tx {
	g.n++
	tx.Version = 1
	tx.Locktime = uint32(g.n) // makes every transaction unique
	return &c34Tx{label: fmt.Sprintf("%s#%d", label, g.n), tx: tx, hash: tx.Hash()}
}

type c34Main struct {
	hash  bitcoin.Hash
	idx   uint32
	value int64
}

// ownTx builds the wallet's next transaction given its current main UTXO.
func (g *c34Gen) ownTx(main *c34Main, onlySweep bool, onlyDrain bool) (*c34Tx, *c34Main) {
	tp := g.tp
	tx := &bitcoin.Transaction{}
	var kind int
	switch {
	case main == nil:
		kind = tp.Choose("first-kind", 2) // 0 deposit sweep, 1 moved funds sweep
	case onlyDrain:
		kind = 4 + tp.Choose("drain-kind", 2)
	case onlySweep:
		kind = []int{0, 1}[tp.Choose("sweep-kind", 2)]
	default:
		kind = tp.Weighted("own-kind", 3, 1, 0, 3, 1, 1)
	}
	var t *c34Tx
	var next *c34Main
	oneWalletOutput := func() {
		tx.Outputs = []*bitcoin.TransactionOutput{{Value: g.value(), PublicKeyScript: g.walletScript()}}
	}
	switch kind {
	case 0: // deposit sweep: [main,] deposits... -> one wallet output
		if main != nil {
			tx.Inputs = append(tx.Inputs, g.input(main.hash, main.idx))
		}
		for i := 0; i < 1+tp.Choose("sweep-deposits", 3); i++ {
			tx.Inputs = append(tx.Inputs, g.depositInput())
		}
		oneWalletOutput()
		t = g.finish("sweep", tx)
		t.sweep, t.firstType = true, main == nil
		next = &c34Main{t.hash, 0, tx.Outputs[0].Value}
	case 1: // moved funds sweep: moved funds outpoint [, main] -> one wallet output
		h := g.hash("moved-funds-tx")
		idx := uint32(g.tp.Choose("moved-funds-idx", 3))
		g.s.movedFunds[c34Key(h, idx)] = true
		tx.Inputs = append(tx.Inputs, g.input(h, idx))
		if main != nil {
			tx.Inputs = append(tx.Inputs, g.input(main.hash, main.idx))
		}
		oneWalletOutput()
		t = g.finish("movedsweep", tx)
		t.sweep, t.firstType = true, main == nil
		next = &c34Main{t.hash, 0, tx.Outputs[0].Value}
	case 3: // redemption with change (change is the last output)
		tx.Inputs = append(tx.Inputs, g.input(main.hash, main.idx))
		for i := 0; i < 1+tp.Choose("redeemers", 3); i++ {
			tx.Outputs = append(tx.Outputs, &bitcoin.TransactionOutput{Value: g.value(), PublicKeyScript: g.otherScript()})
		}
		tx.Outputs = append(tx.Outputs, &bitcoin.TransactionOutput{Value: g.value(), PublicKeyScript: g.walletScript()})
		t = g.finish("redemption", tx)
		next = &c34Main{t.hash, uint32(len(tx.Outputs) - 1), tx.Outputs[len(tx.Outputs)-1].Value}
	case 4: // redemption without change
		tx.Inputs = append(tx.Inputs, g.input(main.hash, main.idx))
		for i := 0; i < 1+tp.Choose("redeemers", 3); i++ {
			tx.Outputs = append(tx.Outputs, &bitcoin.TransactionOutput{Value: g.value(), PublicKeyScript: g.otherScript()})
		}
		t = g.finish("redemption-all", tx)
	default: // moving funds to other wallets
		tx.Inputs = append(tx.Inputs, g.input(main.hash, main.idx))
		for i := 0; i < 1+tp.Choose("targets", 2); i++ {
			tx.Outputs = append(tx.Outputs, &bitcoin.TransactionOutput{Value: g.value(), PublicKeyScript: g.otherScript()})
		}
		t = g.finish("movingfunds", tx)
	}
	t.own = true
	return t, next
}

func (g *c34Gen) spamTx() *c34Tx {
	tp := g.tp
	tx := &bitcoin.Transaction{}
	for i := 0; i < 1+tp.Choose("spam-inputs", 2); i++ {
		tx.Inputs = append(tx.Inputs, g.input(g.hash("spam-in"), uint32(tp.Choose("spam-in-idx", 3))))
	}
	nOut := 1 + tp.Choose("spam-outputs", 3)
	wAt := tp.Choose("spam-wallet-at", nOut)
	for i := 0; i < nOut; i++ {
		if i == wAt || tp.Chance("spam-more-wallet", 1, 4) {
			tx.Outputs = append(tx.Outputs, &bitcoin.TransactionOutput{Value: g.value(), PublicKeyScript: g.walletScript()})
		} else {
			tx.Outputs = append(tx.Outputs, &bitcoin.TransactionOutput{Value: g.value(), PublicKeyScript: g.otherScript()})
		}
	}
	return g.finish("spam", tx)
}

func init() { verifScenarios["C34"] = verifsim.Scenario{Bubble: false, Fn: c34Run} }

func c34Run(t *testing.T, r *verifsim.Run) {
	tp := r.T
	s := &c34Sim{r: r, deposits: map[string]bool{}, movedFunds: map[string]bool{}}
	copy(s.pkh[:], tp.Bytes("wallet-pkh", 20))
	// scripts written out here, not via the bitcoin package builders
	s.p2pkh = append(append([]byte{0x76, 0xa9, 0x14}, s.pkh[:]...), 0x88, 0xac)
	s.p2wpkh = append([]byte{0x00, 0x14}, s.pkh[:]...)
	g := &c34Gen{s: s, tp: tp}

	fresh := tp.Weighted("scenario", 5, 3) == 1
	mode := tp.Weighted("mode", 2, 4, 1, 2) // quiet / dynamic / errors / both
	dynamic := mode == 1 || mode == 3
	errs := mode == 2 || mode == 3

	// ---- own transaction chain ----
	var own []*c34Tx
	var mains []*c34Main // mains[i] = main UTXO after own[i] (nil if none)
	var main *c34Main
	if fresh {
		// optionally an old, fully proven life that ended without a wallet output
		nOld := 0
		if tp.Chance("old-life", 1, 3) {
			nOld = 2 + tp.Choose("old-len", 2)
		}
		for i := 0; i < nOld; i++ {
			tx, nx := g.ownTx(main, i < nOld-1, i == nOld-1)
			own, mains, main = append(own, tx), append(mains, nx), nx
		}
		if tp.Chance("first-sweep", 2, 3) {
			tx, nx := g.ownTx(nil, false, false)
			own, mains, main = append(own, tx), append(mains, nx), nx
		}
		// states: the old life is confirmed, the first sweep is anywhere
		for i, tx := range own {
			if i < nOld {
				tx.state = c34Confirmed
			} else {
				tx.state = tp.Choose("first-sweep-state", 3)
			}
		}
	} else {
		nOwn := tp.Choose("own-count", 6)
		for i := 0; i < nOwn; i++ {
			tx, nx := g.ownTx(main, false, false)
			own, mains, main = append(own, tx), append(mains, nx), nx
		}
		c1 := tp.Choose("own-confirmed", nOwn+1)
		c2 := c1 + tp.Choose("own-mempool", nOwn-c1+1)
		if c2 > c1+2 {
			c2 = c1 + 2
		}
		for i, tx := range own {
			switch {
			case i < c1:
				tx.state = c34Confirmed
			case i < c2:
				tx.state = c34Mempool
			default:
				tx.state = c34Pending
			}
		}
	}
	for _, tx := range own {
		switch tx.state {
		case c34Confirmed:
			s.confd = append(s.confd, tx)
		case c34Mempool:
			s.mempool = append(s.mempool, tx)
		default:
			s.pending = append(s.pending, tx)
		}
	}
	// ---- spam ----
	nSpam := tp.Choose("spam-count", 5)
	var spam []*c34Tx
	insert := func(list []*c34Tx, tx *c34Tx, label string) []*c34Tx {
		at := len(list) - tp.Choose(label, len(list)+1) // 0 => append at the end
		list = append(list, nil)
		copy(list[at+1:], list[at:])
		list[at] = tx
		return list
	}
	for i := 0; i < nSpam; i++ {
		tx := g.spamTx()
		spam = append(spam, tx)
		tx.state = c34Confirmed - tp.Choose("spam-state", 3)
		switch tx.state {
		case c34Confirmed:
			s.confd = insert(s.confd, tx, "spam-pos")
		case c34Mempool:
			s.mempool = insert(s.mempool, tx, "spam-pos")
		default:
			s.pending = insert(s.pending, tx, "spam-pos")
		}
	}
	all := append(append([]*c34Tx(nil), own...), spam...)

	// ---- long history: many later (dust) payments to the wallet after its own transactions ----
	if !fresh && tp.Chance("long-history", 1, 5) {
		n := []int{49, 50, 51, 52}[tp.Choose("long-boundary", 4)]
		if tp.Chance("long-far", 1, 2) {
			n = 50 + tp.Choose("long-n", 81) // 50..130
		}
		nMem := tp.Choose("long-mempool", 4)
		mix := tp.Uint64("long-mix")
		for i := 0; i < n+nMem; i++ {
			seed := sha256.Sum256([]byte(fmt.Sprintf("c34-dust-%d-%d", mix, i)))
			var in bitcoin.Hash
			copy(in[:], seed[:])
			script := c34Copy(s.p2pkh)
			if seed[0]&1 == 1 {
				script = c34Copy(s.p2wpkh)
			}
			tx := &bitcoin.Transaction{
				Inputs:  []*bitcoin.TransactionInput{{Outpoint: &bitcoin.TransactionOutpoint{TransactionHash: in, OutputIndex: uint32(seed[1] % 3)}, Sequence: 0xffffffff}},
				Outputs: []*bitcoin.TransactionOutput{{Value: int64(546 + int(seed[2])), PublicKeyScript: script}},
			}
			if seed[3]&3 == 0 { // the wallet output is not the first one
				tx.Outputs = append([]*bitcoin.TransactionOutput{{Value: 1000, PublicKeyScript: append([]byte{0x00, 0x14}, seed[4:24]...)}}, tx.Outputs...)
			}
			t := g.finish("dust", tx)
			if i < n {
				t.state = c34Confirmed
				s.confd = append(s.confd, t)
			} else {
				t.state = c34Mempool
				s.mempool = append(s.mempool, t)
			}
		}
		r.Probe("long-history-50-plus-later-payments")
		r.Logf("long history: %d later dust payments confirmed, %d in the mempool", n, nMem)
	}

	// ---- registered main UTXO hash ----
	type wout struct {
		tx  *c34Tx
		idx uint32
		val int64
	}
	var wouts []wout
	for _, tx := range all {
		for i, o := range tx.tx.Outputs {
			if s.isWalletScript(o.PublicKeyScript) {
				wouts = append(wouts, wout{tx, uint32(i), o.Value})
			}
		}
	}
	regKind := 0
	if !fresh {
		regKind = tp.Weighted("registered", 2, 4, 3, 1)
	}
	regDesc := "none"
	switch regKind {
	case 1: // the protocol's case: main UTXO after one of the confirmed own transactions
		var cands []int
		for i, tx := range own {
			if tx.state == c34Confirmed && mains[i] != nil {
				cands = append(cands, i)
			}
		}
		if len(cands) > 0 {
			i := cands[len(cands)-1-tp.Choose("registered-own", len(cands))]
			s.registered = c34UtxoHash(mains[i].hash, mains[i].idx, mains[i].value)
			regDesc = "main-after-" + own[i].label
		}
	case 2: // any wallet output of any transaction (spam, mempool, pending ...)
		if len(wouts) > 0 {
			w := wouts[tp.Choose("registered-any", len(wouts))]
			s.registered = c34UtxoHash(w.tx.hash, w.idx, w.val)
			regDesc = fmt.Sprintf("output-%d-of-%s", w.idx, w.tx.label)
		}
	case 3: // a hash matching nothing: right outpoint, other value / other index
		if len(wouts) > 0 {
			w := wouts[tp.Choose("registered-near", len(wouts))]
			if tp.Chance("near-index", 1, 2) {
				s.registered = c34UtxoHash(w.tx.hash, w.idx+1, w.val)
			} else {
				s.registered = c34UtxoHash(w.tx.hash, w.idx, w.val+1)
			}
			regDesc = "near-miss-of-" + w.tx.label
		} else {
			copy(s.registered[:], tp.Bytes("registered-garbage", 32))
			regDesc = "garbage"
		}
	}
	describe := func(l []*c34Tx) string {
		out := ""
		for i, tx := range l {
			if i >= 12 {
				out += fmt.Sprintf("... %d more ", len(l)-i)
				break
			}
			out += tx.label + " "
		}
		return out
	}
	r.Logf("cfg fresh=%v mode=%d registered=%s confirmed=[%s] mempool=[%s] pending=[%s]", fresh, mode, regDesc, describe(s.confd), describe(s.mempool), describe(s.pending))

	// matches returns the wallet outputs among the given transactions whose hash is registered
	matches := func(list []*c34Tx) []wout {
		var out []wout
		for _, tx := range list {
			for i, o := range tx.tx.Outputs {
				if s.isWalletScript(o.PublicKeyScript) && c34UtxoHash(tx.hash, uint32(i), o.Value) == s.registered {
					out = append(out, wout{tx, uint32(i), o.Value})
				}
			}
		}
		return out
	}

	btc := &c34Btc{s: s}
	bridge := &c34Bridge{s: s}
	s.dynamic, s.errors = dynamic, errs

	// ================= operation 1: DetermineWalletMainUtxo =================
	s.chainEvents("before the lookup")
	m0 := matches(s.confd)
	s.erred, s.events, s.inOpQueries = false, 0, 0
	utxo, err := DetermineWalletMainUtxo(s.pkh, bridge, btc)
	r.Step()
	m1 := matches(s.live())
	detErred := s.erred
	none := s.registered == [32]byte{}
	switch {
	case err != nil:
		r.Logf("determine -> error (injected=%v)", detErred)
		r.Probe("determine-error")
		if !detErred {
			if none {
				r.Failf("C34:determine-error-nothing-registered", "DetermineWalletMainUtxo failed (%v) although no main UTXO hash is registered and no query failed", err)
				return
			}
			if len(m0) > 0 {
				r.Failf("C34:registered-utxo-not-found", "DetermineWalletMainUtxo failed (%v) although output %d of %s, confirmed before the lookup started, hashes to the registered main UTXO hash", err, m0[0].idx, m0[0].tx.label)
				return
			}
			r.Probe("determine-not-found-correct")
		}
	case utxo == nil:
		r.Logf("determine -> none")
		r.Probe("determine-none")
		if !none {
			r.Failf("C34:none-although-registered", "DetermineWalletMainUtxo returned no UTXO and no error although a main UTXO hash (%s) is registered", regDesc)
			return
		}
	default:
		r.Logf("determine -> utxo idx=%d value=%d", utxo.Outpoint.OutputIndex, utxo.Value)
		r.Probe("determine-found")
		if none {
			r.Failf("C34:utxo-although-nothing-registered", "DetermineWalletMainUtxo returned a UTXO although nothing is registered")
			return
		}
		ok := false
		for _, w := range m1 {
			if w.tx.hash == utxo.Outpoint.TransactionHash && w.idx == utxo.Outpoint.OutputIndex && w.val == utxo.Value {
				ok = true
				if w.tx.own {
					r.Probe("determine-found-own")
				} else {
					r.Probe("determine-found-spam-output")
				}
				if len(s.confd) > 0 && s.confd[len(s.confd)-1] != w.tx {
					r.Probe("determine-found-not-latest")
				}
				for k, tx := range s.confd {
					if tx == w.tx && len(s.confd)-k > 50 {
						r.Probe("determine-found-50-plus-transactions-deep")
					}
				}
			}
		}
		if !ok {
			r.Failf("C34:wrong-main-utxo", "DetermineWalletMainUtxo returned outpoint index %d value %d which is not a wallet output of the history hashing to the registered hash (%s)", utxo.Outpoint.OutputIndex, utxo.Value, regDesc)
			return
		}
	}

	// ================= operation 2: EnsureWalletSyncedBetweenChains =================
	var param *bitcoin.UnspentTransactionOutput
	switch {
	case utxo != nil:
		param = utxo
	case none:
		param = nil
	default:
		// the lookup failed: still exercise the check with some confirmed wallet output
		var cands []wout
		for _, w := range wouts {
			if w.tx.state == c34Confirmed {
				cands = append(cands, w)
			}
		}
		if len(cands) == 0 {
			return
		}
		w := cands[tp.Choose("sync-param", len(cands))]
		param = &bitcoin.UnspentTransactionOutput{Outpoint: &bitcoin.TransactionOutpoint{TransactionHash: w.tx.hash, OutputIndex: w.idx}, Value: w.val}
	}

	ownSweepUnspent := func() (present bool, inconsistent bool, which *c34Tx) {
		for _, tx := range s.live() {
			if !tx.own || !tx.sweep {
				continue
			}
			if s.spent(tx.hash, 0) {
				continue
			}
			if !tx.firstType {
				inconsistent = true
			}
			present, which = true, tx
		}
		return
	}
	if param == nil {
		// premise of the fresh-wallet clause: every unspent own sweep output was
		// made without a main UTXO input (nothing is registered, so the wallet
		// cannot have spent a main UTXO); also for transactions still to come
		for _, tx := range all {
			if tx.own && tx.sweep && !tx.firstType {
				spentByLive := s.spent(tx.hash, 0)
				if !spentByLive || tx.state == c34Pending {
					r.Probe("fresh-clause-premise-not-met-skipped")
					return
				}
			}
		}
	}
	s.chainEvents("between lookup and sync check")
	if param == nil {
		// re-check the premise after the events (a pending transaction may have been broadcast)
		if _, inconsistent, _ := ownSweepUnspent(); inconsistent {
			r.Probe("fresh-clause-premise-not-met-skipped")
			return
		}
	}
	present, _, which := ownSweepUnspent()
	s.erred, s.events, s.snapUtxos, s.utxoQueryErred, s.qUtxosDone, s.inOpQueries = false, 0, nil, false, false, 0
	err = EnsureWalletSyncedBetweenChains(s.pkh, param, bridge, btc)
	r.Step()
	s.qUtxosDone = false
	syncErred := s.erred

	if param != nil {
		r.Probe("sync-with-main-utxo")
		if s.snapUtxos == nil {
			// the only query failed (or was never made)
			if err == nil {
				r.Failf("C34:sync-pass-without-utxo-answer", "EnsureWalletSyncedBetweenChains passed although the confirmed-UTXO query did not answer")
			}
			return
		}
		v, in := s.snapUtxos[c34Key(param.Outpoint.TransactionHash, param.Outpoint.OutputIndex)]
		unspent := in && v == param.Value
		r.Logf("sync(main) -> err=%v truth-unspent=%v", err != nil, unspent)
		if unspent {
			r.Probe("sync-main-unspent")
		} else {
			r.Probe("sync-main-spent")
		}
		if err == nil && !unspent {
			r.Failf("C34:sync-pass-main-utxo-spent", "sync check passed although the main UTXO (index %d) was not among the wallet's confirmed unspent outputs when queried", param.Outpoint.OutputIndex)
			return
		}
		if err != nil && unspent && !syncErred {
			r.Failf("C34:sync-fail-main-utxo-unspent", "sync check failed (%v) although the main UTXO was unspent when queried", err)
			return
		}
		return
	}

	r.Probe("sync-fresh-wallet")
	r.Logf("sync(fresh) -> err=%v own-sweep-unspent=%v", err != nil, present)
	if present {
		r.Probe("sync-fresh-own-sweep-present")
		if which.state == c34Mempool {
			r.Probe("sync-fresh-own-sweep-in-mempool")
		}
	}
	if err == nil && present {
		r.Failf("C34:fresh-sync-pass-own-sweep-unspent", "sync check of a fresh wallet passed although its own %s (state %d) has an unspent output", which.label, which.state)
		return
	}
	if err != nil && !present && !syncErred {
		r.Failf("C34:fresh-sync-fail-no-own-sweep", "sync check of a fresh wallet failed (%v) although none of the wallet's unspent outputs comes from an own sweep transaction", err)
		return
	}
}
