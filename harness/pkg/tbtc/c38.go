package tbtc

// C38 (part 1 of 2): the real walletRegistry + walletStorage + signer
// marshaling on a simulated disk. Histories, fault enumeration and oracle:
// verifadapt.RunRegistryScenario. Signers use the package's tECDSA key-share
// fixtures (member m -> fixture share m-1) under four wallet public keys
// (two ordinary ones, one with a short X and one with a short Y coordinate).

import (
	"crypto/ecdsa"
	"crypto/sha256"
	"fmt"
	"math/big"
	"sync"
	"testing"

	"github.com/keep-network/keep-core/pkg/bitcoin"
	"github.com/keep-network/keep-core/pkg/chain"
	"github.com/keep-network/keep-core/pkg/internal/tecdsatest"
	"github.com/keep-network/keep-core/pkg/internal/verifadapt"
	"github.com/keep-network/keep-core/pkg/protocol/group"
	"github.com/keep-network/keep-core/pkg/tecdsa"

	"verifsim"
)

const (
	c38Wallets = 4
	c38Members = 3
)

var (
	c38Once   sync.Once
	c38Shares []*tecdsa.PrivateKeyShare
	c38Pubs   []*ecdsa.PublicKey
)

func c38Load() {
	c38Once.Do(func() {
		data, err := tecdsatest.LoadPrivateKeyShareTestFixtures(c38Members)
		if err != nil {
			panic(err)
		}
		for i := range data {
			c38Shares = append(c38Shares, tecdsa.NewPrivateKeyShare(data[i]))
		}
		// wallets 0,1: ordinary keys; wallet 2: a key whose X coordinate has a
		// leading zero byte; wallet 3: one whose Y coordinate has (about 1 key
		// in 128 each - encodings that drop the left padding break on them).
		byteLen := (tecdsa.Curve.Params().BitSize + 7) / 8
		var shortX, shortY *ecdsa.PublicKey
		for k := int64(1); k < 100000 && (shortX == nil || shortY == nil || len(c38Pubs) < 2); k++ {
			x, y := tecdsa.Curve.ScalarBaseMult(big.NewInt(k).Bytes())
			pub := &ecdsa.PublicKey{Curve: tecdsa.Curve, X: x, Y: y}
			switch {
			case len(x.Bytes()) < byteLen && len(y.Bytes()) == byteLen && shortX == nil:
				shortX = pub
			case len(y.Bytes()) < byteLen && len(x.Bytes()) == byteLen && shortY == nil:
				shortY = pub
			case len(x.Bytes()) == byteLen && len(y.Bytes()) == byteLen && k >= 1000 && len(c38Pubs) < 2:
				c38Pubs = append(c38Pubs, pub)
			}
		}
		if shortX == nil || shortY == nil || len(c38Pubs) < 2 {
			panic("c38: no wallet keys with short coordinates found")
		}
		c38Pubs = append(c38Pubs, shortX, shortY)
	})
}

func c38WalletID(pub *ecdsa.PublicKey) ([32]byte, error) {
	return sha256.Sum256(append(pub.X.Bytes(), pub.Y.Bytes()...)), nil
}

func c38Signer(e, m int) *signer {
	return &signer{
		wallet: wallet{
			publicKey: c38Pubs[e],
			signingGroupOperators: []chain.Address{
				chain.Address(fmt.Sprintf("operator-%d-1", e)), "operator-2", "operator-3",
			},
		},
		signingGroupMemberIndex: group.MemberIndex(m),
		privateKeyShare:         c38Shares[m-1],
	}
}

func c38SameKey(a, b *ecdsa.PublicKey) bool {
	return a != nil && b != nil && a.X != nil && b.X != nil && a.X.Cmp(b.X) == 0 && a.Y.Cmp(b.Y) == 0
}

func c38Dump(wr *walletRegistry) ([]verifadapt.RegRecord, string) {
	var recs []verifadapt.RegRecord
	known := 0
	for e, pub := range c38Pubs {
		signers := wr.getSigners(pub)
		id, _ := c38WalletID(pub)
		byHash, okHash := wr.getWalletByPublicKeyHash(bitcoin.PublicKeyHash(pub))
		byID, okID := wr.getWalletByID(id)
		has := len(signers) > 0
		if okHash != has || okID != has {
			return nil, fmt.Sprintf("wallet e%d: lookup by public key finds %d signers, by public key hash found=%v, by wallet ID found=%v", e, len(signers), okHash, okID)
		}
		if !has {
			continue
		}
		known++
		if !c38SameKey(byHash.publicKey, pub) || !c38SameKey(byID.publicKey, pub) {
			return nil, fmt.Sprintf("wallet e%d: lookups by hash / ID return another wallet", e)
		}
		for _, s := range signers {
			if s == nil || !c38SameKey(s.wallet.publicKey, pub) {
				return nil, fmt.Sprintf("wallet e%d: signer list holds a signer of another wallet", e)
			}
			b, err := s.Marshal()
			if err != nil {
				return nil, fmt.Sprintf("wallet e%d: loaded signer cannot be marshalled: %v", e, err)
			}
			recs = append(recs, verifadapt.RegRecord{Entity: e, Member: int(s.signingGroupMemberIndex), Material: verifadapt.RegMaterial(b)})
		}
	}
	keys := wr.getWalletsPublicKeys()
	if len(keys) != known {
		return nil, fmt.Sprintf("getWalletsPublicKeys lists %d wallets, lookups by public key know %d", len(keys), known)
	}
	for _, k := range keys {
		found := false
		for _, pub := range c38Pubs {
			if c38SameKey(k, pub) {
				found = true
			}
		}
		if !found {
			return nil, "getWalletsPublicKeys lists a wallet that was never registered"
		}
	}
	return recs, ""
}

func init() {
	verifScenarios["C38"] = verifsim.Scenario{Bubble: false, Fn: c38Run}
}

func c38Run(t *testing.T, r *verifsim.Run) {
	c38Load()
	verifadapt.RunRegistryScenario(r, verifadapt.RegSUT{
		Name:     "tbtc walletRegistry",
		Entities: c38Wallets,
		Members:  c38Members,
		Open: func(h *verifadapt.SimDiskHandle) (verifadapt.RegInst, error) {
			wr, err := newWalletRegistry(h, c38WalletID)
			if err != nil {
				return verifadapt.RegInst{}, err
			}
			return verifadapt.RegInst{
				Register: func(e, m int) error { return wr.registerSigner(c38Signer(e, m)) },
				Archive: func(e int, skip bool) error {
					if skip {
						// a wallet the registry does not know must be refused
						var unknown [20]byte
						unknown[0] = byte(0xE0 + e)
						return wr.archiveWallet(unknown)
					}
					return wr.archiveWallet(bitcoin.PublicKeyHash(c38Pubs[e]))
				},
				Dump: func() ([]verifadapt.RegRecord, string) { return c38Dump(wr) },
			}, nil
		},
	})
}
