package tbtc

// C24: coordination followers accept only the leader's valid proposal.
//
// All operators of one wallet sit on a simulated network with per-node block
// counters. The leader runs the real coordinate() (honest, or with a proposal
// generator that returns a disallowed action), stays silent, or sends from a
// non-lowest seat; the tape injects forged coordination messages from any
// operator (own seat, the leader's index, someone else's index, index 0 / out
// of range, other windows, other wallets, any action) and decides per
// follower which envelopes are delivered, in which order, how often, and how
// the follower's block view advances relative to them (including the active
// phase ending just before / just after a delivery).
//
// The oracle is a reference model, written from the property statement, over
// the history actually delivered to each follower.

import (
	"context"
	"crypto/ecdsa"
	"crypto/sha256"
	"encoding/binary"
	"fmt"
	"math/big"
	"math/rand"
	"sort"
	"sync"
	"testing"
	"testing/synctest"

	"github.com/ipfs/go-log/v2"
	"github.com/keep-network/keep-core/pkg/bitcoin"
	"github.com/keep-network/keep-core/pkg/chain"
	"github.com/keep-network/keep-core/pkg/chain/local_v1"
	"github.com/keep-network/keep-core/pkg/generator"
	"github.com/keep-network/keep-core/pkg/internal/verifadapt"
	"github.com/keep-network/keep-core/pkg/net"
	"github.com/keep-network/keep-core/pkg/operator"
	"github.com/keep-network/keep-core/pkg/protocol/group"
	"github.com/keep-network/keep-core/pkg/tecdsa"

	"verifsim"
)

// Documented protocol parameters (RFC / code comments), restated here so that
// the reference model does not read the implementation's constants.
const (
	c24Freq         = 900 // blocks between coordination windows
	c24ActiveBlocks = 80  // length of the active (communication) phase
	c24SafeShift    = 32  // safe block = coordination block - 32
)

var c24AllActions = []WalletActionType{ActionNoop, ActionHeartbeat, ActionDepositSweep, ActionRedemption, ActionMovingFunds, ActionMovedFundsSweep}

func init() {
	verifScenarios["C24"] = verifsim.Scenario{Bubble: true, Fn: c24Run}
}

// ---------------------------------------------------------------------------
// world: operators, wallet, network, executors (shared with C22)
// ---------------------------------------------------------------------------

type c24Generator struct {
	mu       sync.Mutex
	pick     int  // index into the requested checklist (== len => noop)
	override bool // return forced instead
	forced   CoordinationProposal
	tag      uint64
	requests [][]WalletActionType
	failErr  error
}

func (g *c24Generator) Generate(req *CoordinationProposalRequest) (CoordinationProposal, error) {
	g.mu.Lock()
	defer g.mu.Unlock()
	g.requests = append(g.requests, append([]WalletActionType(nil), req.ActionsChecklist...))
	if g.failErr != nil {
		return nil, g.failErr
	}
	if g.override {
		return g.forced, nil
	}
	n := len(req.ActionsChecklist)
	k := g.pick % (n + 1)
	if k == n {
		return &NoopProposal{}, nil
	}
	return c24MakeProposal(req.ActionsChecklist[k], g.tag), nil
}

type c24Op struct {
	idx    int
	node   *verifadapt.NetNode
	addr   chain.Address
	seats  []group.MemberIndex // ascending
	blocks *verifadapt.NodeBlocks
	chain  *localChain
	ce     *coordinationExecutor
	gen    *c24Generator
	ch     *verifadapt.Chan
}

type c24World struct {
	r        *verifsim.Run
	net      *verifadapt.Net
	ops      []*c24Op
	outsider *verifadapt.NetNode
	wal      wallet
	pkh      [20]byte
	otherPkh [20]byte
	chName   string
	seatOp   []int // seat (0-based) -> operator index
	forgeSeq uint64
}

func c24Key(d uint64) (*operator.PrivateKey, *operator.PublicKey) {
	D := new(big.Int).SetUint64(d)
	x, y := local_v1.DefaultCurve.ScalarBaseMult(D.Bytes())
	pub := operator.PublicKey{Curve: operator.Secp256k1, X: x, Y: y}
	return &operator.PrivateKey{PublicKey: pub, D: D}, &pub
}

// c24Build creates nOps operators holding nSeats seats of one wallet; every
// node's block view starts at startBlock.
func c24Build(r *verifsim.Run, nOps, nSeats int, startBlock uint64) *c24World {
	tp := r.T
	w := &c24World{r: r, net: verifadapt.NewNet()}
	wx, wy := tecdsa.Curve.ScalarBaseMult(big.NewInt(int64(4242 + tp.Choose("wallet-key", 1000))).Bytes())
	walletKey := &ecdsa.PublicKey{Curve: tecdsa.Curve, X: wx, Y: wy}
	w.pkh = bitcoin.PublicKeyHash(walletKey)
	ox, oy := tecdsa.Curve.ScalarBaseMult(big.NewInt(99991).Bytes())
	w.otherPkh = bitcoin.PublicKeyHash(&ecdsa.PublicKey{Curve: tecdsa.Curve, X: ox, Y: oy})
	w.chName = fmt.Sprintf("%s-%x-coordination", ProtocolName, w.pkh[:4])

	used := map[uint64]bool{}
	mkNode := func() *verifadapt.NetNode {
		d := 2 + tp.Uint64("operator-key")%(1<<62)
		for used[d] {
			d++
		}
		used[d] = true
		priv, pub := c24Key(d)
		return w.net.AddNodeWithKey(priv, pub)
	}
	for i := 0; i < nOps; i++ {
		nn := mkNode()
		op := &c24Op{idx: i, node: nn, blocks: verifadapt.NewNodeBlocks(startBlock), gen: &c24Generator{}}
		op.chain = &localChain{
			blocksHashesByNumber: map[uint64][32]byte{},
			blockCounter:         op.blocks,
			operatorPrivateKey:   nn.Priv,
		}
		op.addr = op.chain.Signing().PublicKeyBytesToAddress(nn.PubBytes)
		w.ops = append(w.ops, op)
	}
	w.outsider = mkNode()

	// seats: every operator holds at least one; the rest by tape (repeated
	// seats); seat order by tape
	assign := make([]int, 0, nSeats)
	for i := 0; i < nOps; i++ {
		assign = append(assign, i)
	}
	for len(assign) < nSeats {
		assign = append(assign, tp.Choose("extra-seat-owner", nOps))
	}
	perm := tp.Perm("seat-order", nSeats)
	w.seatOp = make([]int, nSeats)
	operators := make([]chain.Address, nSeats)
	for s := 0; s < nSeats; s++ {
		o := assign[perm[s]]
		w.seatOp[s] = o
		operators[s] = w.ops[o].addr
		w.ops[o].seats = append(w.ops[o].seats, group.MemberIndex(s+1))
	}
	w.wal = wallet{publicKey: walletKey, signingGroupOperators: operators}

	logger := log.Logger("verif-c24")
	for _, op := range w.ops {
		op := op
		op.ch = op.node.Channel(w.chName)
		op.ch.SetUnmarshaler(func() net.TaggedUnmarshaler { return &coordinationMessage{} })
		mv := group.NewMembershipValidator(logger, w.wal.signingGroupOperators, op.chain.Signing())
		_ = op.ch.SetFilter(mv.IsInGroup)
		waitFn := func(ctx context.Context, h uint64) error {
			wait, err := op.blocks.BlockHeightWaiter(h)
			if err != nil {
				return err
			}
			select {
			case <-wait:
			case <-ctx.Done():
			}
			return nil
		}
		addr, err := op.chain.operatorAddress()
		if err != nil || addr != op.addr {
			r.Inconclusive("harness-address-mismatch")
		}
		op.ce = newCoordinationExecutor(op.chain, w.wal, append([]group.MemberIndex(nil), op.seats...), addr,
			op.gen, op.ch, mv, generator.NewProtocolLatch(), waitFn)
	}
	return w
}

func (w *c24World) setSafeHash(cb uint64, h [32]byte) {
	for _, op := range w.ops {
		op.chain.blocksHashesByNumberMutex.Lock()
		op.chain.blocksHashesByNumber[cb-c24SafeShift] = h
		op.chain.blocksHashesByNumberMutex.Unlock()
	}
}

func (w *c24World) opByAddr(a chain.Address) *c24Op {
	for _, op := range w.ops {
		if op.addr == a {
			return op
		}
	}
	return nil
}

func (w *c24World) opName(a chain.Address) string {
	if op := w.opByAddr(a); op != nil {
		return fmt.Sprintf("op%d", op.idx)
	}
	if string(a) == string(w.ops[0].chain.Signing().PublicKeyBytesToAddress(w.outsider.PubBytes)) {
		return "outsider"
	}
	return "unknown-address"
}

// c24RefChecklist is the checklist rule as documented: redemption on every
// window; deposit sweep, moved funds sweep and moving funds every 4th window;
// heartbeat with probability 1/16 drawn from an RNG seeded with the first 8
// bytes (big endian) of seed = sha256(wallet public key hash | safe block hash).
func c24RefChecklist(index uint64, pkh [20]byte, safeHash [32]byte) []WalletActionType {
	if index == 0 {
		return nil
	}
	seed := sha256.Sum256(append(append([]byte{}, pkh[:]...), safeHash[:]...))
	out := []WalletActionType{ActionRedemption}
	if index%4 == 0 {
		out = append(out, ActionDepositSweep, ActionMovedFundsSweep, ActionMovingFunds)
	}
	rng := rand.New(rand.NewSource(int64(binary.BigEndian.Uint64(seed[:8]))))
	if rng.Float64() < 1.0/16.0 {
		out = append(out, ActionHeartbeat)
	}
	return out
}

// c24PickHash derives a safe block hash from one tape decision; when
// wantHeartbeat is set it searches nearby hashes for one whose documented draw
// proposes a heartbeat.
func c24PickHash(tp *verifsim.Tape, pkh [20]byte, index uint64, wantHeartbeat bool) [32]byte {
	var h [32]byte
	copy(h[:], tp.Bytes("safe-block-hash", 32))
	if !wantHeartbeat {
		return h
	}
	for i := 0; i < 400; i++ {
		cl := c24RefChecklist(index, pkh, h)
		if cl[len(cl)-1] == ActionHeartbeat {
			return h
		}
		h = sha256.Sum256(h[:])
	}
	return h
}

func c24MakeProposal(a WalletActionType, tag uint64) CoordinationProposal {
	fee := new(big.Int).SetUint64(tag)
	switch a {
	case ActionHeartbeat:
		p := &HeartbeatProposal{}
		for i := 0; i < 8; i++ {
			p.Message[i] = 0xff
		}
		binary.BigEndian.PutUint64(p.Message[8:], tag)
		return p
	case ActionDepositSweep:
		return &DepositSweepProposal{SweepTxFee: fee}
	case ActionRedemption:
		return &RedemptionProposal{RedemptionTxFee: fee}
	case ActionMovingFunds:
		return &MovingFundsProposal{MovingFundsTxFee: fee}
	case ActionMovedFundsSweep:
		return &MovedFundsSweepProposal{SweepTxFee: fee}
	default:
		return &NoopProposal{}
	}
}

// c24Tag reads the tag back (0 for noop / unknown).
func c24Tag(p CoordinationProposal) uint64 {
	u := func(b *big.Int) uint64 {
		if b == nil {
			return 0
		}
		return b.Uint64()
	}
	switch q := p.(type) {
	case *HeartbeatProposal:
		return binary.BigEndian.Uint64(q.Message[8:])
	case *DepositSweepProposal:
		return u(q.SweepTxFee)
	case *RedemptionProposal:
		return u(q.RedemptionTxFee)
	case *MovingFundsProposal:
		return u(q.MovingFundsTxFee)
	case *MovedFundsSweepProposal:
		return u(q.SweepTxFee)
	}
	return 0
}

// c24Msg is the simulator's knowledge about one envelope.
type c24Msg struct {
	env     *verifadapt.Envelope
	fromOp  int // operator index of the authenticated sender, -1 = outsider
	claimed uint32
	block   uint64
	wallet  [20]byte
	action  WalletActionType
	tag     uint64
	real    bool // sent by the real leader routine
	note    string
}

func (w *c24World) forge(fromOp int, claimed uint32, block uint64, pkh [20]byte, a WalletActionType, tag uint64, note string) *c24Msg {
	m := &coordinationMessage{senderID: group.MemberIndex(claimed), coordinationBlock: block, walletPublicKeyHash: pkh, proposal: c24MakeProposal(a, tag)}
	payload, err := m.Marshal()
	if err != nil {
		panic(err)
	}
	if a == ActionNoop {
		tag = 0 // a noop proposal carries no payload
	}
	w.forgeSeq++
	node := w.outsider
	if fromOp >= 0 {
		node = w.ops[fromOp].node
	}
	env := &verifadapt.Envelope{From: node.Index, Channel: w.chName, Type: m.Type(), Payload: payload, Seqno: 1000000 + w.forgeSeq}
	return &c24Msg{env: env, fromOp: fromOp, claimed: claimed, block: block, wallet: pkh, action: a, tag: tag, note: note}
}

// fromEnvelope describes an envelope published by real code.
func (w *c24World) fromEnvelope(env *verifadapt.Envelope) *c24Msg {
	cm, ok := env.Sent.(*coordinationMessage)
	if !ok {
		return nil
	}
	from := -1
	for _, op := range w.ops {
		if op.node.Index == env.From {
			from = op.idx
		}
	}
	return &c24Msg{env: env, fromOp: from, claimed: uint32(cm.senderID), block: cm.coordinationBlock, wallet: cm.walletPublicKeyHash,
		action: cm.proposal.ActionType(), tag: c24Tag(cm.proposal), real: true, note: "real-leader"}
}

type c24Fault struct {
	culprit string // opN
	typ     CoordinationFaultType
}

func c24FaultsString(fs []c24Fault) string {
	s := make([]string, len(fs))
	for i, f := range fs {
		s[i] = fmt.Sprintf("%s:%s", f.culprit, f.typ)
	}
	sort.Strings(s)
	return fmt.Sprint(s)
}

func c24Contains(l []WalletActionType, a WalletActionType) bool {
	for _, x := range l {
		if x == a {
			return true
		}
	}
	return false
}

func c24HasSeat(seats []group.MemberIndex, c uint32) bool {
	for _, s := range seats {
		if uint32(s) == c {
			return true
		}
	}
	return false
}

// classify is the reference reading of one delivered message by follower f.
func (w *c24World) classify(m *c24Msg, f *c24Op, leader *c24Op, cb uint64, allowed []WalletActionType) string {
	switch {
	case m.fromOp < 0:
		return "outsider"
	case c24HasSeat(f.seats, m.claimed):
		return "receivers-own-index"
	case !c24HasSeat(w.ops[m.fromOp].seats, m.claimed):
		return "index-not-held-by-sender"
	case m.block != cb:
		return "other-window"
	case m.wallet != w.pkh:
		return "other-wallet"
	case m.claimed != uint32(leader.seats[0]):
		return "impersonation"
	case !c24Contains(allowed, m.action):
		return "leader-disallowed-action"
	}
	return "leader-valid"
}

// ---------------------------------------------------------------------------
// the scenario
// ---------------------------------------------------------------------------

type c24Follower struct {
	op      *c24Op
	direct  bool
	allowed []WalletActionType // reference allowed list for this follower
	started bool

	mu       sync.Mutex
	done     bool
	proposal CoordinationProposal
	faults   []*coordinationFault
	err      error
	resLead  chain.Address
	resBlock uint64
	pan      interface{}

	// model
	history    []*c24Msg
	seenEnv    map[string]bool
	mAccepted  *c24Msg
	mFaults    []c24Fault
	mIdle      bool
	lateDeliv  int
	acceptedAt int
}

func c24Run(t *testing.T, r *verifsim.Run) {
	tp := r.T
	nOps := 3 + tp.Choose("operators", 4)
	nSeats := nOps + tp.Choose("extra-seats", 11-nOps)
	index := uint64(1 + tp.Choose("window-index", 9))
	cb := index * c24Freq
	activeEnd := cb + c24ActiveBlocks

	w := c24Build(r, nOps, nSeats, cb)
	safeHash := c24PickHash(tp, w.pkh, index, tp.Chance("want-heartbeat-window", 1, 5))
	w.setSafeHash(cb, safeHash)
	// hashes of neighbouring windows (not used by this window)
	refChecklist := c24RefChecklist(index, w.pkh, safeHash)

	// the leader is an input of this property (C22 checks the election)
	seed, err := w.ops[0].ce.getSeed(cb)
	if err != nil {
		r.Inconclusive("harness-seed")
		return
	}
	leaderAddr := w.ops[0].ce.getLeader(seed)
	leader := w.opByAddr(leaderAddr)
	if leader == nil {
		r.Failf("C24:leader-not-an-operator", "getLeader returned an address that is none of the wallet's operators")
		return
	}

	// leader mode: 0 honest, 1 silent, 2 disallowed action, 3 non-lowest seat
	mode := tp.Weighted("leader-mode", 5, 2, 2, 2)
	var notAllowed []WalletActionType
	for _, a := range c24AllActions {
		if a != ActionNoop && !c24Contains(refChecklist, a) {
			notAllowed = append(notAllowed, a)
		}
	}
	if mode == 2 && len(notAllowed) == 0 {
		mode = 0
	}
	if mode == 3 && len(leader.seats) < 2 {
		mode = 0
	}
	nextTag := uint64(100)
	newTag := func() uint64 { nextTag++; return nextTag }
	leader.gen.pick = tp.Choose("leader-pick", 5)
	leader.gen.tag = newTag()
	switch mode {
	case 1:
		r.Fault("leader-silent")
	case 2:
		leader.gen.override = true
		leader.gen.forced = c24MakeProposal(notAllowed[tp.Choose("disallowed-action", len(notAllowed))], leader.gen.tag)
		r.Fault("leader-disallowed-action")
	case 3:
		r.Fault("leader-non-lowest-seat")
	}

	var followers []*c24Follower
	for _, op := range w.ops {
		if op == leader {
			continue
		}
		f := &c24Follower{op: op, seenEnv: map[string]bool{}, acceptedAt: -1}
		f.direct = tp.Chance("follower-direct-routine", 1, 2)
		if f.direct {
			// direct call of executeFollowerRoutine: the allowed list is an
			// input, chosen by the tape (benign: the window's own list + noop)
			if tp.Chance("custom-allowed-list", 1, 3) {
				for _, a := range c24AllActions {
					if tp.Chance("allow", 1, 2) {
						f.allowed = append(f.allowed, a)
					}
				}
			} else {
				f.allowed = append(append([]WalletActionType{}, refChecklist...), ActionNoop)
			}
		} else {
			f.allowed = append(append([]WalletActionType{}, refChecklist...), ActionNoop)
		}
		followers = append(followers, f)
	}
	r.Logf("cfg ops=%d seats=%v window=%d leader=op%d leaderSeats=%v mode=%d checklist=%v", nOps, w.seatOp, index, leader.idx, leader.seats, mode, refChecklist)
	for _, f := range followers {
		r.Logf("follower op%d seats=%v direct=%v allowed=%v", f.op.idx, f.op.seats, f.direct, f.allowed)
	}

	startFollower := func(f *c24Follower) {
		f.started = true
		go func() {
			defer func() {
				p := recover()
				f.mu.Lock()
				f.pan = p
				f.done = true
				f.mu.Unlock()
			}()
			if f.direct {
				ctx, cancel := withCancelOnBlock(context.Background(), activeEnd, f.op.ce.waitForBlockFn)
				p, fs, err := f.op.ce.executeFollowerRoutine(ctx, leaderAddr, cb, append([]WalletActionType{}, f.allowed...))
				cancel()
				f.mu.Lock()
				f.proposal, f.faults, f.err = p, fs, err
				f.resLead, f.resBlock = leaderAddr, cb
				f.mu.Unlock()
				return
			}
			res, err := f.op.ce.coordinate(newCoordinationWindow(cb))
			f.mu.Lock()
			f.err = err
			if res != nil {
				f.proposal, f.faults = res.proposal, res.faults
				f.resLead = res.leader
				if res.window != nil {
					f.resBlock = res.window.coordinationBlock
				}
			}
			f.mu.Unlock()
		}()
	}
	isDone := func(f *c24Follower) bool {
		f.mu.Lock()
		defer f.mu.Unlock()
		return f.done
	}

	var pool []*c24Msg
	collect := func() {
		for _, e := range w.net.Drain() {
			if m := w.fromEnvelope(e); m != nil {
				pool = append(pool, m)
			}
		}
	}
	leaderStarted := false
	var leaderErr error
	var leaderRes *coordinationResult
	leaderDone := false
	var lmu sync.Mutex
	startLeader := func() {
		leaderStarted = true
		switch mode {
		case 0, 2:
			go func() {
				res, err := leader.ce.coordinate(newCoordinationWindow(cb))
				lmu.Lock()
				leaderRes, leaderErr, leaderDone = res, err, true
				lmu.Unlock()
			}()
		case 3:
			seat := leader.seats[1+tp.Choose("leader-seat", len(leader.seats)-1)]
			a := ActionNoop
			if k := leader.gen.pick % (len(refChecklist) + 1); k < len(refChecklist) {
				a = refChecklist[k]
			}
			pool = append(pool, w.forge(leader.idx, uint32(seat), cb, w.pkh, a, leader.gen.tag, "leader-non-lowest-seat"))
		}
	}

	// model update for one delivery
	modelDeliver := func(f *c24Follower, m *c24Msg) {
		key := fmt.Sprintf("%d/%d", m.env.From, m.env.Seqno)
		if f.seenEnv[key] {
			r.Fault("duplicate-envelope")
			return // transport-level retransmission copy: not a new message
		}
		f.seenEnv[key] = true
		f.history = append(f.history, m)
		cls := w.classify(m, f.op, leader, cb, f.allowed)
		if !(m.real && cls == "leader-valid") {
			r.Fault("msg-" + cls)
		}
		if m.fromOp >= 0 && m.fromOp != leader.idx && m.claimed == uint32(leader.seats[0]) {
			r.Probe("leader-index-claimed-by-other-operator")
		}
		switch cls {
		case "impersonation":
			f.mFaults = append(f.mFaults, c24Fault{fmt.Sprintf("op%d", m.fromOp), FaultLeaderImpersonation})
		case "leader-disallowed-action":
			f.mFaults = append(f.mFaults, c24Fault{fmt.Sprintf("op%d", leader.idx), FaultLeaderMistake})
		case "leader-valid":
			f.mAccepted = m
			f.acceptedAt = len(f.history) - 1
		}
	}

	syncCheck := func(what string) bool {
		for _, f := range followers {
			if !f.started {
				continue
			}
			d := isDone(f)
			modelDone := f.mAccepted != nil || f.mIdle
			if d == modelDone {
				continue
			}
			last := "none"
			lastCls := "none"
			if n := len(f.history); n > 0 {
				m := f.history[n-1]
				lastCls = w.classify(m, f.op, leader, cb, f.allowed)
				last = fmt.Sprintf("%s from op%d claiming index %d, block %d, action %s (%s)", m.note, m.fromOp, m.claimed, m.block, m.action, lastCls)
			}
			if d {
				f.mu.Lock()
				p, e, pan := f.proposal, f.err, f.pan
				f.mu.Unlock()
				switch {
				case pan != nil:
					r.Failf("C24:follower-panic", "follower op%d panicked: %v (event %s, last message: %s)", f.op.idx, pan, what, last)
				case e == nil:
					act := "nil"
					if p != nil {
						act = p.ActionType().String()
					}
					r.Failf("C24:accepted-"+lastCls, "follower op%d (seats %v, allowed %v) returned proposal %s at height %d although no valid leader message was delivered in its active phase; last delivered message: %s; leader op%d lowest seat %d (event %s)",
						f.op.idx, f.op.seats, f.allowed, act, f.op.blocks.Height(), last, leader.idx, leader.seats[0], what)
				default:
					r.Failf("C24:gave-up-before-active-phase-end", "follower op%d returned error %v at height %d, before the active phase end %d (event %s)", f.op.idx, e, f.op.blocks.Height(), activeEnd, what)
				}
			} else if f.mIdle {
				r.Failf("C24:follower-outlives-active-phase", "follower op%d still waits at height %d, after the active phase end %d, at quiescence (event %s)", f.op.idx, f.op.blocks.Height(), activeEnd, what)
			} else {
				r.Failf("C24:valid-proposal-not-returned", "follower op%d did not return after the valid leader message was delivered in its active phase (height %d < %d): %s (event %s)", f.op.idx, f.op.blocks.Height(), activeEnd, last, what)
			}
			return false
		}
		return true
	}

	advance := func(op *c24Op, to uint64) {
		if to <= op.blocks.Height() {
			return
		}
		r.AddSim(0, int64(to-op.blocks.Height()))
		op.blocks.Advance(to)
	}

	// initial: tape decides which followers listen from the start
	for _, f := range followers {
		if !tp.Chance("follower-starts-late", 1, 5) {
			startFollower(f)
		}
	}
	synctest.Wait()
	if mode != 1 && !tp.Chance("leader-starts-late", 1, 4) {
		startLeader()
		synctest.Wait()
		collect()
	}

	injected := 0
	maxInject := tp.Choose("max-forged", 9)
	for step := 0; step < 90 && !r.Failed(); step++ {
		allDone := true
		for _, f := range followers {
			if !f.started || !(f.mAccepted != nil || f.mIdle) {
				allDone = false
			}
		}
		if allDone && (leaderStarted || mode == 1) {
			break
		}
		r.Step()
		type ev struct {
			kind string
			a, b int
		}
		kinds := map[string][]ev{}
		for i, f := range followers {
			if !f.started && f.op.blocks.Height() < activeEnd {
				kinds["start"] = append(kinds["start"], ev{"start", i, 0})
			}
			if f.op.blocks.Height() < activeEnd {
				kinds["advance"] = append(kinds["advance"], ev{"advance", i, 0})
			}
		}
		if !leaderStarted && mode != 1 {
			kinds["leader"] = append(kinds["leader"], ev{"leader", 0, 0})
		}
		for pi := range pool {
			for fi, f := range followers {
				if !f.started {
					continue
				}
				if f.mAccepted == nil && !f.mIdle && f.op.blocks.Height() < activeEnd {
					kinds["deliver"] = append(kinds["deliver"], ev{"deliver", pi, fi})
				} else {
					kinds["deliver-late"] = append(kinds["deliver-late"], ev{"deliver-late", pi, fi})
				}
			}
		}
		if injected < maxInject {
			kinds["inject"] = append(kinds["inject"], ev{"inject", 0, 0})
		}
		order := []string{"deliver", "leader", "start", "advance", "inject", "deliver-late"}
		weight := map[string]int{"deliver": 8, "leader": 3, "start": 3, "advance": 4, "inject": 4, "deliver-late": 1}
		var avail []string
		var ws []int
		for _, k := range order {
			if len(kinds[k]) > 0 {
				avail = append(avail, k)
				ws = append(ws, weight[k])
			}
		}
		if len(avail) == 0 {
			break
		}
		kd := avail[tp.Weighted("event", ws...)]
		what := kd
		switch kd {
		case "start":
			e := kinds[kd][tp.Choose("start-which", len(kinds[kd]))]
			startFollower(followers[e.a])
			r.Fault("follower-joined-late")
			r.Logf("start follower op%d at %d", followers[e.a].op.idx, followers[e.a].op.blocks.Height())
		case "leader":
			startLeader()
			r.Logf("start leader")
		case "advance":
			e := kinds[kd][tp.Choose("advance-which", len(kinds[kd]))]
			f := followers[e.a]
			h := f.op.blocks.Height()
			var to uint64
			switch tp.Weighted("advance-by", 4, 3, 2, 2) {
			case 0:
				to = h + 1
			case 1:
				to = h + uint64(2+tp.Choose("blocks", 30))
			case 2:
				to = activeEnd - 1
			default:
				to = activeEnd
			}
			if to > activeEnd {
				to = activeEnd
			}
			if to <= h {
				to = h + 1
			}
			advance(f.op, to)
			if to >= activeEnd && f.started && f.mAccepted == nil {
				f.mIdle = true
			}
			what = fmt.Sprintf("advance op%d to %d", f.op.idx, to)
			r.Logf("%s", what)
		case "inject":
			injected++
			from := tp.Choose("forged-sender", nOps+1)
			fromOp := from
			if from == nOps {
				fromOp = -1
			}
			var claimed uint32
			ck := tp.Choose("forged-index-kind", 7)
			sender := leader
			if fromOp >= 0 {
				sender = w.ops[fromOp]
			}
			switch ck {
			case 0: // own lowest seat
				claimed = uint32(sender.seats[0])
			case 1: // own other seat
				claimed = uint32(sender.seats[tp.Choose("own-seat", len(sender.seats))])
			case 2: // the leader's index
				claimed = uint32(leader.seats[0])
			case 3: // another seat of the leader
				claimed = uint32(leader.seats[tp.Choose("leader-seat", len(leader.seats))])
			case 4: // any seat of the wallet
				claimed = uint32(1 + tp.Choose("any-seat", nSeats))
			case 5:
				claimed = 0
			default:
				claimed = uint32(nSeats + 1 + tp.Choose("beyond", 3))
			}
			block := cb
			switch tp.Weighted("forged-window", 8, 1, 1, 1) {
			case 1:
				block = cb - c24Freq
			case 2:
				block = cb + c24Freq
			case 3:
				block = cb + 1
			}
			pkh := w.pkh
			if tp.Chance("forged-other-wallet", 1, 8) {
				pkh = w.otherPkh
			}
			a := c24AllActions[tp.Choose("forged-action", len(c24AllActions))]
			m := w.forge(fromOp, claimed, block, pkh, a, newTag(), "forged")
			pool = append(pool, m)
			what = fmt.Sprintf("inject #%d from op%d index=%d block=%d ownWallet=%v action=%s", len(pool)-1, fromOp, claimed, block, pkh == w.pkh, a)
			r.Logf("%s", what)
			r.NonTrivial()
		case "deliver", "deliver-late":
			e := kinds[kd][tp.Choose("deliver-which", len(kinds[kd]))]
			m, f := pool[e.a], followers[e.b]
			listening := f.started && f.mAccepted == nil && !f.mIdle && f.op.blocks.Height() < activeEnd
			if listening {
				modelDeliver(f, m)
			} else {
				f.lateDeliv++
				r.Fault("delivered-outside-active-phase")
			}
			n := w.net.Deliver(m.env, f.op.node.Index)
			what = fmt.Sprintf("deliver #%d (%s, from op%d index %d) to op%d at %d listening=%v handlers=%d", e.a, m.note, m.fromOp, m.claimed, f.op.idx, f.op.blocks.Height(), listening, n)
			r.Logf("%s", what)
			if e.a != 0 || m.fromOp != leader.idx {
				r.NonTrivial()
			}
		}
		synctest.Wait()
		collect()
		if !syncCheck(what) {
			break
		}
	}

	// end of the window for everybody
	if !r.Failed() {
		for _, f := range followers {
			advance(f.op, activeEnd)
			if f.started && f.mAccepted == nil {
				f.mIdle = true
			}
		}
		advance(leader, activeEnd)
		synctest.Wait()
		syncCheck("window end")
	}

	// ---- final oracle ----
	for _, f := range followers {
		if r.Failed() {
			break
		}
		if !f.started {
			continue
		}
		f.mu.Lock()
		p, fs, e, pan := f.proposal, f.faults, f.err, f.pan
		resLead, resBlock := f.resLead, f.resBlock
		f.mu.Unlock()
		if pan != nil {
			r.Failf("C24:follower-panic", "follower op%d panicked: %v", f.op.idx, pan)
			break
		}
		got := make([]c24Fault, 0, len(fs))
		for _, x := range fs {
			got = append(got, c24Fault{w.opName(x.culprit), x.faultType})
		}
		hist := ""
		for i, m := range f.history {
			hist += fmt.Sprintf(" [%d:%s op%d idx%d blk%d %s tag%d => %s]", i, m.note, m.fromOp, m.claimed, m.block, m.action, m.tag, w.classify(m, f.op, leader, cb, f.allowed))
		}
		if f.mAccepted != nil {
			m := f.mAccepted
			if e != nil {
				r.Failf("C24:valid-proposal-not-returned", "follower op%d returned error %v although a valid leader message was delivered in its active phase; history:%s", f.op.idx, e, hist)
				break
			}
			if p == nil || p.ActionType() != m.action || c24Tag(p) != m.tag {
				r.Failf("C24:wrong-proposal-returned", "follower op%d returned proposal %v (tag %d), want the first valid leader message's proposal %s (tag %d); history:%s", f.op.idx, p, c24Tag(p), m.action, m.tag, hist)
				break
			}
			if resLead != leaderAddr || resBlock != cb {
				r.Failf("C24:result-metadata", "follower op%d result names leader %s window %d, want op%d window %d", f.op.idx, w.opName(resLead), resBlock, leader.idx, cb)
				break
			}
			if !c24CheckFaults(r, w, f, got, f.mFaults, hist) {
				break
			}
			if len(f.mFaults) > 0 {
				r.Probe("accepted-after-faults")
			}
			if f.acceptedAt > 0 {
				r.Probe("accepted-after-ignored-or-faulty-messages")
			}
			r.Probe("follower-accepted")
			continue
		}
		// idle
		if e == nil {
			act := "nil"
			if p != nil {
				act = p.ActionType().String()
			}
			r.Failf("C24:idle-without-error", "follower op%d returned no error (proposal %s) although no valid leader message was delivered in its active phase; history:%s", f.op.idx, act, hist)
			break
		}
		if f.direct {
			if p != nil {
				r.Failf("C24:idle-with-proposal", "follower op%d returned an error AND proposal %s", f.op.idx, p.ActionType())
				break
			}
			want := append(append([]c24Fault{}, f.mFaults...), c24Fault{fmt.Sprintf("op%d", leader.idx), FaultLeaderIdleness})
			if !c24CheckFaults(r, w, f, got, want, hist) {
				break
			}
			r.Probe("idle-faults-checked")
			if len(f.mFaults) > 0 {
				r.Probe("idle-after-faults")
			}
		}
		if len(f.history) > 0 {
			r.Probe("idle-despite-messages")
		}
		if f.lateDeliv > 0 {
			r.Probe("message-after-active-phase-ignored")
		}
		r.Probe("follower-idle")
	}
	if mode == 0 || mode == 2 {
		lmu.Lock()
		if leaderStarted && leaderDone && leaderErr != nil {
			r.Probe("leader-routine-error")
		}
		_ = leaderRes
		lmu.Unlock()
	}
}

// c24CheckFaults compares fault multisets (culprit, type).
func c24CheckFaults(r *verifsim.Run, w *c24World, f *c24Follower, got, want []c24Fault, hist string) bool {
	count := func(l []c24Fault) map[c24Fault]int {
		m := map[c24Fault]int{}
		for _, x := range l {
			m[x]++
		}
		return m
	}
	g, wn := count(got), count(want)
	keys := map[c24Fault]bool{}
	for k := range g {
		keys[k] = true
	}
	for k := range wn {
		keys[k] = true
	}
	var ks []c24Fault
	for k := range keys {
		ks = append(ks, k)
	}
	sort.Slice(ks, func(i, j int) bool {
		if ks[i].culprit != ks[j].culprit {
			return ks[i].culprit < ks[j].culprit
		}
		return ks[i].typ < ks[j].typ
	})
	for _, k := range ks {
		if g[k] == wn[k] {
			continue
		}
		cls := "C24:fault-missing"
		if g[k] > wn[k] {
			cls = "C24:fault-spurious"
			if k.typ == FaultLeaderImpersonation {
				// blamed on somebody who did not send that many impersonations
				cls = "C24:impersonation-blamed-on-wrong-operator"
			}
		}
		r.Failf(cls+":"+k.typ.String(), "follower op%d: %d fault(s) %s naming %s, want %d; got %s want %s; history:%s",
			f.op.idx, g[k], k.typ, k.culprit, wn[k], c24FaultsString(got), c24FaultsString(want), hist)
		return false
	}
	return true
}
