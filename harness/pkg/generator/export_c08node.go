package generator

// Overlay-only, NON-test file (exists only in verification builds, never in
// /repo). Used by the node-level mode of C08 (harness/pkg/tbtc/c08node.go).

// VerifC08nodeStoppedScheduler returns a Scheduler in the "stopped" state:
// workers handed to it (the pre-parameter generation of the tECDSA pool) are
// queued and never started. This is the state the production scheduler is in
// whenever a registered protocol latch is locked, i.e. during the whole key
// generation the node-level scenario observes; it keeps minutes of real-time
// safe-prime generation (a goroutine that is never durably blocked) out of the
// synctest bubble.
func VerifC08nodeStoppedScheduler() *Scheduler {
	return &Scheduler{state: stopped}
}
