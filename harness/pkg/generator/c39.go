package generator

// C39 (part 1 of 2): the real ParameterPool + Scheduler + ProtocolLatch on a
// simulated disk. The persistence layer of this part is a thin harness-side
// Persistence[T] over keep-common's BasicHandle (pkg/tecdsa/dkg's
// preParamsStorage cannot be imported from here - import cycle; it runs in
// part 2); it holds no lock across storage calls, so every storage call is a
// scheduling point of its own (concurrent GetNow callers and the worker
// interleave at Save/Delete granularity). Scenario engine, fault plan and
// oracle: verifadapt.RunPoolScenario.

import (
	"context"
	"encoding/binary"
	"fmt"
	"sort"
	"testing"
	"time"

	"github.com/ipfs/go-log/v2"
	"github.com/keep-network/keep-common/pkg/persistence"
	"github.com/keep-network/keep-core/pkg/internal/verifadapt"

	"verifsim"
)

const c39Dir = "preparams"

// c39Param is the toy parameter: a unique tag, a body derived from it and a
// checksum ("valid" = checksum and body match the tag).
type c39Param struct {
	Tag  uint64
	Body [16]byte
	Sum  uint64
}

func c39Body(tag uint64) (b [16]byte) {
	x := verifsim.Mix(tag, 0xC39)
	binary.BigEndian.PutUint64(b[:8], x)
	binary.BigEndian.PutUint64(b[8:], verifsim.Mix(x, tag))
	return
}

func c39Sum(tag uint64, body [16]byte) uint64 {
	return verifsim.Mix(tag^binary.BigEndian.Uint64(body[:8]), binary.BigEndian.Uint64(body[8:]))
}

func c39Make(tag uint64) *c39Param {
	p := &c39Param{Tag: tag, Body: c39Body(tag)}
	p.Sum = c39Sum(tag, p.Body)
	return p
}

func c39Valid(p *c39Param) bool {
	return p.Body == c39Body(p.Tag) && p.Sum == c39Sum(p.Tag, p.Body)
}

func c39Encode(p *c39Param) []byte {
	b := make([]byte, 0, 36)
	b = append(b, 'C', '3', '9', 'P')
	b = binary.BigEndian.AppendUint64(b, p.Tag)
	b = append(b, p.Body[:]...)
	b = binary.BigEndian.AppendUint64(b, p.Sum)
	return b
}

func c39Decode(b []byte) (*c39Param, bool) {
	if len(b) != 36 || string(b[:4]) != "C39P" {
		return nil, false
	}
	p := &c39Param{Tag: binary.BigEndian.Uint64(b[4:12]), Sum: binary.BigEndian.Uint64(b[28:36])}
	copy(p.Body[:], b[12:28])
	if !c39Valid(p) {
		return nil, false
	}
	return p, true
}

// c39Store is the harness-side Persistence[c39Param] (declared a stub).
type c39Store struct {
	h persistence.BasicHandle
}

func (s *c39Store) Save(p *c39Param) (*Persisted[c39Param], error) {
	name := fmt.Sprintf("pp_%08d", p.Tag)
	if err := s.h.Save(c39Encode(p), c39Dir, name); err != nil {
		return nil, fmt.Errorf("saving failed: [%w]", err)
	}
	return &Persisted[c39Param]{Data: *p, ID: name}, nil
}

func (s *c39Store) Delete(p *Persisted[c39Param]) error {
	// like preParamsStorage.Delete: no nil check of its own
	return s.h.Delete(c39Dir, p.ID)
}

func (s *c39Store) ReadAll() ([]*Persisted[c39Param], error) {
	all := make([]*Persisted[c39Param], 0)
	dc, ec := s.h.ReadAll()
	for dc != nil || ec != nil {
		select {
		case d, ok := <-dc:
			if !ok {
				dc = nil
				continue
			}
			if d.Directory() != c39Dir {
				continue
			}
			content, err := d.Content()
			if err != nil {
				continue
			}
			p, ok := c39Decode(content)
			if !ok {
				continue
			}
			all = append(all, &Persisted[c39Param]{Data: *p, ID: d.Name()})
		case _, ok := <-ec:
			if !ok {
				ec = nil
			}
		}
	}
	sort.Slice(all, func(i, j int) bool { return all[i].Data.Tag < all[j].Data.Tag })
	return all, nil
}

func init() {
	verifScenarios["C39"] = verifsim.Scenario{Bubble: true, Fn: c39Run}
}

func c39Run(t *testing.T, r *verifsim.Run) {
	lg := log.Logger("verif-c39")
	verifadapt.RunPoolScenario(r, verifadapt.PoolSUT{
		Fine: true,
		Boot: func(h *verifadapt.SimDiskHandle, size int, delay time.Duration, gen func(context.Context) (uint64, bool)) verifadapt.PoolInst {
			sched := StartScheduler()
			latch := NewProtocolLatch()
			sched.RegisterProtocol(latch)
			pool := NewParameterPool[c39Param](lg, sched, &c39Store{h: h}, size,
				func(ctx context.Context) *c39Param {
					tag, ok := gen(ctx)
					if !ok {
						return nil
					}
					return c39Make(tag)
				}, delay)
			return verifadapt.PoolInst{
				GetNow: func() (verifadapt.PoolGot, error) {
					p, err := pool.GetNow()
					if err != nil {
						return verifadapt.PoolGot{}, err
					}
					if p == nil {
						return verifadapt.PoolGot{Nil: true}, nil
					}
					g := verifadapt.PoolGot{Tag: p.Tag, TagKnown: true, Valid: c39Valid(p)}
					if !g.Valid {
						g.Detail = fmt.Sprintf("tag=%d checksum/body mismatch", p.Tag)
					}
					return g, nil
				},
				Count:  pool.ParametersCount,
				Lock:   latch.Lock,
				Unlock: latch.Unlock,
			}
		},
		FileTag: func(f verifadapt.DiskFile) (uint64, bool) {
			if f.Dir != c39Dir {
				return 0, false
			}
			p, ok := c39Decode(f.Data)
			if !ok {
				return 0, false
			}
			return p.Tag, true
		},
	})
}
