package generator

// C45: background generation pauses while a protocol runs. The real Scheduler
// (StartScheduler: its own 1 s check loop on the fake clock) with 0-3 real
// ProtocolLatch instances and 1-3 worker functions. Protocol executions are
// goroutines that Lock a latch when they start and Unlock it when the tape
// lets them finish (nested executions on one latch, executions on several
// latches); worker iterations park at a gate (and leave it when their context
// is cancelled, as the Scheduler's contract demands); the tape decides the
// order of: time quantum, start/finish of a protocol execution, release of a
// worker iteration, registration of another worker or latch.

import (
	"context"
	"fmt"
	"sort"
	"sync"
	"testing"
	"testing/synctest"
	"time"

	"verifsim"
)

type c45Iter struct {
	worker int
	seq    int
	ctx    context.Context
	ch     chan struct{}
	parked bool
	done   bool
}

type c45Exec struct {
	latch int
	id    int
	ch    chan struct{}
}

type c45Sim struct {
	r  *verifsim.Run
	mu sync.Mutex
	// observed
	iters  []*c45Iter
	starts int
	panics []string
}

const c45Quantum = 250 * time.Millisecond

func init() {
	verifScenarios["C45"] = verifsim.Scenario{Bubble: true, Fn: c45Run}
}

func (s *c45Sim) workerFn(w int) func(context.Context) {
	return func(ctx context.Context) {
		s.mu.Lock()
		s.starts++
		it := &c45Iter{worker: w, seq: s.starts, ctx: ctx, ch: make(chan struct{}), parked: true}
		s.iters = append(s.iters, it)
		s.mu.Unlock()
		s.r.LogUnordered("iteration worker=%d", w)
		select {
		case <-it.ch:
		case <-ctx.Done():
		}
		s.mu.Lock()
		it.parked = false
		it.done = true
		s.mu.Unlock()
	}
}

// live returns, per worker, the parked iterations whose context is not cancelled.
func (s *c45Sim) snapshot() (liveByWorker map[int][]*c45Iter, uncancelled int, starts int) {
	s.mu.Lock()
	defer s.mu.Unlock()
	liveByWorker = map[int][]*c45Iter{}
	for _, it := range s.iters {
		if it.ctx.Err() == nil {
			uncancelled++
			if it.parked {
				liveByWorker[it.worker] = append(liveByWorker[it.worker], it)
			}
		}
	}
	return liveByWorker, uncancelled, s.starts
}

func c45Run(t *testing.T, r *verifsim.Run) {
	tp := r.T
	s := &c45Sim{r: r}
	nLatch0 := tp.Choose("latches", 3)
	nWorker0 := 1 + tp.Choose("workers", 2)
	steps := 30 + tp.Choose("steps", 70)
	r.Logf("cfg latches=%d workers=%d steps=%d", nLatch0, nWorker0, steps)

	sched := StartScheduler()
	synctest.Wait() // the loop's first check ran (nothing registered yet)
	// Phase shift: the simulator acts at 125 ms + k*250 ms, the scheduler
	// checks at j*1 s - never in the same instant (two timers that are due at
	// the same fake instant are not one atomic step for synctest.Wait).
	time.Sleep(c45Quantum / 2)
	synctest.Wait()
	var latches []*ProtocolLatch
	var count []int // model: executions running per latch
	addLatch := func() {
		l := NewProtocolLatch()
		latches = append(latches, l)
		count = append(count, 0)
		sched.RegisterProtocol(l)
	}
	workers := 0
	addWorker := func() {
		sched.compute(s.workerFn(workers))
		workers++
	}
	for i := 0; i < nLatch0; i++ {
		addLatch()
	}
	for i := 0; i < nWorker0; i++ {
		addWorker()
	}
	synctest.Wait()

	var execs []*c45Exec
	nextExec := 0
	quanta := 0
	stopped := false  // model: the last effective check saw an executing protocol
	startsAtStop := 0 // iterations started up to the quiescent point after that check
	anyExecuting := func() bool {
		for _, c := range count {
			if c > 0 {
				return true
			}
		}
		return false
	}

	check := func(when string) bool {
		live, uncancelled, starts := s.snapshot()
		s.mu.Lock()
		pn := append([]string(nil), s.panics...)
		s.mu.Unlock()
		if len(pn) > 0 {
			r.Failf("C45:latch-unlock-panicked", "%s: Unlock panicked although every Unlock followed its Lock: %s (model counters %v)", when, pn[0], count)
			return false
		}
		for i, l := range latches {
			if got, want := l.IsExecuting(), count[i] > 0; got != want {
				r.Failf("C45:latch-count-wrong", "%s: latch %d IsExecuting()=%v but %d executions are running (started minus finished)", when, i, got, count[i])
				return false
			}
		}
		if stopped {
			if uncancelled > 0 {
				r.Failf("C45:worker-context-live-while-protocol-executing", "%s: a check saw an executing protocol (counters %v at that time or since), yet %d worker contexts are not cancelled", when, count, uncancelled)
				return false
			}
			if starts != startsAtStop {
				r.Failf("C45:worker-iteration-started-while-stopped", "%s: %d worker iterations started after the check that saw an executing protocol and before any check saw none", when, starts-startsAtStop)
				return false
			}
		} else {
			for w := 0; w < workers; w++ {
				if len(live[w]) == 0 {
					r.Failf("C45:worker-not-running-while-idle", "%s: no protocol was executing at the last check (counters %v), but worker %d has no running iteration with a live context", when, count, w)
					return false
				}
			}
		}
		return true
	}
	if !check("start") {
		return
	}

	for step := 0; step < steps && !r.Failed(); step++ {
		r.Step()
		live, _, _ := s.snapshot()
		var liveList []*c45Iter
		for _, its := range live {
			liveList = append(liveList, its...)
		}
		// canonical order: by worker, then by arrival within the worker (the
		// arrival order ACROSS workers is decided by the Go scheduler when
		// compute/resume start several goroutines at once)
		sort.Slice(liveList, func(i, j int) bool {
			if liveList[i].worker != liveList[j].worker {
				return liveList[i].worker < liveList[j].worker
			}
			return liveList[i].seq < liveList[j].seq
		})
		type kind struct {
			name string
			w    int
		}
		kinds := []kind{{"quantum", 8}}
		if len(liveList) > 0 {
			kinds = append(kinds, kind{"release", 4})
		}
		if len(latches) > 0 && len(execs) < 4 {
			kinds = append(kinds, kind{"start-protocol", 3})
		}
		if len(execs) > 0 {
			kinds = append(kinds, kind{"finish-protocol", 4})
		}
		if workers < 3 {
			kinds = append(kinds, kind{"add-worker", 1})
		}
		if len(latches) < 3 {
			kinds = append(kinds, kind{"add-latch", 1})
		}
		ws := make([]int, len(kinds))
		for i, k := range kinds {
			ws[i] = k.w
		}
		switch kinds[tp.Weighted("event", ws...)].name {
		case "quantum":
			time.Sleep(c45Quantum)
			synctest.Wait()
			r.AddSim(int64(c45Quantum), 0)
			quanta++
			if quanta%4 == 0 {
				// the scheduler's loop ran checkProtocols at this instant
				if len(latches) > 0 {
					was := stopped
					stopped = anyExecuting()
					if stopped && !was {
						_, _, startsAtStop = s.snapshot()
						r.Probe("check-stopped-workers")
						r.NonTrivial()
					}
					if !stopped && was {
						r.Probe("check-resumed-workers")
					}
				}
				r.Logf("check #%d: counters=%v -> stopped=%v", quanta/4, count, stopped)
			}
		case "release":
			it := liveList[tp.Choose("which-iteration", len(liveList))]
			close(it.ch)
			synctest.Wait()
			r.Logf("worker %d finished an iteration", it.worker)
		case "start-protocol":
			li := tp.Choose("which-latch", len(latches))
			e := &c45Exec{latch: li, id: nextExec, ch: make(chan struct{})}
			nextExec++
			execs = append(execs, e)
			count[li]++
			if count[li] > 1 {
				r.Probe("nested-execution")
			}
			l := latches[li]
			go func() {
				l.Lock()
				<-e.ch
				defer func() {
					if p := recover(); p != nil {
						s.mu.Lock()
						s.panics = append(s.panics, fmt.Sprint(p))
						s.mu.Unlock()
					}
				}()
				l.Unlock()
			}()
			synctest.Wait()
			r.Logf("protocol execution %d started on latch %d -> counters=%v", e.id, li, count)
		case "finish-protocol":
			i := tp.Choose("which-execution", len(execs))
			e := execs[i]
			execs = append(execs[:i], execs[i+1:]...)
			count[e.latch]--
			close(e.ch)
			synctest.Wait()
			r.Logf("protocol execution %d finished on latch %d -> counters=%v", e.id, e.latch, count)
		case "add-worker":
			addWorker()
			synctest.Wait()
			r.Logf("worker %d registered (stopped=%v)", workers-1, stopped)
			if stopped {
				r.Probe("worker-registered-while-stopped")
			}
		case "add-latch":
			addLatch()
			synctest.Wait()
			r.Logf("latch %d registered", len(latches)-1)
		}
		if !check(fmt.Sprintf("step %d", step)) {
			return
		}
	}
	// bounded liveness after the schedule: finish every protocol execution;
	// within two checks the workers must run again.
	for _, e := range execs {
		count[e.latch]--
		close(e.ch)
	}
	execs = nil
	synctest.Wait()
	for q := 0; q < 8; q++ {
		time.Sleep(c45Quantum)
		synctest.Wait()
		quanta++
		if quanta%4 == 0 && len(latches) > 0 {
			stopped = false
		}
	}
	if !stopped {
		check("after all protocols finished")
	}
	// stop the workers for good: hold a latch and let one check pass
	if len(latches) == 0 {
		addLatch()
	}
	latches[0].Lock()
	time.Sleep(5 * c45Quantum)
	synctest.Wait()
}
