package dkg

// Overlay-only, NON-test file (compiled into verification builds of every
// package that imports pkg/tecdsa/dkg; never present in /repo). It lets a
// harness in another package obtain a real Executor whose pre-parameter pool is
// filled from given (fixture) pre-parameters instead of minutes of safe-prime
// generation. Everything else of the Executor is the shipped code.

import (
	"context"
	"sync"
	"time"

	"github.com/bnb-chain/tss-lib/ecdsa/keygen"
	"github.com/ipfs/go-log/v2"

	"github.com/keep-network/keep-core/pkg/generator"
)

type verifMemPersistence struct {
	mu sync.Mutex
	n  int
}

func (p *verifMemPersistence) Save(pp *PreParams) (*generator.Persisted[PreParams], error) {
	p.mu.Lock()
	defer p.mu.Unlock()
	p.n++
	return &generator.Persisted[PreParams]{Data: *pp, ID: "verif"}, nil
}
func (p *verifMemPersistence) Delete(*generator.Persisted[PreParams]) error { return nil }
func (p *verifMemPersistence) ReadAll() ([]*generator.Persisted[PreParams], error) {
	return nil, nil
}

// VerifNewExecutor returns an Executor serving the given pre-parameters in order.
func VerifNewExecutor(logger log.StandardLogger, params []*keygen.LocalPreParams, keyGenerationConcurrency int) *Executor {
	var mu sync.Mutex
	next := 0
	gen := func(ctx context.Context) *PreParams {
		mu.Lock()
		defer mu.Unlock()
		if next >= len(params) {
			// nothing left: park this worker for good
			mu.Unlock()
			<-ctx.Done()
			mu.Lock()
			return nil
		}
		p := params[next]
		next++
		return newPreParams(p)
	}
	pool := generator.NewParameterPool[PreParams](logger, &generator.Scheduler{}, &verifMemPersistence{}, len(params), gen, time.Hour)
	return &Executor{
		tssPreParamsPool:         &tssPreParamsPool{ParameterPool: pool, logger: logger},
		keyGenerationConcurrency: keyGenerationConcurrency,
	}
}
