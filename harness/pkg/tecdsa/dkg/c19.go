package dkg

// C19 (tECDSA DKG part).
//
//  A wire: a victim node with the REAL dkg.RegisterUnmarshallers registration
//    receives valid messages of all six registered types (built in-package with
//    tape contents: a full tss-lib run costs ~12 s) and tape-corrupted copies.
//    Accepted messages go to the real state Receive code of a fresh victim
//    member (ephemeral key state -> symmetricKeyGenerationState.Initiate, i.e.
//    the ECDH over the received keys; resultSigningState.Receive for result
//    signatures).
//  B pre-parameter records: PreParams are saved through the real
//    preParamsStorage on a simulated disk, files are corrupted as a crash / bad
//    disk would, and the pool's start-up read (preParamsStorage.ReadAll) runs.
//    Its per-file work runs in a goroutine keep-core spawns, so every durable
//    file first goes through PreParams.Unmarshal + ValidateWithProof in a
//    recoverable pre-flight.

import (
	"context"
	"math/big"
	"testing"
	"time"

	"github.com/btcsuite/btcd/btcec"
	"github.com/ipfs/go-log/v2"
	"github.com/keep-network/keep-core/pkg/chain"
	"github.com/keep-network/keep-core/pkg/chain/local_v1"
	"github.com/keep-network/keep-core/pkg/crypto/ephemeral"
	"github.com/keep-network/keep-core/pkg/internal/verifadapt"
	"github.com/keep-network/keep-core/pkg/net"
	"github.com/keep-network/keep-core/pkg/protocol/group"
	"github.com/keep-network/keep-core/pkg/protocol/state"

	"verifsim"
)

func init() {
	verifScenarios["C19"] = verifsim.Scenario{Bubble: false, Fn: c19Run, MinBudget: 120}
}

func c19PubKey(tp *verifsim.Tape, label string) *ephemeral.PublicKey {
	b := tp.Bytes(label, 32)
	b[0] &= 0x7f
	b[31] |= 1
	k := ephemeral.UnmarshalPrivateKey(b)
	return (*ephemeral.PublicKey)((*btcec.PrivateKey)(k).PubKey())
}

func c19Run(t *testing.T, r *verifsim.Run) {
	if c19PreParamsDisk(r); r.Failed() {
		return
	}
	c19Wire(r)
}

func c19Wire(r *verifsim.Run) {
	tp := r.T
	logger := log.Logger("verif-c19-tecdsa-dkg")
	sn := verifadapt.NewNet()
	n := 3 + tp.Choose("n", 2)
	var addrs []chain.Address
	var nodes []*verifadapt.NetNode
	var signing chain.Signing
	for i := 0; i < n; i++ {
		nn := sn.AddNode(local_v1.DefaultCurve)
		nodes = append(nodes, nn)
		if signing == nil {
			signing = local_v1.NewSigner(nn.Priv)
		}
		a, err := signing.PublicKeyToAddress(nn.Pub)
		if err != nil {
			panic(err)
		}
		addrs = append(addrs, a)
	}
	senderIdx := 1 + tp.Choose("sender", n-1)
	sender, victim := nodes[senderIdx], nodes[0]
	senderID := group.MemberIndex(senderIdx + 1)
	if tp.Chance("claimed-index-max", 1, 6) {
		// the largest member index the wire format must carry; such a message is
		// decoded, the states then drop it (no such seat)
		senderID = group.MaxMemberIndex
		r.Probe("sender-index-255")
	}
	ch := victim.Channel("tecdsa-dkg")
	RegisterUnmarshallers(ch)
	mv := group.NewMembershipValidator(logger, addrs, signing)
	session := "c19-dkg-session"
	r.Logf("cfg n=%d sender=%d", n, senderID)

	newVictim := func() *ephemeralKeyPairGenerationState {
		m := newMember(logger, nil, 1, n, 1, mv, session, nil, 1)
		st := &ephemeralKeyPairGenerationState{BaseAsyncState: state.NewBaseAsyncState(), channel: ch, member: m.initializeEphemeralKeysGeneration()}
		if err := st.Initiate(context.Background()); err != nil {
			panic(err)
		}
		return st
	}
	signingMember := newSigningMember(logger, 1, group.NewGroup(1, n), mv, session)
	rss := &resultSigningState{BaseAsyncState: state.NewBaseAsyncState(), channel: ch, member: signingMember}

	h := verifadapt.NewHostile(r, "C19", sn, sender.Index, victim.Index, "tecdsa-dkg")
	h.OnAccept = func(typ string, m *verifadapt.Message, valid bool) {
		st := newVictim()
		if err := st.Receive(m); err != nil {
			r.Probe("state-receive-error")
		}
		_ = st.CanTransition()
		kept := len(st.GetAllReceivedMessages(typ)) > 0
		if _, ok := m.Body.(*ephemeralPublicKeyMessage); ok {
			next, err := st.Next()
			if err != nil {
				return
			}
			if err := next.Initiate(context.Background()); err != nil {
				r.Probe("symmetric-key-generation-error")
			} else if kept {
				r.Probe("symmetric-key-generated-from-received-message")
			}
		}
		if _, ok := m.Body.(*resultSignatureMessage); ok {
			_ = rss.Receive(m)
			_ = rss.CanTransition()
		}
		if kept && valid {
			r.Probe("valid-message-kept-by-state")
		} else if kept {
			r.Probe("mutated-message-kept-by-state")
		}
	}

	keys := map[group.MemberIndex]*ephemeral.PublicKey{}
	for i := 1; i <= n; i++ {
		if group.MemberIndex(i) != senderID {
			keys[group.MemberIndex(i)] = c19PubKey(tp, "eph-key")
		}
	}
	peers := func(label string) map[group.MemberIndex][]byte {
		m := map[group.MemberIndex][]byte{}
		for i := 1; i <= n; i++ {
			if group.MemberIndex(i) != senderID {
				m[group.MemberIndex(i)] = tp.Bytes(label, 1+tp.Choose(label+"-len", 200))
			}
		}
		return m
	}
	var hash ResultSignatureHash
	copy(hash[:], tp.Bytes("result-hash", ResultSignatureHashByteSize))
	msgs := []net.TaggedMarshaler{
		&ephemeralPublicKeyMessage{senderID: senderID, ephemeralPublicKeys: keys, sessionID: session},
		&tssRoundOneMessage{senderID: senderID, broadcastPayload: tp.Bytes("r1-broadcast", 1+tp.Choose("r1-len", 300)), sessionID: session},
		&tssRoundTwoMessage{senderID: senderID, broadcastPayload: tp.Bytes("r2-broadcast", 1+tp.Choose("r2-len", 300)), peersPayload: peers("r2-peer"), sessionID: session},
		&tssRoundThreeMessage{senderID: senderID, broadcastPayload: tp.Bytes("r3-broadcast", 1+tp.Choose("r3-len", 300)), sessionID: session},
		&tssFinalizationMessage{senderID: senderID, sessionID: session},
		&resultSignatureMessage{senderID: senderID, resultHash: hash, signature: tp.Bytes("result-signature", 65), publicKey: sender.PubBytes, sessionID: session},
	}
	for _, m := range msgs {
		p := h.RoundTrip(m)
		if r.Failed() || p == nil {
			return
		}
		h.Attack(m.Type(), p, 3+tp.Choose("attacks", 8))
		if r.Failed() {
			return
		}
	}
}

// ---------------------------------------------------------------- B ---

var c19Base = time.Unix(1700000000, 0).UTC()

// the ten numbers of a pre-parameters record and their field paths in
// pb.PreParams (data=1 / paillierSK=1 / publicKey=1 / n=1 ...)
var c19Numbers = []struct {
	name string
	path []int
}{
	{"paillier-N", []int{1, 1, 1, 1}},
	{"paillier-LambdaN", []int{1, 1, 2}},
	{"paillier-PhiN", []int{1, 1, 3}},
	{"NTilde", []int{1, 2}},
	{"H1", []int{1, 3}},
	{"H2", []int{1, 4}},
	{"Alpha", []int{1, 5}},
	{"Beta", []int{1, 6}},
	{"P", []int{1, 7}},
	{"Q", []int{1, 8}},
}

// c19KnockOut edits the field at path: way 0 deletes it, 1 empties it, 2
// replaces its bytes by zeros of the same length. ok=false if the path does
// not exist.
func c19KnockOut(msg []byte, path []int, way int) ([]byte, bool) {
	fs, ok := verifadapt.PBParse(msg)
	if !ok {
		return nil, false
	}
	for i := range fs {
		if int(fs[i].Num) != path[0] || fs[i].Data == nil {
			continue
		}
		if len(path) > 1 {
			sub, ok := c19KnockOut(fs[i].Data, path[1:], way)
			if !ok {
				return nil, false
			}
			fs[i].Data = sub
			return verifadapt.PBBuild(fs), true
		}
		switch way {
		case 0:
			fs = append(fs[:i:i], fs[i+1:]...)
		case 1:
			fs[i].Data = []byte{}
		default:
			fs[i].Data = make([]byte, len(fs[i].Data))
		}
		return verifadapt.PBBuild(fs), true
	}
	return nil, false
}

func c19PreParamsDisk(r *verifsim.Run) {
	tp := r.T
	logger := log.Logger("verif-c19-preparams")
	fx, err := generateMembersTssPreParams(3)
	if err != nil {
		panic(err)
	}
	disk := verifadapt.NewSimDisk()
	storage := newPreParamsStorage(disk.Handle(), logger)
	k := 1 + tp.Choose("records", 3)
	var saved []*PersistedPreParams
	for i := 0; i < k; i++ {
		pp := &PreParams{data: fx[group.MemberIndex(1+i%3)], creationTimestamp: c19Base.Add(time.Duration(1+i) * time.Second)}
		p, err := storage.Save(pp)
		if err != nil {
			r.Failf("C19:valid-record-not-saved:preparams", "preParamsStorage.Save failed on a healthy disk: %v", err)
			return
		}
		saved = append(saved, p)
	}
	files := disk.CurrentFiles()
	if len(files) != k {
		r.Failf("C19:valid-record-not-saved:preparams", "%d pre-params saved, %d files on disk", k, len(files))
		return
	}
	r.Probe("record:preparams")
	intact := map[string]bool{}
	var kinds []string
	knockOut := tp.Chance("knock-out-one-number", 1, 3)
	if knockOut {
		// systematic damage: exactly ONE of the ten numbers of ONE record is
		// deleted / emptied / zeroed, everything else stays intact
		which := tp.Choose("knock-out-which", len(c19Numbers))
		way := tp.Choose("knock-out-how", 3)
		fi := tp.Choose("knock-out-file", len(files))
		num := c19Numbers[which]
		wayName := []string{"deleted", "empty", "zero-bytes"}[way]
		nb, ok := c19KnockOut(files[fi].Data, num.path, way)
		if !ok {
			r.Inconclusive("saved-preparams-not-as-expected")
			return
		}
		disk.PutCurrent(files[fi].Dir, files[fi].Name, nb)
		r.Fault("disk:knock-out-" + wayName)
		r.Probe("preparams-number-knocked-out:" + num.name)
		for i, f := range files {
			if i != fi {
				intact[f.Name] = true
				kinds = append(kinds, "intact")
			} else {
				kinds = append(kinds, "knock-out:"+num.name+":"+wayName)
			}
		}
		files = nil
	}
	for _, f := range files {
		nb, kind := verifadapt.CorruptFile(tp, f.Data)
		kinds = append(kinds, kind)
		if kind == "intact" {
			intact[f.Name] = true
			continue
		}
		r.Fault("disk:" + kind)
		disk.PutCurrent(f.Dir, f.Name, nb)
	}
	r.Logf("preparams files: %v", kinds)

	for _, f := range disk.CurrentFiles() {
		pp := &PreParams{}
		var uerr error
		ok := false
		if p, v, stk := verifadapt.GuardedCall(func() {
			uerr = pp.Unmarshal(f.Data)
			if uerr == nil {
				ok = pp.data.ValidateWithProof()
			}
		}); p {
			r.Failf("C19:startup-panic:preparams:"+verifadapt.PanicSite(stk),
				"restart with a damaged pre-parameters file: PreParams.Unmarshal / ValidateWithProof (called by preParamsStorage.ReadAll from a goroutine without recover, i.e. the node dies when the pool starts) panics on file %s with %d bytes: %v\n%s",
				f.Name, len(f.Data), v, stk)
			return
		}
		if uerr != nil || !ok {
			r.Probe("damaged-preparams-file-rejected")
			continue
		}
		if !intact[f.Name] {
			r.Probe("damaged-preparams-file-accepted-as-record")
			if len(f.Data) == 0 {
				r.Probe("EMPTY-preparams-file-accepted-as-record")
			}
			// a record with a zero modulus / exponent is not a value any
			// encoder produces: what does the member code that consumes
			// pre-parameters do with it?
			d := pp.data
			zero := false
			for _, x := range []*big.Int{d.PaillierSK.N, d.PaillierSK.LambdaN, d.PaillierSK.PhiN, d.NTildei, d.H1i, d.H2i, d.Alpha, d.Beta, d.P, d.Q} {
				if x == nil || x.Sign() == 0 {
					zero = true
				}
			}
			if zero {
				r.Probe("accepted-preparams-record-with-a-zero-number")
				if c19ConsumeEmpty(r, pp, len(f.Data)) {
					return
				}
			}
		}
	}
	// the real start-up read of the pool
	storage2 := newPreParamsStorage(disk.Reopen(), logger)
	var loaded []*PersistedPreParams
	if p, v, stk := verifadapt.GuardedCall(func() { loaded, err = storage2.ReadAll() }); p {
		r.Failf("C19:startup-panic:preparams:"+verifadapt.PanicSite(stk), "preParamsStorage.ReadAll panicked: %v\n%s", v, stk)
		return
	}
	if err != nil {
		r.Probe("preparams-read-all-error")
		return
	}
	for _, s := range saved {
		if !intact[s.ID] {
			continue
		}
		want := verifadapt.Canon(&s.Data)
		found := false
		d := ""
		for _, l := range loaded {
			if l.ID != s.ID {
				continue
			}
			c := verifadapt.Canon(&l.Data)
			if c == want {
				found = true
			} else {
				d = verifadapt.CanonDiff(want, c)
			}
		}
		if !found {
			r.Failf("C19:roundtrip-mismatch:preparams", "the intact pre-parameters record %s did not load back equal at pool start (%d records loaded) %s", s.ID, len(loaded), d)
			return
		}
		r.Probe("intact-preparams-record-loaded-equal")
	}
}

// c19ConsumeEmpty: the record the pool accepted from an EMPTY file (what a
// crash between create/truncate and write leaves) is what the pool will hand
// to the next DKG. Is it a "valid value"? The real member code that consumes
// pre-parameters (initializeTssRoundOne + tssRoundOne, i.e. tss-lib's first
// key generation round) is run on it in a recoverable goroutine with a wall
// limit; a panic there means the node dies in its next DKG.
func c19ConsumeEmpty(r *verifsim.Run, pp *PreParams, fileLen int) bool {
	logger := log.Logger("verif-c19-preparams")
	type outcome struct {
		panicked bool
		val      interface{}
		stk      string
		err      error
	}
	done := make(chan outcome, 1)
	go func() {
		var o outcome
		o.panicked, o.val, o.stk = verifadapt.GuardedCall(func() {
			m := newMember(logger, big.NewInt(7), 1, 3, 1, nil, "c19-consume", func() (*PreParams, error) { return pp, nil }, 1)
			r1, err := m.initializeEphemeralKeysGeneration().initializeSymmetricKeyGeneration().initializeTssRoundOne()
			if err != nil {
				o.err = err
				return
			}
			ctx, cancel := context.WithTimeout(context.Background(), 3*time.Second)
			defer cancel()
			_, o.err = r1.tssRoundOne(ctx)
		})
		done <- o
	}()
	select {
	case o := <-done:
		if o.panicked {
			r.Failf("C19:accepted-record-crashes-consumer:preparams:"+verifadapt.PanicSite(o.stk),
				"a damaged pre-parameters file of %d bytes (0 = the EMPTY file a crash between create/truncate and write of preParamsStorage.Save leaves; otherwise a structurally valid record with a missing / emptied number) is accepted at pool start as a record (PreParams.Unmarshal turns absent numbers into zero, ValidateWithProof only checks for nil); the member code that consumes it in the next DKG (initializeTssRoundOne/tssRoundOne) panics: %v\n%s", fileLen, o.val, o.stk)
			return true
		}
		if o.err != nil {
			r.Probe("empty-preparams-record-makes-tss-round-one-fail-with-error")
		} else {
			r.Probe("empty-preparams-record-consumed-without-complaint")
		}
	case <-time.After(8 * time.Second):
		r.Probe("empty-preparams-record-consumer-did-not-finish")
	}
	return false
}
