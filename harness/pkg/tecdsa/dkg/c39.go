package dkg

// C39 (part 2 of 2): the real generator.ParameterPool[PreParams] on the real
// preParamsStorage (file naming, marshaling, validation, FIFO ordering) on a
// simulated disk. The generation function is a stub: it returns one of the
// package's fixture pre-parameters with a unique creation timestamp as tag.
// Scenario engine, fault plan and oracle: verifadapt.RunPoolScenario.

import (
	"context"
	"fmt"
	"sync"
	"testing"
	"time"

	"github.com/bnb-chain/tss-lib/ecdsa/keygen"
	"github.com/ipfs/go-log/v2"
	"github.com/keep-network/keep-core/pkg/generator"
	"github.com/keep-network/keep-core/pkg/internal/verifadapt"
	"github.com/keep-network/keep-core/pkg/protocol/group"
	"github.com/keep-network/keep-core/pkg/tecdsa/dkg/gen/pb"
	"google.golang.org/protobuf/proto"

	"verifsim"
)

var c39Base = time.Unix(1700000000, 0).UTC()

var c39FixturesOnce sync.Once
var c39Fixtures []*keygen.LocalPreParams

func c39LoadFixtures() []*keygen.LocalPreParams {
	c39FixturesOnce.Do(func() {
		m, err := generateMembersTssPreParams(3)
		if err != nil {
			panic(err)
		}
		for i := 1; i <= 3; i++ {
			c39Fixtures = append(c39Fixtures, m[group.MemberIndex(i)])
		}
	})
	return c39Fixtures
}

func c39Make(tag uint64) *PreParams {
	fx := c39LoadFixtures()
	return &PreParams{
		data:              fx[int(tag)%len(fx)],
		creationTimestamp: c39Base.Add(time.Duration(tag) * time.Millisecond),
	}
}

// c39SameData compares every field of the handed-out parameters with the
// fixture they were generated from.
func c39SameData(a, b *keygen.LocalPreParams) bool {
	if a == nil || b == nil || a.PaillierSK == nil || b.PaillierSK == nil {
		return false
	}
	eq := func(x, y interface{ String() string }) bool { return x.String() == y.String() }
	for _, p := range [][2]interface{ String() string }{
		{a.PaillierSK.N, b.PaillierSK.N}, {a.PaillierSK.LambdaN, b.PaillierSK.LambdaN}, {a.PaillierSK.PhiN, b.PaillierSK.PhiN},
		{a.NTildei, b.NTildei}, {a.H1i, b.H1i}, {a.H2i, b.H2i}, {a.Alpha, b.Alpha}, {a.Beta, b.Beta}, {a.P, b.P}, {a.Q, b.Q},
	} {
		if p[0] == nil || p[1] == nil {
			return false
		}
		if !eq(p[0], p[1]) {
			return false
		}
	}
	return true
}

func c39Classify(p *PreParams) verifadapt.PoolGot {
	if p == nil {
		return verifadapt.PoolGot{Nil: true}
	}
	g := verifadapt.PoolGot{}
	off := p.creationTimestamp.Sub(c39Base)
	if off > 0 && off < time.Hour && off%time.Millisecond == 0 {
		g.Tag, g.TagKnown = uint64(off/time.Millisecond), true
	}
	fx := c39LoadFixtures()
	if g.TagKnown {
		g.Valid = c39SameData(p.data, fx[int(g.Tag)%len(fx)])
		if !g.Valid {
			g.Detail = fmt.Sprintf("tag=%d: pre-parameter numbers differ from the generated ones", g.Tag)
		}
		return g
	}
	for _, f := range fx {
		if c39SameData(p.data, f) {
			g.Valid = true
		}
	}
	if !g.Valid {
		zero := p.data != nil && p.data.NTildei != nil && p.data.NTildei.Sign() == 0
		g.Detail = fmt.Sprintf("pre-parameter numbers match nothing that was generated (creation time %d ms after epoch, NTilde zero=%v)", p.creationTimestamp.UnixMilli(), zero)
	}
	return g
}

// c39Damage zeroes every byte of one number of a stored record (the record
// stays a well-formed protobuf message with all fields present).
func c39Damage(f verifadapt.DiskFile, choice int) ([]byte, string, bool) {
	rec := &pb.PreParams{}
	if err := proto.Unmarshal(f.Data, rec); err != nil || rec.Data == nil || rec.Data.PaillierSK == nil || rec.Data.PaillierSK.PublicKey == nil {
		return nil, "", false
	}
	d := rec.Data
	fields := []struct {
		name string
		b    *[]byte
	}{
		{"PaillierSK.N", &d.PaillierSK.PublicKey.N}, {"PaillierSK.LambdaN", &d.PaillierSK.LambdaN}, {"PaillierSK.PhiN", &d.PaillierSK.PhiN},
		{"NTilde", &d.NTilde}, {"H1i", &d.H1I}, {"H2i", &d.H2I}, {"Alpha", &d.Alpha}, {"Beta", &d.Beta}, {"P", &d.P}, {"Q", &d.Q},
	}
	pick := fields[choice%len(fields)]
	if len(*pick.b) == 0 {
		return nil, "", false
	}
	*pick.b = make([]byte, len(*pick.b))
	out, err := proto.Marshal(rec)
	if err != nil {
		return nil, "", false
	}
	return out, pick.name, true
}

func init() {
	verifScenarios["C39"] = verifsim.Scenario{Bubble: true, Fn: c39Run}
}

func c39Run(t *testing.T, r *verifsim.Run) {
	lg := log.Logger("verif-c39")
	c39LoadFixtures()
	verifadapt.RunPoolScenario(r, verifadapt.PoolSUT{
		Fine: false, // preParamsStorage holds its mutex across storage calls
		Boot: func(h *verifadapt.SimDiskHandle, size int, delay time.Duration, gen func(context.Context) (uint64, bool)) verifadapt.PoolInst {
			sched := generator.StartScheduler()
			latch := generator.NewProtocolLatch()
			sched.RegisterProtocol(latch)
			storage := newPreParamsStorage(h, lg)
			pool := generator.NewParameterPool[PreParams](lg, sched, &storage, size,
				func(ctx context.Context) *PreParams {
					tag, ok := gen(ctx)
					if !ok {
						return nil
					}
					return c39Make(tag)
				}, delay)
			return verifadapt.PoolInst{
				GetNow: func() (verifadapt.PoolGot, error) {
					p, err := pool.GetNow()
					if err != nil {
						return verifadapt.PoolGot{}, err
					}
					return c39Classify(p), nil
				},
				Count:  pool.ParametersCount,
				Lock:   latch.Lock,
				Unlock: latch.Unlock,
			}
		},
		Damage: c39Damage,
		FileTag: func(f verifadapt.DiskFile) (uint64, bool) {
			// ground truth by content: a complete file decodes to one of the
			// generated parameters
			if f.Dir != dirName {
				return 0, false
			}
			p := &PreParams{}
			if err := p.Unmarshal(f.Data); err != nil {
				return 0, false
			}
			g := c39Classify(p)
			if !g.Valid || !g.TagKnown {
				return 0, false
			}
			return g.Tag, true
		},
	})
}
