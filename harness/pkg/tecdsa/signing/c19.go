package signing

// C19 (tECDSA signing part): a victim node with the REAL
// signing.RegisterUnmarshallers registration receives valid messages of all
// ten registered types (built in-package with tape contents: a tss-lib
// signing run is expensive) and tape-corrupted copies. Accepted messages go
// to the real state Receive code of a fresh victim member; ephemeral public
// key messages additionally through symmetricKeyGenerationState.Initiate
// (the ECDH over the received keys).

import (
	"context"
	"math/big"
	"sync"
	"testing"

	"github.com/btcsuite/btcd/btcec"
	"github.com/ipfs/go-log/v2"
	"github.com/keep-network/keep-core/pkg/chain"
	"github.com/keep-network/keep-core/pkg/chain/local_v1"
	"github.com/keep-network/keep-core/pkg/crypto/ephemeral"
	"github.com/keep-network/keep-core/pkg/internal/tecdsatest"
	"github.com/keep-network/keep-core/pkg/internal/verifadapt"
	"github.com/keep-network/keep-core/pkg/net"
	"github.com/keep-network/keep-core/pkg/protocol/group"
	"github.com/keep-network/keep-core/pkg/protocol/state"
	"github.com/keep-network/keep-core/pkg/tecdsa"

	"verifsim"
)

func init() {
	verifScenarios["C19"] = verifsim.Scenario{Bubble: false, Fn: c19Run, MinBudget: 120}
}

var (
	c19Once  sync.Once
	c19Share *tecdsa.PrivateKeyShare
)

func c19PubKey(tp *verifsim.Tape, label string) *ephemeral.PublicKey {
	b := tp.Bytes(label, 32)
	b[0] &= 0x7f
	b[31] |= 1
	k := ephemeral.UnmarshalPrivateKey(b)
	return (*ephemeral.PublicKey)((*btcec.PrivateKey)(k).PubKey())
}

func c19Run(t *testing.T, r *verifsim.Run) {
	c19Once.Do(func() {
		data, err := tecdsatest.LoadPrivateKeyShareTestFixtures(1)
		if err != nil {
			panic(err)
		}
		c19Share = tecdsa.NewPrivateKeyShare(data[0])
	})
	tp := r.T
	logger := log.Logger("verif-c19-tecdsa-signing")
	sn := verifadapt.NewNet()
	n := 3 + tp.Choose("n", 2)
	var addrs []chain.Address
	var nodes []*verifadapt.NetNode
	var signing chain.Signing
	for i := 0; i < n; i++ {
		nn := sn.AddNode(local_v1.DefaultCurve)
		nodes = append(nodes, nn)
		if signing == nil {
			signing = local_v1.NewSigner(nn.Priv)
		}
		a, err := signing.PublicKeyToAddress(nn.Pub)
		if err != nil {
			panic(err)
		}
		addrs = append(addrs, a)
	}
	senderIdx := 1 + tp.Choose("sender", n-1)
	sender, victim := nodes[senderIdx], nodes[0]
	senderID := group.MemberIndex(senderIdx + 1)
	if tp.Chance("claimed-index-max", 1, 6) {
		senderID = group.MaxMemberIndex
		r.Probe("sender-index-255")
	}
	ch := victim.Channel("tecdsa-signing")
	RegisterUnmarshallers(ch)
	mv := group.NewMembershipValidator(logger, addrs, signing)
	session := "c19-signing-session"
	r.Logf("cfg n=%d sender=%d", n, senderID)

	newVictim := func() *ephemeralKeyPairGenerationState {
		m := newMember(logger, 1, n, 1, mv, session, big.NewInt(100), c19Share)
		st := &ephemeralKeyPairGenerationState{BaseAsyncState: state.NewBaseAsyncState(), channel: ch, member: m.initializeEphemeralKeysGeneration()}
		if err := st.Initiate(context.Background()); err != nil {
			panic(err)
		}
		return st
	}

	h := verifadapt.NewHostile(r, "C19", sn, sender.Index, victim.Index, "tecdsa-signing")
	h.OnAccept = func(typ string, m *verifadapt.Message, valid bool) {
		st := newVictim()
		if err := st.Receive(m); err != nil {
			r.Probe("state-receive-error")
		}
		_ = st.CanTransition()
		kept := len(st.GetAllReceivedMessages(typ)) > 0
		if _, ok := m.Body.(*ephemeralPublicKeyMessage); ok {
			next, err := st.Next()
			if err != nil {
				return
			}
			if err := next.Initiate(context.Background()); err != nil {
				r.Probe("symmetric-key-generation-error")
			} else if kept {
				r.Probe("symmetric-key-generated-from-received-message")
			}
		}
		if kept && valid {
			r.Probe("valid-message-kept-by-state")
		} else if kept {
			r.Probe("mutated-message-kept-by-state")
		}
	}

	keys := map[group.MemberIndex]*ephemeral.PublicKey{}
	for i := 1; i <= n; i++ {
		if group.MemberIndex(i) != senderID {
			keys[group.MemberIndex(i)] = c19PubKey(tp, "eph-key")
		}
	}
	peers := func(label string) map[group.MemberIndex][]byte {
		m := map[group.MemberIndex][]byte{}
		for i := 1; i <= n; i++ {
			if group.MemberIndex(i) != senderID {
				m[group.MemberIndex(i)] = tp.Bytes(label, 1+tp.Choose(label+"-len", 200))
			}
		}
		return m
	}
	bc := func(label string) []byte { return tp.Bytes(label, 1+tp.Choose(label+"-len", 300)) }
	msgs := []net.TaggedMarshaler{
		&ephemeralPublicKeyMessage{senderID: senderID, ephemeralPublicKeys: keys, sessionID: session},
		&tssRoundOneMessage{senderID: senderID, broadcastPayload: bc("r1"), peersPayload: peers("r1-peer"), sessionID: session},
		&tssRoundTwoMessage{senderID: senderID, peersPayload: peers("r2-peer"), sessionID: session},
		&tssRoundThreeMessage{senderID: senderID, broadcastPayload: bc("r3"), sessionID: session},
		&tssRoundFourMessage{senderID: senderID, broadcastPayload: bc("r4"), sessionID: session},
		&tssRoundFiveMessage{senderID: senderID, broadcastPayload: bc("r5"), sessionID: session},
		&tssRoundSixMessage{senderID: senderID, broadcastPayload: bc("r6"), sessionID: session},
		&tssRoundSevenMessage{senderID: senderID, broadcastPayload: bc("r7"), sessionID: session},
		&tssRoundEightMessage{senderID: senderID, broadcastPayload: bc("r8"), sessionID: session},
		&tssRoundNineMessage{senderID: senderID, broadcastPayload: bc("r9"), sessionID: session},
	}
	for _, m := range msgs {
		p := h.RoundTrip(m)
		if r.Failed() || p == nil {
			return
		}
		h.Attack(m.Type(), p, 2+tp.Choose("attacks", 6))
		if r.Failed() {
			return
		}
	}
}
