package btcdiff

// C43: the difficulty relay maintainer proves each epoch once with the right
// headers. The real control loop (Initialize -> startControlLoop -> proveEpochs
// -> proveNextEpoch / waitForCurrentEpochUpdate) runs in a synctest bubble (its
// back-offs and polls jump on the fake clock) against a simulated Bitcoin chain
// (a tip that grows by tape; header content is a function of the height) and a
// relay model (current epoch, proof length, ready / authorised flags, late
// application of an accepted retarget, competing maintainers). Every query of
// the maintainer first passes through beforeQuery: the tape may mine blocks,
// change relay state or fail the query. The maintainer is the only goroutine
// running then (the simulator goroutine waits on the context), so the draws
// are in its program order.

import (
	"context"
	"fmt"
	"math/big"
	"testing"
	"testing/synctest"
	"time"

	"github.com/keep-network/keep-core/pkg/bitcoin"
	"github.com/keep-network/keep-core/pkg/chain"

	"verifsim"
)

const c43Epoch = 2016

const c43Maintainer = chain.Address("0xc43maintainer")

type c43Signing struct{ chain.Signing }

func (c43Signing) Address() chain.Address { return c43Maintainer }

type c43Submission struct {
	epoch    uint64 // epoch the headers were for (as answered to the maintainer)
	ok       bool   // the call returned nil
	reported bool   // the relay has answered CurrentEpoch >= epoch since
	errSince bool   // a query/submission error was injected since
}

type c43Sim struct {
	r      *verifsim.Run
	cancel context.CancelFunc
	cfg    Config

	// Bitcoin model
	tip uint

	// relay model
	epoch      uint64
	proofLen   uint64
	ready      bool
	auth       bool // LightRelay authorisation (Retarget)
	authRefund bool // proxy authorisation (RetargetWithRefund)
	pending    bool // an accepted retarget not yet visible in CurrentEpoch
	pendingFor uint64

	// switches
	growth, errors, flips, late, compete bool

	// as answered to the maintainer
	ansReady, ansAuth       int // -1 never answered, 0 false, 1 true
	ansEpoch, ansProofLen   uint64
	haveEpoch, haveProofLen bool
	iterHeight              uint
	iterOpen                bool // an iteration read height/epoch/prooflength and is expected to act
	iterMustSubmit          bool
	iterHeaderErr           bool
	deauthBeforeIter        bool // authorisation was withdrawn before the current iteration started
	deauthPending           bool // withdrawn, not yet seen by an iteration start
	last                    *c43Submission

	nQuery    int
	budget    int
	submitted int
}

// canonical header of the simulated chain at a height
func c43Header(h uint) *bitcoin.BlockHeader {
	hd := &bitcoin.BlockHeader{Version: 0x20000000, Time: 1600000000 + uint32(h)*600, Nonce: uint32(h) ^ 0x5a5a5a5a}
	hd.Bits = 0x1705ffff - uint32(h/c43Epoch) // changes at every epoch boundary
	hd.PreviousBlockHeaderHash[0] = byte(h)
	hd.PreviousBlockHeaderHash[1] = byte(h >> 8)
	hd.PreviousBlockHeaderHash[2] = byte(h >> 16)
	hd.MerkleRootHash[5] = byte(h * 7)
	return hd
}

func c43HeightOf(hd *bitcoin.BlockHeader) (uint, bool) {
	if hd == nil {
		return 0, false
	}
	h := uint(hd.Nonce ^ 0x5a5a5a5a)
	return h, *c43Header(h) == *hd
}

func (s *c43Sim) needed() uint { return uint(s.epoch+1)*c43Epoch + uint(s.proofLen) - 1 }

// beforeQuery: scheduling point in front of every query / submission.
func (s *c43Sim) beforeQuery(name string) error {
	s.nQuery++
	s.r.Step()
	if s.nQuery >= s.budget {
		s.cancel()
	}
	tp := s.r.T
	if s.nQuery >= s.budget {
		// the run is over: the world stands still while the maintainer winds down
		if s.nQuery > s.budget+4000 {
			panic("c43: maintainer does not stop after its context was cancelled")
		}
		if s.pending {
			s.epoch, s.pending = s.pendingFor, false
		}
		return nil
	}
	if s.growth {
		mineEpochs := 0
		if s.tip < s.needed()+c43Epoch {
			mineEpochs = 1
		}
		switch tp.Weighted("mine", 10, 4, 2, 3, mineEpochs) {
		case 1:
			s.tip++
			s.r.AddSim(0, 1)
			s.r.Logf("mine -> tip %d (before %s)", s.tip, name)
		case 2:
			n := uint(2 + tp.Choose("mine-n", 6))
			s.tip += n
			s.r.AddSim(0, int64(n))
			s.r.Logf("mine %d -> tip %d (before %s)", n, s.tip, name)
		case 3: // jump close to the point where the next epoch becomes provable
			tgt := s.needed()
			if s.tip+4 < tgt {
				to := tgt - 3 + uint(tp.Choose("mine-near", 3))
				s.r.AddSim(0, int64(to-s.tip))
				s.tip = to
				s.r.Logf("mine up to tip %d (%d short of provable) (before %s)", s.tip, int(tgt)-int(s.tip), name)
			} else {
				s.tip++
				s.r.AddSim(0, 1)
				s.r.Logf("mine -> tip %d (before %s)", s.tip, name)
			}
		case 4: // the relay falls several epochs behind
			n := uint(1+tp.Choose("mine-epochs", 3)) * c43Epoch
			s.tip += n
			s.r.AddSim(0, int64(n))
			s.r.Logf("mine %d -> tip %d (before %s)", n, s.tip, name)
		}
		if s.iterOpen && name != "GetLatestBlockHeight" {
			// growth inside one iteration
			s.r.NonTrivial()
		}
	}
	if s.pending && (!s.late || tp.Chance("apply-late", 1, 3)) {
		s.epoch = s.pendingFor
		s.pending = false
		s.r.Logf("relay applies retarget -> epoch %d (before %s)", s.epoch, name)
	}
	if s.compete && !s.pending && s.tip >= s.needed() && tp.Chance("competitor", 1, 12) {
		s.epoch++
		s.r.Fault("competing-retarget")
		s.r.Logf("competitor proves epoch %d (before %s)", s.epoch, name)
	}
	if s.flips {
		switch tp.Weighted("flip", 30, 1, 1, 1, 1) {
		case 1:
			if !s.ready {
				s.ready = true
				s.r.Logf("relay genesis done (before %s)", name)
			}
		case 2:
			if s.cfg.DisableProxy {
				s.auth = !s.auth
			} else {
				s.authRefund = !s.authRefund
			}
			s.r.Fault("authorisation-flip")
			s.r.Logf("authorisation flips: auth=%v authRefund=%v (before %s)", s.auth, s.authRefund, name)
			if !s.authFor() {
				s.deauthPending = true
			} else {
				s.deauthPending, s.deauthBeforeIter = false, false
			}
		case 3: // the authorisation of the OTHER path flips (must not matter)
			if s.cfg.DisableProxy {
				s.authRefund = !s.authRefund
			} else {
				s.auth = !s.auth
			}
			s.r.Logf("other-path authorisation flips: auth=%v authRefund=%v (before %s)", s.auth, s.authRefund, name)
		case 4:
			if tp.Chance("prooflen-change", 1, 3) {
				s.proofLen = uint64(1 + tp.Choose("prooflen-new", 12))
				s.r.Fault("proof-length-change")
				s.r.Logf("proof length -> %d (before %s)", s.proofLen, name)
			}
		}
	}
	if s.errors && tp.Chance("error", 1, 25) {
		s.r.Fault("error:" + name)
		s.r.Logf("%s -> injected error", name)
		if s.last != nil {
			s.last.errSince = true
		}
		if name == "GetBlockHeader" {
			s.iterHeaderErr = true
		}
		if name == "GetLatestBlockHeight" || name == "CurrentEpoch" || name == "ProofLength" {
			s.iterOpen = false
		}
		return fmt.Errorf("c43: injected error at %s", name)
	}
	return nil
}

func (s *c43Sim) authFor() bool {
	if s.cfg.DisableProxy {
		return s.auth
	}
	return s.authRefund
}

// closeIteration checks the "submits once all headers are mined" clause for
// the iteration that just ended.
func (s *c43Sim) closeIteration(why string) {
	if s.iterOpen && s.iterMustSubmit && !s.iterHeaderErr {
		s.r.Failf("C43:no-submission-although-headers-mined",
			"the maintainer read height %d, current epoch %d and proof length %d (so headers up to %d are mined) but did not submit a retarget in that iteration (%s)",
			s.iterHeight, s.ansEpoch, s.ansProofLen, uint(s.ansEpoch+1)*c43Epoch+uint(s.ansProofLen)-1, why)
	}
	s.iterOpen, s.iterMustSubmit, s.iterHeaderErr = false, false, false
}

// ---- bitcoin.Chain ----

type c43Btc struct {
	bitcoin.Chain
	s *c43Sim
}

func (b *c43Btc) GetLatestBlockHeight() (uint, error) {
	s := b.s
	s.closeIteration("next iteration started")
	// a withdrawal that happened before this point could be seen by a re-check
	if s.deauthPending {
		s.deauthBeforeIter = true
	}
	s.haveEpoch, s.haveProofLen = false, false
	if err := s.beforeQuery("GetLatestBlockHeight"); err != nil {
		return 0, err
	}
	s.iterHeight = s.tip
	s.iterOpen = true
	s.r.Logf("q GetLatestBlockHeight -> %d", s.tip)
	return s.tip, nil
}

func (b *c43Btc) GetBlockHeader(h uint) (*bitcoin.BlockHeader, error) {
	s := b.s
	if err := s.beforeQuery("GetBlockHeader"); err != nil {
		return nil, err
	}
	if h > s.tip {
		s.r.Logf("q GetBlockHeader %d -> not mined (tip %d)", h, s.tip)
		s.iterHeaderErr = true
		return nil, fmt.Errorf("block %d not found", h)
	}
	return c43Header(h), nil
}

// ---- btcdiff.Chain ----

type c43Relay struct{ s *c43Sim }

func (c *c43Relay) Ready() (bool, error) {
	s := c.s
	s.closeIteration("maintainer restarted")
	// a new proveEpochs session begins: earlier answers no longer count
	s.ansReady, s.ansAuth = -1, -1
	if err := s.beforeQuery("Ready"); err != nil {
		return false, err
	}
	s.ansReady = 0
	if s.ready {
		s.ansReady = 1
	}
	s.r.Logf("q Ready -> %v", s.ready)
	return s.ready, nil
}

func (c *c43Relay) isAuth(name string, addr chain.Address, flag *bool) (bool, error) {
	s := c.s
	if err := s.beforeQuery(name); err != nil {
		return false, err
	}
	v := *flag && addr == c43Maintainer
	s.ansAuth = 0
	if v {
		s.ansAuth = 1
	}
	// which path was asked matters: remember a mismatch as "not answered"
	if (name == "IsAuthorized") != s.cfg.DisableProxy {
		s.ansAuth = -1
	}
	if v {
		s.deauthPending, s.deauthBeforeIter = false, false
	}
	s.r.Logf("q %s -> %v", name, v)
	return v, nil
}

func (c *c43Relay) IsAuthorized(a chain.Address) (bool, error) {
	return c.isAuth("IsAuthorized", a, &c.s.auth)
}
func (c *c43Relay) IsAuthorizedForRefund(a chain.Address) (bool, error) {
	return c.isAuth("IsAuthorizedForRefund", a, &c.s.authRefund)
}
func (c *c43Relay) Signing() chain.Signing { return c43Signing{} }

func (c *c43Relay) CurrentEpoch() (uint64, error) {
	s := c.s
	if err := s.beforeQuery("CurrentEpoch"); err != nil {
		return 0, err
	}
	s.ansEpoch, s.haveEpoch = s.epoch, true
	if s.last != nil && s.epoch >= s.last.epoch {
		s.last.reported = true
	}
	s.r.Logf("q CurrentEpoch -> %d", s.epoch)
	return s.epoch, nil
}

func (c *c43Relay) ProofLength() (uint64, error) {
	s := c.s
	if err := s.beforeQuery("ProofLength"); err != nil {
		return 0, err
	}
	s.ansProofLen, s.haveProofLen = s.proofLen, true
	if s.iterOpen && s.haveEpoch {
		last := uint(s.ansEpoch+1)*c43Epoch + uint(s.ansProofLen) - 1
		s.iterMustSubmit = s.iterHeight >= last
		if s.iterMustSubmit {
			s.r.Probe("iteration-with-provable-epoch")
		} else if s.iterHeight >= uint(s.ansEpoch+1)*c43Epoch {
			s.r.Probe("iteration-in-new-epoch-not-enough-headers")
		}
	}
	s.r.Logf("q ProofLength -> %d", s.proofLen)
	return s.proofLen, nil
}

func (c *c43Relay) GetCurrentAndPrevEpochDifficulty() (*big.Int, *big.Int, error) {
	panic("c43: not used")
}

func (c *c43Relay) Retarget(h []*bitcoin.BlockHeader) error { return c.submit("Retarget", h) }
func (c *c43Relay) RetargetWithRefund(h []*bitcoin.BlockHeader) error {
	return c.submit("RetargetWithRefund", h)
}

func (c *c43Relay) submit(name string, headers []*bitcoin.BlockHeader) error {
	s := c.s
	r := s.r
	s.submitted++
	s.iterMustSubmit = false
	// ---------- oracle (before the model reacts) ----------
	direct := name == "Retarget"
	if direct != s.cfg.DisableProxy {
		r.Failf("C43:wrong-submission-path", "%s called with DisableProxy=%v", name, s.cfg.DisableProxy)
	}
	if s.ansReady != 1 || s.ansAuth != 1 {
		r.Failf("C43:submit-despite-negative-eligibility-answer", "%s called although the eligibility answers of this proveEpochs session were ready=%d authorised(for this path)=%d (1 yes, 0 no, -1 not asked in this session)", name, s.ansReady, s.ansAuth)
	}
	if !s.haveEpoch || !s.haveProofLen {
		r.Failf("C43:submit-without-epoch-query", "%s called in an iteration that did not read the current epoch and the proof length", name)
		return fmt.Errorf("c43: rejected")
	}
	e, l := s.ansEpoch+1, s.ansProofLen
	first := uint(e)*c43Epoch - uint(l)
	if uint64(len(headers)) != 2*l {
		r.Failf("C43:header-count", "%s carries %d headers, proof length answered was %d (want %d)", name, len(headers), l, 2*l)
		return fmt.Errorf("c43: rejected")
	}
	for i, hd := range headers {
		h, canonical := c43HeightOf(hd)
		if !canonical {
			r.Failf("C43:non-canonical-header", "%s header %d is not a header of the simulated chain", name, i)
			return fmt.Errorf("c43: rejected")
		}
		if h != first+uint(i) {
			r.Failf("C43:wrong-header-range", "%s for epoch %d (answered current epoch %d, proof length %d): header %d is the one at height %d, want %d (range [%d,%d])", name, e, s.ansEpoch, l, i, h, first+uint(i), first, first+2*uint(l)-1)
			return fmt.Errorf("c43: rejected")
		}
		if h > s.tip {
			r.Failf("C43:unmined-header", "%s carries a header at height %d above the tip %d", name, h, s.tip)
			return fmt.Errorf("c43: rejected")
		}
	}
	if p := s.last; p != nil && p.ok && !p.reported && !p.errSince {
		r.Failf("C43:resubmitted-before-relay-reported", "%s for epoch %d although the accepted submission for epoch %d has not been reported by the relay yet (no CurrentEpoch answer >= %d since, no error in between)", name, e, p.epoch, p.epoch)
	}
	eligible := s.ready && s.authFor()
	if !eligible && s.deauthBeforeIter && s.ansAuth == 1 {
		// the authorisation was withdrawn after the session's positive answer and
		// before this iteration began; the maintainer acts on the stale answer
		// (eligibility is checked once per proveEpochs session): observation only
		r.Probe("stale-authorisation-submission")
	}
	// ---------- model ----------
	sub := &c43Submission{epoch: e}
	s.last = sub
	if err := s.beforeQuery(name); err != nil {
		if s.r.T.Chance("lost-ack", 1, 4) && s.ready && s.authFor() && e == s.epoch+1 && l == s.proofLen && !s.pending {
			// the transaction went through although the client saw an error
			s.pending, s.pendingFor = true, e
			r.Fault("submission-error-but-applied")
		}
		sub.errSince = true
		return err
	}
	r.Probe("retarget-call")
	if !s.ready || !s.authFor() {
		r.Logf("%s epoch %d -> reverted (ready=%v authorised=%v)", name, e, s.ready, s.authFor())
		r.Probe("retarget-reverted-not-eligible")
		sub.errSince = true
		return fmt.Errorf("c43: execution reverted: not eligible")
	}
	if e != s.epoch+1 || l != s.proofLen || s.pending {
		r.Logf("%s epoch %d len %d -> reverted (relay epoch %d, proof length %d, pending %v)", name, e, l, s.epoch, s.proofLen, s.pending)
		r.Probe("retarget-reverted-stale")
		sub.errSince = true
		return fmt.Errorf("c43: execution reverted: invalid headers")
	}
	sub.ok = true
	s.pending, s.pendingFor = true, e
	r.Probe("retarget-accepted")
	r.Logf("%s epoch %d headers [%d,%d] -> accepted", name, e, first, first+2*uint(l)-1)
	return nil
}

func init() { verifScenarios["C43"] = verifsim.Scenario{Bubble: true, Fn: c43Run} }

func c43Run(t *testing.T, r *verifsim.Run) {
	tp := r.T
	ctx, cancel := context.WithCancel(context.Background())
	defer cancel()
	s := &c43Sim{r: r, cancel: cancel, ansReady: -1, ansAuth: -1}
	s.cfg.DisableProxy = tp.Chance("disable-proxy", 1, 2)
	switch tp.Choose("backoffs", 3) {
	case 1:
		s.cfg.IdleBackOffTime, s.cfg.RestartBackOffTime = 5*time.Second, 7*time.Second
	case 2:
		s.cfg.IdleBackOffTime, s.cfg.RestartBackOffTime = 10*time.Minute, time.Second
	}
	s.epoch = uint64(1 + tp.Choose("epoch0", 400))
	s.proofLen = uint64(1 + tp.Choose("prooflen", 12))
	mode := tp.Weighted("mode", 3, 3, 3) // growth only / + errors / + errors, flips, competitors
	s.growth = true
	s.errors = mode >= 1
	s.flips = mode == 2
	s.compete = mode == 2
	s.late = tp.Chance("late-apply", 2, 3)
	s.ready = !tp.Chance("not-ready", 1, 8)
	s.auth = !tp.Chance("not-authorised", 1, 6)
	s.authRefund = !tp.Chance("not-authorised-refund", 1, 6)
	// tip relative to the point where the next epoch becomes provable
	tgt := int(s.needed())
	switch tp.Weighted("tip0", 4, 2, 2, 1) {
	case 0:
		s.tip = uint(tgt - 1 - tp.Choose("tip-short", 6))
	case 1:
		s.tip = uint(tgt + tp.Choose("tip-over", 4))
	case 2:
		s.tip = uint(tgt - int(s.proofLen) - tp.Choose("tip-before-epoch", 2*int(s.proofLen)+2))
	default:
		s.tip = uint(tgt + c43Epoch*(1+tp.Choose("tip-epochs", 3)))
	}
	s.budget = 60 + tp.Choose("budget", 4)*60
	r.Logf("cfg disableProxy=%v backoffs=%v/%v epoch=%d prooflen=%d tip=%d (provable at %d) mode=%d late=%v ready=%v auth=%v authRefund=%v", s.cfg.DisableProxy, s.cfg.IdleBackOffTime, s.cfg.RestartBackOffTime, s.epoch, s.proofLen, s.tip, tgt, mode, s.late, s.ready, s.auth, s.authRefund)

	start := time.Now()
	Initialize(ctx, s.cfg, &c43Btc{s: s}, &c43Relay{s: s})
	<-ctx.Done() // the query budget cancels the context
	synctest.Wait()
	r.AddSim(int64(time.Since(start)), 0)
	if s.submitted > 0 {
		r.Probe("runs-with-submission")
	}
	if s.submitted > 1 {
		r.Probe("runs-with-several-submissions")
	}
}
