package sortition

// C42: sortition pool status changes are only requested when permitted.
// The real MonitorPool (initial check + ticker goroutine) runs in a synctest
// bubble over simulated days against a pool model whose state (in pool, up to
// date, locked, chaosnet / beta operator, reward eligibility, restorable) flips
// by tape between ticks and between any two queries of one check, and whose
// queries and transactions fail by tape. The oracle justifies every
// JoinSortitionPool / UpdateOperatorStatus / RestoreRewardEligibility request
// by what the model answered in that same check.

import (
	"context"
	"fmt"
	"math/big"
	"testing"
	"testing/synctest"
	"time"

	"github.com/ipfs/go-log"
	"github.com/keep-network/keep-core/pkg/chain"

	"verifsim"
)

const (
	c42Unknown = -1
	c42No      = 0
	c42Yes     = 1
)

type c42Pool struct {
	r *verifsim.Run

	// ground truth
	registered  bool
	inPool      bool
	upToDate    bool
	locked      bool
	chaosnet    bool
	beta        bool
	eligible    bool
	restorable  bool
	stubPolicy  []bool // answers of the tape-driven policy components
	flips, errs bool

	// answers given in the current check
	ans     map[string]int
	stubAns []int
	checks  int
	inCheck bool
	nQuery  int

	components []string // policy structure: "uncond", "beta", "stub<i>"
}

func c42B(v bool) int {
	if v {
		return c42Yes
	}
	return c42No
}

func (p *c42Pool) resetAnswers() {
	p.ans = map[string]int{}
	p.stubAns = make([]int, len(p.stubPolicy))
	for i := range p.stubAns {
		p.stubAns[i] = c42Unknown
	}
}

func (p *c42Pool) get(name string) int {
	if v, ok := p.ans[name]; ok {
		return v
	}
	return c42Unknown
}

func (p *c42Pool) flipSome(label string, num, den int) {
	tp := p.r.T
	flip := func(name string, v *bool) {
		if tp.Chance(label+"-"+name, num, den) {
			*v = !*v
			p.r.Logf("flip %s -> %v", name, *v)
			p.r.NonTrivial()
		}
	}
	flip("inPool", &p.inPool)
	flip("upToDate", &p.upToDate)
	flip("locked", &p.locked)
	flip("chaosnet", &p.chaosnet)
	flip("beta", &p.beta)
	flip("eligible", &p.eligible)
	flip("restorable", &p.restorable)
	for i := range p.stubPolicy {
		flip(fmt.Sprintf("stub%d", i), &p.stubPolicy[i])
	}
}

// beforeQuery: scheduling point in front of every query and transaction.
func (p *c42Pool) beforeQuery(name string) error {
	p.nQuery++
	p.r.Step()
	if p.flips {
		p.flipSome("mid", 1, 14)
	}
	if p.errs && p.r.T.Chance("error", 1, 12) {
		p.r.Fault("error:" + name)
		p.r.Logf("%s -> injected error", name)
		return fmt.Errorf("c42: injected error at %s", name)
	}
	return nil
}

func (p *c42Pool) query(name string, v *bool) (bool, error) {
	if err := p.beforeQuery(name); err != nil {
		return false, err
	}
	p.ans[name] = c42B(*v)
	p.r.Logf("q %s -> %v", name, *v)
	return *v, nil
}

func (p *c42Pool) OperatorToStakingProvider() (chain.Address, bool, error) {
	if err := p.beforeQuery("OperatorToStakingProvider"); err != nil {
		return "", false, err
	}
	p.r.Logf("q OperatorToStakingProvider -> %v", p.registered)
	if !p.registered {
		return "", false, nil
	}
	return "0xc42provider", true, nil
}

func (p *c42Pool) EligibleStake(chain.Address) (*big.Int, error) { return big.NewInt(1), nil }

func (p *c42Pool) IsOperatorInPool() (bool, error) {
	// first query of a check: answers of earlier checks no longer count
	p.resetAnswers()
	p.checks++
	p.r.Logf("check #%d", p.checks)
	return p.query("IsOperatorInPool", &p.inPool)
}
func (p *c42Pool) IsOperatorUpToDate() (bool, error) { return p.query("IsOperatorUpToDate", &p.upToDate) }
func (p *c42Pool) IsPoolLocked() (bool, error)       { return p.query("IsPoolLocked", &p.locked) }
func (p *c42Pool) IsEligibleForRewards() (bool, error) {
	return p.query("IsEligibleForRewards", &p.eligible)
}
func (p *c42Pool) CanRestoreRewardEligibility() (bool, error) {
	return p.query("CanRestoreRewardEligibility", &p.restorable)
}
func (p *c42Pool) IsChaosnetActive() (bool, error) { return p.query("IsChaosnetActive", &p.chaosnet) }
func (p *c42Pool) IsBetaOperator() (bool, error)   { return p.query("IsBetaOperator", &p.beta) }
func (p *c42Pool) GetOperatorID(chain.Address) (chain.OperatorID, error) {
	return 0, fmt.Errorf("c42: not used")
}

// policyAllows: does every component of the configured join policy allow
// joining, judged by what was answered in this check?
func (p *c42Pool) policyAllows() (bool, string) {
	for _, c := range p.components {
		switch {
		case c == "uncond":
		case c == "beta":
			ch := p.get("IsChaosnetActive")
			if ch == c42No {
				continue
			}
			if ch == c42Yes && p.get("IsBetaOperator") == c42Yes {
				continue
			}
			return false, fmt.Sprintf("beta-operator policy: chaosnet active=%d beta operator=%d", ch, p.get("IsBetaOperator"))
		default:
			var i int
			fmt.Sscanf(c, "stub%d", &i)
			if p.stubAns[i] != c42Yes {
				return false, fmt.Sprintf("policy component %s answered %d", c, p.stubAns[i])
			}
		}
	}
	return true, ""
}

func (p *c42Pool) tx(name string) error {
	if err := p.beforeQuery(name); err != nil {
		return err
	}
	return nil
}

func (p *c42Pool) JoinSortitionPool() error {
	r := p.r
	r.Probe("join-requested")
	in, up, lk := p.get("IsOperatorInPool"), p.get("IsOperatorUpToDate"), p.get("IsPoolLocked")
	if in != c42No || up != c42No || lk != c42No {
		r.Failf("C42:join-not-permitted", "JoinSortitionPool requested in check #%d although the answers of that check were inPool=%d upToDate=%d locked=%d (1 yes, 0 no, -1 not answered); required: 0 0 0", p.checks, in, up, lk)
	} else if ok, why := p.policyAllows(); !ok {
		r.Failf("C42:join-against-policy", "JoinSortitionPool requested in check #%d although the join policy %v does not allow it: %s", p.checks, p.components, why)
	}
	if err := p.tx("JoinSortitionPool"); err != nil {
		return err
	}
	if !p.inPool && !p.locked {
		p.inPool, p.upToDate = true, true
	}
	r.Logf("tx JoinSortitionPool")
	return nil
}

func (p *c42Pool) UpdateOperatorStatus() error {
	r := p.r
	r.Probe("update-requested")
	in, up, lk := p.get("IsOperatorInPool"), p.get("IsOperatorUpToDate"), p.get("IsPoolLocked")
	if in != c42Yes || up != c42No || lk != c42No {
		r.Failf("C42:update-not-permitted", "UpdateOperatorStatus requested in check #%d although the answers of that check were inPool=%d upToDate=%d locked=%d (1 yes, 0 no, -1 not answered); required: 1 0 0", p.checks, in, up, lk)
	}
	if err := p.tx("UpdateOperatorStatus"); err != nil {
		return err
	}
	if p.inPool && !p.locked {
		p.upToDate = true
	}
	r.Logf("tx UpdateOperatorStatus")
	return nil
}

func (p *c42Pool) RestoreRewardEligibility() error {
	r := p.r
	r.Probe("restore-requested")
	if can := p.get("CanRestoreRewardEligibility"); can != c42Yes {
		r.Failf("C42:restore-not-permitted", "RestoreRewardEligibility requested in check #%d although CanRestoreRewardEligibility answered %d in that check (1 yes, 0 no, -1 not answered)", p.checks, can)
	}
	if err := p.tx("RestoreRewardEligibility"); err != nil {
		return err
	}
	if p.restorable {
		p.eligible = true
	}
	r.Logf("tx RestoreRewardEligibility")
	return nil
}

// c42StubPolicy is a tape-driven JoinPolicy component.
type c42StubPolicy struct {
	p *c42Pool
	i int
}

func (s *c42StubPolicy) ShouldJoin() bool {
	p := s.p
	if p.flips {
		p.flipSome("mid", 1, 14)
	}
	v := p.stubPolicy[s.i]
	p.stubAns[s.i] = c42B(v)
	p.r.Logf("q policy stub%d -> %v", s.i, v)
	return v
}

func init() { verifScenarios["C42"] = verifsim.Scenario{Bubble: true, Fn: c42Run} }

func c42Run(t *testing.T, r *verifsim.Run) {
	tp := r.T
	p := &c42Pool{r: r}
	logger := log.Logger("verif-c42")
	mode := tp.Weighted("mode", 2, 3, 1, 3) // quiet / flips / errors / both
	flips := mode == 1 || mode == 3
	errs := mode == 2 || mode == 3
	p.registered = !tp.Chance("unregistered", 1, 12)
	p.inPool = tp.Chance("in-pool", 1, 2)
	p.upToDate = tp.Chance("up-to-date", 1, 2)
	p.locked = tp.Chance("locked", 1, 3)
	p.chaosnet = tp.Chance("chaosnet", 1, 2)
	p.beta = tp.Chance("beta", 1, 2)
	p.eligible = !tp.Chance("ineligible", 1, 2)
	p.restorable = tp.Chance("restorable", 1, 2)

	// join policy
	var policy JoinPolicy
	mk := func(kind int) JoinPolicy {
		switch kind {
		case 0:
			p.components = append(p.components, "uncond")
			return UnconditionalJoinPolicy
		case 1:
			p.components = append(p.components, "beta")
			return NewBetaOperatorPolicy(p, logger)
		default:
			i := len(p.stubPolicy)
			p.stubPolicy = append(p.stubPolicy, tp.Chance("stub-allows", 1, 2))
			p.components = append(p.components, fmt.Sprintf("stub%d", i))
			return &c42StubPolicy{p: p, i: i}
		}
	}
	switch tp.Weighted("policy", 2, 3, 4) {
	case 0:
		policy = mk(0)
	case 1:
		policy = mk(1)
	default:
		n := 1 + tp.Choose("conj-n", 3)
		var parts []JoinPolicy
		for i := 0; i < n; i++ {
			parts = append(parts, mk(tp.Choose("conj-part", 3)))
		}
		policy = NewConjunctionPolicy(parts...)
	}
	tick := []time.Duration{DefaultStatusCheckTick, time.Minute, 24 * time.Hour}[tp.Choose("tick", 3)]
	nTicks := 3 + tp.Choose("ticks", 12)
	p.resetAnswers()
	r.Logf("cfg mode=%d registered=%v inPool=%v upToDate=%v locked=%v chaosnet=%v beta=%v eligible=%v restorable=%v policy=%v stub=%v tick=%v ticks=%d",
		mode, p.registered, p.inPool, p.upToDate, p.locked, p.chaosnet, p.beta, p.eligible, p.restorable, p.components, p.stubPolicy, tick, nTicks)

	p.flips, p.errs = flips, errs
	ctx, cancel := context.WithCancel(context.Background())
	start := time.Now()
	err := MonitorPool(ctx, logger, p, tick, policy)
	synctest.Wait()
	if err != nil {
		r.Logf("MonitorPool -> error")
		r.Probe("monitor-refused")
	}
	// the simulator wakes at half ticks, never in the instant of a tick
	time.Sleep(tick / 2)
	synctest.Wait()
	for i := 0; i < nTicks; i++ {
		if flips {
			p.flipSome("day", 1, 4)
		}
		time.Sleep(tick)
		synctest.Wait()
	}
	cancel()
	synctest.Wait()
	r.AddSim(int64(time.Since(start)), 0)
	if err == nil && p.checks < nTicks {
		r.Failf("C42:monitor-stopped-checking", "MonitorPool performed %d checks over %d ticks", p.checks, nTicks)
	}
	if err != nil && p.checks > 0 {
		r.Failf("C42:checks-despite-refusal", "MonitorPool returned an error (%v) but performed %d status checks", err, p.checks)
	}
}
