package state

// C14: block-synchronised state machine. Real SyncMachine.Execute driven by
// toy SyncStates over simulated per-node block counters and a simulated
// broadcast channel; the tape decides block arrival per node, message
// delivery instants, duplicates and Initiate durations.

import (
	"context"
	"encoding/binary"
	"fmt"
	"testing"
	"testing/synctest"

	"github.com/ipfs/go-log/v2"
	"github.com/keep-network/keep-core/pkg/chain/local_v1"
	"github.com/keep-network/keep-core/pkg/internal/verifadapt"
	"github.com/keep-network/keep-core/pkg/net"
	"github.com/keep-network/keep-core/pkg/protocol/group"

	"verifsim"
)

type c14Msg struct{ ID uint64 }

func (m *c14Msg) Type() string { return "c14/msg" }
func (m *c14Msg) Marshal() ([]byte, error) {
	b := make([]byte, 8)
	binary.BigEndian.PutUint64(b, m.ID)
	return b, nil
}
func (m *c14Msg) Unmarshal(b []byte) error {
	if len(b) != 8 {
		return fmt.Errorf("bad length")
	}
	m.ID = binary.BigEndian.Uint64(b)
	return nil
}

type c14Cfg struct{ delay, active uint64 }

type c14Node struct {
	idx      int
	blocks   *verifadapt.NodeBlocks
	ch       *verifadapt.Chan
	inits    []uint64 // height observed at each Initiate call
	initDone []bool
	received [][2]uint64 // (state index, msg id)
	done     bool
	endBlock uint64
	endState int
	err      error
	parked   bool // an Initiate of this node is parked at a gate
}

type c14State struct {
	k    int
	node *c14Node
	sc   *c14Scenario
}

type c14Scenario struct {
	r      *verifsim.Run
	cfg    []c14Cfg
	gates  *verifsim.Gates
	slow   map[[2]int]bool // (node,state) -> Initiate parks
	nextID uint64
}

func (s *c14State) DelayBlocks() uint64  { return s.sc.cfg[s.k].delay }
func (s *c14State) ActiveBlocks() uint64 { return s.sc.cfg[s.k].active }
func (s *c14State) Initiate(ctx context.Context) error {
	n := s.node
	n.inits = append(n.inits, n.blocks.Height())
	if s.sc.cfg[s.k].active > 0 {
		// every non-silent state broadcasts one message
		id := uint64(1000*(n.idx+1) + s.k)
		if err := n.ch.Send(ctx, &c14Msg{ID: id}); err != nil {
			return err
		}
	}
	if s.sc.slow[[2]int{n.idx, s.k}] {
		n.parked = true
		s.sc.gates.PointAs(fmt.Sprintf("init-%d", n.idx), "Initiate")
		n.parked = false
	}
	n.initDone = append(n.initDone, true)
	return nil
}
func (s *c14State) Receive(m net.Message) error {
	if p, ok := m.Payload().(*c14Msg); ok {
		s.node.received = append(s.node.received, [2]uint64{uint64(s.k), p.ID})
	}
	return nil
}
func (s *c14State) Next() (SyncState, error) {
	if s.k+1 >= len(s.sc.cfg) {
		return nil, nil
	}
	return &c14State{k: s.k + 1, node: s.node, sc: s.sc}, nil
}
func (s *c14State) MemberIndex() group.MemberIndex { return group.MemberIndex(s.node.idx + 1) }

func init() {
	verifScenarios["C14"] = verifsim.Scenario{Bubble: true, Fn: c14Run}
}

func c14Run(t *testing.T, r *verifsim.Run) {
	tp := r.T
	sc := &c14Scenario{r: r, gates: verifsim.NewGates(), slow: map[[2]int]bool{}}
	nNodes := 1 + tp.Choose("nodes", 3)
	nStates := 2 + tp.Choose("states", 5)
	burst := tp.Chance("burst-mode", 1, 4)
	for k := 0; k < nStates; k++ {
		if tp.Chance("silent", 1, 4) {
			sc.cfg = append(sc.cfg, c14Cfg{0, 0})
		} else {
			sc.cfg = append(sc.cfg, c14Cfg{uint64(tp.Choose("delay", 4)), uint64(1 + tp.Choose("active", 4))})
		}
	}
	start := uint64(1 + tp.Choose("start", 5))
	// model: init[k], end[k]
	initB := make([]uint64, nStates)
	endB := make([]uint64, nStates)
	prev := start
	for k, c := range sc.cfg {
		initB[k] = prev + c.delay
		endB[k] = initB[k] + c.active
		prev = endB[k]
	}
	total := prev
	cur := func(v uint64) int { // state current at view v (-1: finished)
		for k := range sc.cfg {
			if v < endB[k] {
				return k
			}
		}
		return -1
	}
	r.Logf("cfg nodes=%d states=%v start=%d burst=%v", nNodes, sc.cfg, start, burst)

	sn := verifadapt.NewNet()
	nodes := make([]*c14Node, nNodes)
	ext := -1
	for i := 0; i < nNodes; i++ {
		nn := sn.AddNode(local_v1.DefaultCurve)
		n := &c14Node{idx: i, blocks: verifadapt.NewNodeBlocks(0), ch: nn.Channel("c14")}
		n.ch.SetUnmarshaler(func() net.TaggedUnmarshaler { return &c14Msg{} })
		nodes[i] = n
		for k := range sc.cfg {
			if sc.cfg[k].active >= 2 && tp.Chance("slow-init", 1, 6) {
				sc.slow[[2]int{i, k}] = true
			}
		}
	}
	extNode := sn.AddNode(local_v1.DefaultCurve) // an outside sender
	ext = extNode.Index
	extCh := extNode.Channel("c14")
	logger := log.Logger("verif-c14")
	for _, n := range nodes {
		n := n
		go func() {
			m := NewSyncMachine(logger, n.ch, n.blocks, &c14State{k: 0, node: n, sc: sc})
			st, end, err := m.Execute(start)
			n.err, n.endBlock = err, end
			if st != nil {
				n.endState = st.(*c14State).k
			}
			n.done = true
		}()
	}
	synctest.Wait()

	type flight struct {
		env  *verifadapt.Envelope
		left []int // receivers not yet served
	}
	var pool []*flight
	// expected receptions per node, in delivery order; dup copies are optional
	type exp struct {
		state int
		id    uint64
		dup   bool
	}
	expected := make([][]exp, nNodes)
	seenCopy := make([]map[string]bool, nNodes)
	for i := range seenCopy {
		seenCopy[i] = map[string]bool{}
	}
	collect := func() {
		for _, e := range sn.Drain() {
			recv := []int{}
			for i := 0; i < nNodes; i++ {
				recv = append(recv, i)
			}
			pool = append(pool, &flight{env: e, left: recv})
		}
	}
	collect()
	steps := 0
	for {
		allDone := true
		for _, n := range nodes {
			if !n.done {
				allDone = false
			}
		}
		if allDone {
			break
		}
		steps++
		if steps > 600 {
			r.Inconclusive("step-cap")
			break
		}
		r.Step()
		// possible events
		type ev struct {
			kind string
			a, b int
		}
		var evs []ev
		for i, n := range nodes {
			if n.done {
				continue
			}
			v := n.blocks.Height()
			k := cur(v)
			if n.parked {
				evs = append(evs, ev{"release", i, 0})
				// keep the premise: Initiate returns before the state's end
				if k >= 0 && v+1 < endB[k] {
					evs = append(evs, ev{"block", i, 1})
				}
				continue
			}
			evs = append(evs, ev{"block", i, 1})
		}
		// deliveries: only to nodes whose current state is non-silent and whose
		// Initiate is not parked in a zero-length state
		for pi, f := range pool {
			for li, to := range f.left {
				n := nodes[to]
				if n.done {
					continue
				}
				k := cur(n.blocks.Height())
				if k < 0 || sc.cfg[k].active == 0 {
					continue
				}
				_ = li
				evs = append(evs, ev{"deliver", pi, to})
			}
		}
		if len(evs) == 0 {
			r.Inconclusive("no-events")
			break
		}
		// weight: blocks are the benign progress; choose kind first
		var pick ev
		kinds := map[string][]ev{}
		for _, e := range evs {
			kinds[e.kind] = append(kinds[e.kind], e)
		}
		order := []string{"block", "deliver", "release", "inject"}
		avail := []string{}
		w := []int{}
		for _, kd := range order {
			if kd == "inject" {
				avail = append(avail, kd)
				w = append(w, 1)
				continue
			}
			if len(kinds[kd]) > 0 {
				avail = append(avail, kd)
				switch kd {
				case "block":
					w = append(w, 4)
				case "deliver":
					w = append(w, 5)
				default:
					w = append(w, 3)
				}
			}
		}
		kd := avail[tp.Weighted("event", w...)]
		if kd == "inject" {
			sc.nextID++
			id := 500000 + sc.nextID
			extCh.Send(context.Background(), &c14Msg{ID: id})
			collect()
			r.Logf("inject id=%d", id)
			r.NonTrivial()
			continue
		}
		cands := kinds[kd]
		pick = cands[tp.Choose(kd, len(cands))]
		switch pick.kind {
		case "block":
			n := nodes[pick.a]
			by := uint64(1)
			if burst && !n.parked {
				by = uint64(1 + tp.Choose("burst", 3))
				if by > 1 {
					r.Fault("block-burst")
				}
			}
			n.blocks.Advance(n.blocks.Height() + by)
			r.AddSim(0, int64(by))
			r.Logf("block node=%d -> %d", pick.a, n.blocks.Height())
		case "release":
			sc.gates.Release(fmt.Sprintf("init-%d", pick.a))
			r.Fault("slow-initiate")
			r.Logf("release-initiate node=%d at %d", pick.a, nodes[pick.a].blocks.Height())
		case "deliver":
			f := pool[pick.a]
			to := pick.b
			n := nodes[to]
			v := n.blocks.Height()
			k := cur(v)
			key := fmt.Sprintf("%d/%d", f.env.From, f.env.Seqno)
			dupCopy := seenCopy[to][key]
			seenCopy[to][key] = true
			id := binary.BigEndian.Uint64(f.env.Payload)
			expected[to] = append(expected[to], exp{k, id, dupCopy})
			sn.Deliver(f.env, to)
			keep := tp.Chance("dup-later", 1, 5)
			if keep {
				r.Fault("duplicate")
			} else {
				nl := []int{}
				for _, x := range f.left {
					if x != to {
						nl = append(nl, x)
					}
				}
				f.left = nl
			}
			if f.env.From == ext || f.env.From != to {
				r.NonTrivial()
			}
			r.Logf("deliver %s id=%d to=%d at=%d state=%d dup=%v", key, id, to, v, k, dupCopy)
		}
		synctest.Wait()
		collect()
	}
	sc.gates.ReleaseAll()
	synctest.Wait()

	// ---- oracle ----
	for i, n := range nodes {
		if !n.done {
			continue // inconclusive run
		}
		if n.err != nil {
			r.Failf("C14:execute-error", "node %d: Execute returned error %v", i, n.err)
			return
		}
		if n.endBlock != total {
			r.Failf("C14:end-block", "node %d: Execute returned end block %d, want start %d + total duration = %d (cfg %v)", i, n.endBlock, start, total, sc.cfg)
			return
		}
		if n.endState != nStates-1 {
			r.Failf("C14:final-state", "node %d finished in state %d, want %d", i, n.endState, nStates-1)
			return
		}
		if len(n.inits) != nStates {
			r.Failf("C14:initiate-count", "node %d: %d Initiate calls, want %d", i, len(n.inits), nStates)
			return
		}
		for k, h := range n.inits {
			if burst {
				if h < initB[k] {
					r.Failf("C14:initiate-early", "node %d state %d initiated at block %d, before its delay ended at %d", i, k, h, initB[k])
					return
				}
			} else if h != initB[k] {
				r.Failf("C14:initiate-block", "node %d state %d initiated at block %d, want %d (cfg %v start %d)", i, k, h, initB[k], sc.cfg, start)
				return
			}
		}
		// receptions
		got := n.received
		gi := 0
		for _, e := range expected[i] {
			if gi < len(got) && got[gi][0] == uint64(e.state) && got[gi][1] == e.id {
				gi++
				continue
			}
			if e.dup {
				continue // filtered duplicate is fine
			}
			if burst {
				// with bursts the node may have moved on before handling; only
				// single-block runs decide message routing exactly
				gi = -1
				break
			}
			var g interface{} = "nothing"
			if gi < len(got) {
				g = got[gi]
			}
			r.Failf("C14:message-routing", "node %d: message id=%d delivered while state %d was current; machine handed %v (all received: %v, expected %v)", i, e.id, e.state, g, got, expected[i])
			return
		}
		if gi >= 0 && gi != len(got) && !burst {
			r.Failf("C14:message-routing", "node %d: machine handed extra messages %v beyond expected %v", i, got[gi:], expected[i])
			return
		}
	}
	// all machines moved through phases at the same blocks
	for i := 1; i < nNodes; i++ {
		if !nodes[i].done || !nodes[0].done || burst {
			continue
		}
		for k := range nodes[0].inits {
			if nodes[0].inits[k] != nodes[i].inits[k] {
				r.Failf("C14:members-diverge", "node 0 and %d initiated state %d at blocks %d / %d", i, k, nodes[0].inits[k], nodes[i].inits[k])
				return
			}
		}
	}
}
