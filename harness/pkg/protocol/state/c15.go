package state

// C15: message-driven state machine. The real AsyncMachine.Execute runs toy
// AsyncStates that keep their messages in the real BaseAsyncState; the tape
// decides how long every Initiate lasts (gated), when the messages that make
// CanTransition true arrive (including messages for states up to three
// ahead, duplicates, re-sent copies, rejected junk), when the fake clock
// moves (it drives the machine's 100 ms CanTransition poll), whether an
// Initiate / Next fails, and at which step the context is cancelled.

import (
	"context"
	"encoding/binary"
	"errors"
	"fmt"
	"sort"
	"sync"
	"testing"
	"testing/synctest"
	"time"

	"github.com/ipfs/go-log/v2"
	"github.com/keep-network/keep-core/pkg/chain/local_v1"
	"github.com/keep-network/keep-core/pkg/internal/verifadapt"
	"github.com/keep-network/keep-core/pkg/net"
	"github.com/keep-network/keep-core/pkg/protocol/group"

	"verifsim"
)

func init() {
	verifScenarios["C15"] = verifsim.Scenario{Bubble: true, Fn: c15Run}
}

var (
	c15ErrInit = errors.New("c15: planned initiation failure")
	c15ErrNext = errors.New("c15: planned Next failure")
)

type c15Msg struct {
	State uint8
	Valid bool
	ID    uint64
}

func c15Type(k int) string     { return fmt.Sprintf("c15/s%d", k) }
func (m *c15Msg) Type() string { return c15Type(int(m.State)) }
func (m *c15Msg) Marshal() ([]byte, error) {
	b := make([]byte, 10)
	b[0] = m.State
	if m.Valid {
		b[1] = 1
	}
	binary.BigEndian.PutUint64(b[2:], m.ID)
	return b, nil
}
func (m *c15Msg) Unmarshal(b []byte) error {
	if len(b) != 10 {
		return fmt.Errorf("bad length")
	}
	m.State, m.Valid, m.ID = b[0], b[1] == 1, binary.BigEndian.Uint64(b[2:])
	return nil
}

type c15Adm struct {
	at, st int
	id     uint64
}

type c15Sc struct {
	r     *verifsim.Run
	gates *verifsim.Gates
	base  *BaseAsyncState
	ch    *verifadapt.Chan
	n     int
	need  []int
	slow  []bool
	// planned failures (-1: none)
	initErr, nextErr int

	mu         sync.Mutex
	initStart  []uint64
	initEnd    []uint64
	initFailed bool
	nextFailed bool
	ctCalls    []int
	ctTrue     []uint64
	nextSeq    []uint64
	parked     int
	slowRecv   bool // the next Receive parks at a gate
	recvParked bool
	quiet      bool // outcomes depend on Go's select from here on: nothing more enters the ordered log
	admitted   []c15Adm
	stable     int // admitted[:stable] were complete (stored) at the last quiescence; set by the simulator only
	received   map[uint64]int
}

type c15State struct {
	k  int
	sc *c15Sc
}

func (s *c15State) MemberIndex() group.MemberIndex { return 1 }

// logf writes to the ordered event log until the run turned quiet.
func (sc *c15Sc) logf(format string, args ...interface{}) {
	sc.mu.Lock()
	q := sc.quiet
	sc.mu.Unlock()
	if !q {
		sc.r.Logf(format, args...)
	}
}

// snapshot reads the history of every message type through the real
// BaseAsyncState. Callers take it BEFORE touching any harness lock, so that the
// harness adds no happens-before edge between a state's Receive (history
// write) and this read - the race detector then judges the real locking.
func (sc *c15Sc) snapshot() [][]net.Message {
	out := make([][]net.Message, sc.n)
	for k := 0; k < sc.n; k++ {
		out[k] = sc.base.GetAllReceivedMessages(c15Type(k))
	}
	return out
}

// checkVisible: every message admitted so far is in the history offered to state k.
func (sc *c15Sc) checkVisible(k int, where string, snap [][]net.Message) {
	// only messages whose Receive had certainly finished when the snapshot was
	// taken: a Receive may be running right now in the Execute loop
	sc.mu.Lock()
	adm := append([]c15Adm(nil), sc.admitted[:sc.stable]...)
	sc.mu.Unlock()
	want := map[[2]uint64]int{}
	var keys [][2]uint64
	for _, a := range adm {
		key := [2]uint64{uint64(a.st), a.id}
		if want[key] == 0 {
			keys = append(keys, key)
		}
		want[key]++
	}
	for _, key := range keys {
		got := 0
		if int(key[0]) < len(snap) {
			for _, m := range snap[key[0]] {
				if p, ok := m.Payload().(*c15Msg); ok && p.ID == key[1] {
					got++
				}
			}
		}
		if got < want[key] {
			sc.r.Failf("C15:admitted-message-not-visible", "state %d (%s): message id=%d for state %d was admitted %d time(s) but GetAllReceivedMessages shows it %d time(s)", k, where, key[1], key[0], want[key], got)
			return
		}
	}
}

func (s *c15State) Initiate(ctx context.Context) error {
	sc := s.sc
	snap := sc.snapshot()
	sc.mu.Lock()
	if sc.initStart[s.k] != 0 {
		sc.r.Failf("C15:initiate-twice", "Initiate of state %d called twice", s.k)
	}
	if s.k > 0 && sc.nextSeq[s.k-1] == 0 {
		sc.r.Failf("C15:state-skipped", "Initiate of state %d although Next of state %d was never called", s.k, s.k-1)
	}
	sc.initStart[s.k] = sc.r.Seq()
	slow := sc.slow[s.k]
	sc.mu.Unlock()
	sc.logf("initiate state %d", s.k)
	sc.checkVisible(s.k, "Initiate", snap)
	if err := sc.ch.Send(ctx, &c15Msg{State: uint8(s.k), Valid: true, ID: uint64(100 + s.k)}); err != nil {
		return err
	}
	if slow {
		sc.mu.Lock()
		sc.parked = s.k
		sc.mu.Unlock()
		sc.gates.PointAs(fmt.Sprintf("init-%d", s.k), "Initiate")
		sc.mu.Lock()
		sc.parked = -1
		sc.mu.Unlock()
	}
	sc.mu.Lock()
	sc.initEnd[s.k] = sc.r.Seq()
	fail := s.k == sc.initErr
	if fail {
		sc.initFailed = true
	}
	sc.mu.Unlock()
	if fail {
		sc.logf("initiate state %d fails", s.k)
		return c15ErrInit
	}
	sc.logf("initiate state %d returns", s.k)
	return nil
}

func (s *c15State) Receive(m net.Message) error {
	p, ok := m.Payload().(*c15Msg)
	if !ok {
		return nil
	}
	sc := s.sc
	// slow Receive: the Execute loop is busy here and reads neither the
	// receive buffer nor the transition signal nor ctx.Done
	sc.mu.Lock()
	slow := sc.slowRecv
	sc.slowRecv = false
	if slow {
		sc.recvParked = true
	}
	sc.mu.Unlock()
	if slow {
		sc.gates.PointAs("recv", "Receive")
		sc.mu.Lock()
		sc.recvParked = false
		sc.mu.Unlock()
	}
	// all bookkeeping happens BEFORE the history write (see snapshot)
	sc.mu.Lock()
	sc.received[p.ID]++
	if p.Valid && int(p.State) < sc.n {
		sc.admitted = append(sc.admitted, c15Adm{s.k, int(p.State), p.ID})
	}
	sc.mu.Unlock()
	if !p.Valid {
		sc.logf("state %d rejects message id=%d", s.k, p.ID)
		return fmt.Errorf("c15: message rejected by validation")
	}
	sc.logf("state %d admits message id=%d of state %d", s.k, p.ID, p.State)
	if int(p.State) > s.k {
		sc.r.Probe("message-for-later-state-admitted")
		if int(p.State) >= s.k+2 {
			sc.r.Probe("message-two-or-more-states-ahead-admitted")
		}
	}
	sc.base.ReceiveToHistory(m)
	return nil
}

func (s *c15State) CanTransition() bool {
	sc := s.sc
	snap := sc.snapshot()
	sc.mu.Lock()
	sc.ctCalls[s.k]++
	if sc.initEnd[s.k] == 0 {
		sc.r.Failf("C15:cantransition-before-initiate-returned", "CanTransition of state %d called before its Initiate returned", s.k)
	}
	sc.mu.Unlock()
	sc.checkVisible(s.k, "CanTransition", snap)
	senders := map[string]bool{}
	for _, m := range snap[s.k] {
		if p, ok := m.Payload().(*c15Msg); ok && p.ID >= 1000 {
			senders[m.TransportSenderID().String()] = true
		}
	}
	ready := len(senders) >= sc.need[s.k]
	if ready {
		sc.mu.Lock()
		first := sc.ctTrue[s.k] == 0
		if first {
			sc.ctTrue[s.k] = sc.r.Seq()
		}
		sc.mu.Unlock()
		sc.logf("state %d can transition", s.k)
	}
	return ready
}

func (s *c15State) Next() (AsyncState, error) {
	sc := s.sc
	snap := sc.snapshot()
	sc.mu.Lock()
	if sc.initEnd[s.k] == 0 {
		sc.r.Failf("C15:next-before-initiate-returned", "Next of state %d called although its Initiate has not returned (started: %v)", s.k, sc.initStart[s.k] != 0)
	} else if sc.ctTrue[s.k] == 0 {
		sc.r.Failf("C15:next-without-cantransition", "Next of state %d called although no CanTransition call of that state returned true (%d calls)", s.k, sc.ctCalls[s.k])
	}
	if sc.nextSeq[s.k] != 0 {
		sc.r.Failf("C15:next-twice", "Next of state %d called twice", s.k)
	}
	sc.nextSeq[s.k] = sc.r.Seq()
	fail := s.k == sc.nextErr
	if fail {
		sc.nextFailed = true
	}
	sc.mu.Unlock()
	sc.checkVisible(s.k, "Next", snap)
	sc.logf("next of state %d", s.k)
	if fail {
		return nil, c15ErrNext
	}
	if s.k == sc.n-1 {
		return nil, nil
	}
	return &c15State{k: s.k + 1, sc: sc}, nil
}

func c15Run(t *testing.T, r *verifsim.Run) {
	tp := r.T
	n := 2 + tp.Choose("states", 5)
	peers := 1 + tp.Choose("peers", 3)
	sc := &c15Sc{r: r, gates: verifsim.NewGates(), base: NewBaseAsyncState(), n: n, initErr: -1, nextErr: -1, parked: -1,
		received: map[uint64]int{}}
	defer sc.gates.ReleaseAll()
	for k := 0; k < n; k++ {
		sc.need = append(sc.need, tp.Choose("need", peers+1))
		sc.slow = append(sc.slow, tp.Chance("slow-init", 1, 4))
	}
	if tp.Chance("init-error", 1, 8) {
		sc.initErr = tp.Choose("init-error-state", n)
	}
	if tp.Chance("next-error", 1, 16) {
		sc.nextErr = tp.Choose("next-error-state", n)
	}
	if sc.initErr >= 0 && tp.Chance("init-error-slow", 1, 2) {
		sc.slow[sc.initErr] = true
	}
	cancelAllowed := tp.Chance("cancel-allowed", 1, 4)
	floodMode := tp.Chance("flood-mode", 1, 30) // rare: > 512 messages arrive while a Receive is slow
	sc.initStart, sc.initEnd, sc.ctTrue, sc.nextSeq = make([]uint64, n), make([]uint64, n), make([]uint64, n), make([]uint64, n)
	sc.ctCalls = make([]int, n)
	sc.logf("cfg states=%d peers=%d need=%v slow=%v initErr=%d nextErr=%d cancelAllowed=%v", n, peers, sc.need, sc.slow, sc.initErr, sc.nextErr, cancelAllowed)

	sn := verifadapt.NewNet()
	self := sn.AddNode(local_v1.DefaultCurve)
	sc.ch = self.Channel("c15")
	for k := 0; k < n+4; k++ {
		k := k
		sc.ch.SetUnmarshaler(func() net.TaggedUnmarshaler { return &c15Msg{State: uint8(k)} })
	}
	ctx, cancel := context.WithCancel(context.Background())
	defer cancel()

	// peers are arbitrarily far ahead: all their messages exist from the start
	type flight struct {
		env       *verifadapt.Envelope
		state     int
		id        uint64
		valid     bool
		delivered int
	}
	var pool []*flight
	var peerCh []*verifadapt.Chan
	for p := 0; p < peers; p++ {
		pn := sn.AddNode(local_v1.DefaultCurve)
		c := pn.Channel("c15")
		peerCh = append(peerCh, c)
		for k := 0; k < n; k++ {
			c.Send(ctx, &c15Msg{State: uint8(k), Valid: true, ID: uint64(1000*(p+1) + k)})
		}
	}
	collect := func() {
		for _, e := range sn.Drain() {
			m := &c15Msg{}
			if m.Unmarshal(e.Payload) != nil {
				continue
			}
			pool = append(pool, &flight{env: e, state: int(m.State), id: m.ID, valid: m.Valid})
		}
		sort.SliceStable(pool, func(i, j int) bool { return pool[i].state < pool[j].state })
	}
	collect()

	var (
		resMu    sync.Mutex
		done     bool
		endState AsyncState
		endErr   error
	)
	machine := NewAsyncMachine(log.Logger("verif-c15"), ctx, sc.ch, &c15State{k: 0, sc: sc})
	go func() {
		st, err := machine.Execute()
		resMu.Lock()
		done, endState, endErr = true, st, err
		resMu.Unlock()
	}()
	// wait = quiescence; every Receive that started has finished (or is parked
	// at its entry, before any bookkeeping)
	wait := func() {
		synctest.Wait()
		sc.mu.Lock()
		sc.stable = len(sc.admitted)
		sc.mu.Unlock()
	}
	wait()
	isDone := func() bool {
		resMu.Lock()
		defer resMu.Unlock()
		return done
	}
	current := func() int { // index of the machine's current state = number of Next calls
		sc.mu.Lock()
		defer sc.mu.Unlock()
		c := 0
		for _, s := range sc.nextSeq {
			if s != 0 {
				c++
			}
		}
		return c
	}
	parked := func() int {
		sc.mu.Lock()
		defer sc.mu.Unlock()
		return sc.parked
	}
	recvCount := func(id uint64) int {
		sc.mu.Lock()
		defer sc.mu.Unlock()
		return sc.received[id]
	}
	cancelled := false
	junkN := 0
	recvParked := func() bool {
		sc.mu.Lock()
		defer sc.mu.Unlock()
		return sc.recvParked
	}
	// bookkeeping of one slow-Receive episode
	var heldWhileParked []*flight // first copies handed over while the loop was busy in Receive
	parkOther := 0                // clock steps / Initiate releases during the episode
	parkCancel := false
	flooded := false

	deliver := func(f *flight, why string) bool {
		before := recvCount(f.id)
		wasDone := isDone()
		first := f.delivered == 0
		busy := recvParked()
		f.delivered++
		handlers := sn.Deliver(f.env, self.Index)
		wait()
		collect()
		sc.logf("%s id=%d state=%d copy=%d handlers=%d", why, f.id, f.state, f.delivered, handlers)
		if busy || recvParked() {
			// the loop is (or just became) busy: judged after the release
			if first && handlers > 0 && busy {
				heldWhileParked = append(heldWhileParked, f)
			}
			return true
		}
		// a first copy handed to a running, non-cancelled machine must reach a state
		if first && handlers > 0 && !wasDone && !cancelled && !isDone() && recvCount(f.id) != before+1 {
			r.Failf("C15:delivered-message-not-received", "message id=%d (state %d) was handed to the machine's channel handler while the machine was running in state %d, but no state's Receive got it", f.id, f.state, current())
			return false
		}
		return true
	}
	// releaseRecv ends a slow Receive and judges what was handed over meanwhile
	releaseRecv := func() bool {
		held := heldWhileParked
		sources := 0
		if len(held) > 0 {
			sources++
		}
		if parkOther > 0 {
			sources++
		}
		if parkCancel {
			sources++
		}
		sc.logf("release receive (held=%d other=%d cancel=%v)", len(held), parkOther, parkCancel)
		if sources >= 2 || len(held) > 400 {
			// several things are ready when the loop returns to its select (or
			// hundreds of handlers race for the buffer): Go decides the order.
			// The schedule is logged above; what follows is judged, not logged.
			sc.mu.Lock()
			sc.quiet = true
			sc.mu.Unlock()
			r.Probe("select-order-decided-by-go")
		}
		heldWhileParked, parkOther, parkCancel = nil, 0, false
		sc.gates.Release("recv")
		wait()
		collect()
		if recvParked() {
			return true // cannot happen (slowRecv is one-shot); be safe
		}
		if !isDone() && !cancelled {
			for _, f := range held {
				if recvCount(f.id) < 1 {
					r.Failf("C15:delivered-message-not-received", "message id=%d (state %d) was handed to the machine's channel handler while a Receive was in progress (%d messages handed over meanwhile); the machine is running (state %d) and idle again, but no state's Receive ever got it", f.id, f.state, len(held), current())
					return false
				}
			}
		}
		return true
	}
	afterEvent := func() bool {
		// an initiation failure / cancellation must end Execute
		sc.mu.Lock()
		initFailed, nextFailed := sc.initFailed, sc.nextFailed
		sc.mu.Unlock()
		if !isDone() && !recvParked() {
			switch {
			case cancelled:
				r.Failf("C15:no-return-after-cancel", "context cancelled, system quiescent, Execute has not returned (current state %d)", current())
				return false
			case initFailed:
				r.Failf("C15:no-return-after-initiation-error", "Initiate of state %d returned an error, system quiescent, the loop is idle, Execute has not returned", sc.initErr)
				return false
			case nextFailed:
				r.Failf("C15:no-return-after-next-error", "Next of state %d returned an error, system quiescent, Execute has not returned", sc.nextErr)
				return false
			}
		}
		return !r.Failed()
	}

	for step := 0; step < 250 && !isDone(); step++ {
		r.Step()
		cur := current()
		var deliverable []*flight
		var deliveredOnce []*flight
		for _, f := range pool {
			if f.delivered == 0 && f.state <= cur+3 {
				deliverable = append(deliverable, f)
			}
			if f.delivered > 0 {
				deliveredOnce = append(deliveredOnce, f)
			}
		}
		kinds := []string{}
		w := []int{}
		add := func(k string, wt int) { kinds, w = append(kinds, k), append(w, wt) }
		if len(deliverable) > 0 {
			add("deliver", 5)
		}
		add("tick", 4)
		if parked() >= 0 {
			add("release", 3)
		}
		if recvParked() {
			add("release-receive", 3)
			if floodMode && !flooded {
				add("flood", 6)
			}
		}
		if len(deliveredOnce) > 0 {
			add("duplicate", 1)
		}
		add("junk", 1)
		if cancelAllowed && !cancelled {
			add("cancel", 1)
		}
		switch kinds[tp.Weighted("event", w...)] {
		case "deliver":
			i := tp.Choose("which", len(deliverable))
			if i != 0 {
				r.Fault("out-of-order-delivery")
			}
			f := deliverable[i]
			if f.state > cur {
				r.Fault("delivery-for-later-state")
			}
			if parked() >= 0 {
				r.Fault("delivery-during-initiate")
			}
			if !recvParked() && tp.Chance("slow-receive", 1, 6) {
				sc.mu.Lock()
				sc.slowRecv = true
				sc.mu.Unlock()
				r.Fault("slow-receive")
				sc.logf("next Receive is slow")
			}
			if recvParked() {
				r.Fault("delivery-during-receive")
			}
			if !deliver(f, "deliver") {
				return
			}
		case "release-receive":
			if !releaseRecv() {
				return
			}
		case "flood":
			flooded = true
			cnt := 520 + tp.Choose("flood-extra", 200)
			r.Fault("flood-over-receive-buffer")
			sc.logf("flood: %d distinct messages while Receive is busy", cnt)
			for i := 0; i < cnt; i++ {
				st := cur + i%4
				if st >= n {
					st = n - 1
				}
				peerCh[i%peers].Send(ctx, &c15Msg{State: uint8(st), Valid: true, ID: uint64(2000000 + i)})
			}
			for _, e := range sn.Drain() {
				m := &c15Msg{}
				if m.Unmarshal(e.Payload) != nil {
					continue
				}
				fl := &flight{env: e, state: int(m.State), id: m.ID, valid: m.Valid, delivered: 1}
				pool = append(pool, fl)
				if sn.Deliver(e, self.Index) > 0 {
					heldWhileParked = append(heldWhileParked, fl)
				}
			}
			wait()
		case "tick":
			d := []time.Duration{100 * time.Millisecond, 50 * time.Millisecond, 300 * time.Millisecond, time.Second, time.Millisecond}[tp.Choose("tick", 5)]
			time.Sleep(d)
			wait()
			collect()
			r.AddSim(int64(d), 0)
			sc.logf("clock +%v", d)
			if recvParked() {
				parkOther++
				r.Fault("clock-step-during-receive")
			}
		case "release":
			k := parked()
			r.Fault("slow-initiate")
			sc.logf("release initiate of state %d", k)
			sc.gates.Release(fmt.Sprintf("init-%d", k))
			wait()
			collect()
			if recvParked() {
				parkOther++
				r.Fault("initiate-ends-during-receive")
			}
		case "duplicate":
			f := deliveredOnce[tp.Choose("which-dup", len(deliveredOnce))]
			if tp.Chance("resend", 1, 2) && f.env.From != self.Index {
				// the peer sends the same content again (new sequence number)
				peerCh[f.env.From-1].Send(ctx, &c15Msg{State: uint8(f.state), Valid: f.valid, ID: f.id})
				collect()
				for _, g := range pool {
					if g.delivered == 0 && g.id == f.id && g != f {
						r.Fault("resent-copy")
						if !deliver(g, "resent copy") {
							return
						}
						break
					}
				}
			} else {
				r.Fault("duplicate-envelope")
				if !deliver(f, "duplicate envelope") {
					return
				}
			}
		case "junk":
			junkN++
			st := cur + tp.Choose("junk-state", 4)
			if st >= n+4 {
				st = n + 3
			}
			peerCh[tp.Choose("junk-peer", peers)].Send(ctx, &c15Msg{State: uint8(st), Valid: false, ID: uint64(500000 + junkN)})
			collect()
			for _, g := range pool {
				if g.id == uint64(500000+junkN) {
					r.Fault("rejected-message")
					if !deliver(g, "junk") {
						return
					}
				}
			}
		case "cancel":
			cancel()
			cancelled = true
			r.Fault("cancel")
			sc.logf("cancel at state %d (initiate parked: %v, receive parked: %v)", cur, parked() >= 0, recvParked())
			wait()
			if recvParked() {
				parkCancel = true
				r.Fault("cancel-during-receive")
			}
		}
		if !afterEvent() {
			return
		}
	}

	if recvParked() {
		if !releaseRecv() || !afterEvent() {
			return
		}
	}
	// drain: no more faults; everything still needed arrives, time passes
	if !isDone() && !cancelled {
		sc.logf("drain")
		sc.mu.Lock()
		sc.slowRecv = false
		sc.mu.Unlock()
		for guard := 0; guard < 40*n+len(pool)+50 && !isDone(); guard++ {
			if recvParked() {
				if !releaseRecv() {
					return
				}
				continue
			}
			if k := parked(); k >= 0 {
				sc.gates.Release(fmt.Sprintf("init-%d", k))
				wait()
				collect()
				continue
			}
			var next *flight
			for _, f := range pool {
				if f.delivered == 0 && f.valid && f.state < n {
					next = f
					break
				}
			}
			if next != nil {
				if !deliver(next, "drain deliver") {
					return
				}
				continue
			}
			time.Sleep(100 * time.Millisecond)
			wait()
			collect()
			r.AddSim(int64(100*time.Millisecond), 0)
			if !afterEvent() {
				return
			}
		}
		if !afterEvent() {
			return
		}
		if !isDone() {
			sc.mu.Lock()
			defer sc.mu.Unlock()
			r.Failf("C15:stuck-in-state", "every needed message was delivered and admitted, no Initiate is pending, %d s of polling passed, yet Execute neither reached the final state nor returned an error (current state %d of %d, initEnd=%v canTransitionTrue=%v next=%v)", 4*n, current2(sc), n, sc.initEnd, sc.ctTrue, sc.nextSeq)
			return
		}
	}
	cancel()
	sc.gates.ReleaseAll()
	wait()
	if r.Failed() {
		return
	}

	// ---- end-of-execution oracle ----
	resMu.Lock()
	st, err := endState, endErr
	fin := done
	resMu.Unlock()
	if !fin {
		r.Inconclusive("not-finished")
		return
	}
	sc.mu.Lock()
	defer sc.mu.Unlock()
	if err == nil {
		ts, ok := st.(*c15State)
		if !ok || ts == nil {
			r.Failf("C15:ended-without-state-or-error", "Execute returned (%v, nil)", st)
			return
		}
		if ts.k != n-1 || sc.nextSeq[n-1] == 0 {
			r.Failf("C15:ended-in-non-final-state", "Execute returned state %d with a nil error; the final state is %d (Next calls: %v)", ts.k, n-1, sc.nextSeq)
			return
		}
		if sc.initFailed {
			r.Failf("C15:initiation-error-swallowed", "Initiate of state %d failed but Execute returned the final state without error", sc.initErr)
			return
		}
		for k := 0; k < n; k++ {
			if sc.initEnd[k] == 0 || sc.ctTrue[k] == 0 || sc.nextSeq[k] == 0 {
				r.Failf("C15:state-skipped", "Execute returned the final state but state %d was not fully executed (initEnd=%v canTransitionTrue=%v next=%v)", k, sc.initEnd, sc.ctTrue, sc.nextSeq)
				return
			}
		}
		r.Probe("ended-in-final-state")
		return
	}
	switch {
	case sc.initFailed && errors.Is(err, c15ErrInit):
		r.Probe("ended-with-initiation-error")
	case sc.nextFailed && errors.Is(err, c15ErrNext):
		r.Probe("ended-with-next-error")
	case cancelled && errors.Is(err, context.Canceled):
		r.Probe("ended-with-ctx-error")
	default:
		r.Failf("C15:unexpected-error", "Execute returned error %q; initiation failed: %v, Next failed: %v, cancelled by the simulator: %v", err.Error(), sc.initFailed, sc.nextFailed, cancelled)
	}
}

func current2(sc *c15Sc) int {
	c := 0
	for _, s := range sc.nextSeq {
		if s != 0 {
			c++
		}
	}
	return c
}
