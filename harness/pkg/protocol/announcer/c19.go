package announcer

// C19 (announcer part): the victim is a RUNNING Announcer.Announce (real
// RegisterUnmarshaller registration, real receive loop) on the simulated
// network. A group member's node sends it a valid announcement and
// tape-corrupted copies; every message the unmarshaler accepts is delivered to
// the live handler. Oracles: round trip, no panic in the unmarshaler or in
// the Announce goroutine, and the valid announcement is reflected in the
// result.

import (
	"context"
	"runtime/debug"
	"testing"
	"testing/synctest"

	"github.com/ipfs/go-log/v2"
	"github.com/keep-network/keep-core/pkg/chain"
	"github.com/keep-network/keep-core/pkg/chain/local_v1"
	"github.com/keep-network/keep-core/pkg/internal/verifadapt"
	"github.com/keep-network/keep-core/pkg/protocol/group"

	"verifsim"
)

func init() {
	verifScenarios["C19"] = verifsim.Scenario{Bubble: true, Fn: c19Run, MinBudget: 150}
}

func c19Run(t *testing.T, r *verifsim.Run) {
	tp := r.T
	logger := log.Logger("verif-c19-announcer")
	sn := verifadapt.NewNet()
	n := 3 + tp.Choose("n", 3)
	var addrs []chain.Address
	var nodes []*verifadapt.NetNode
	var signing chain.Signing
	for i := 0; i < n; i++ {
		nn := sn.AddNode(local_v1.DefaultCurve)
		nodes = append(nodes, nn)
		if signing == nil {
			signing = local_v1.NewSigner(nn.Priv)
		}
		a, err := signing.PublicKeyToAddress(nn.Pub)
		if err != nil {
			panic(err)
		}
		addrs = append(addrs, a)
	}
	senderIdx := 1 + tp.Choose("sender", n-1)
	sender, victim := nodes[senderIdx], nodes[0]
	ch := victim.Channel("announce")
	RegisterUnmarshaller(ch)
	mv := group.NewMembershipValidator(logger, addrs, signing)
	protocolID, session := "c19-protocol", "c19-session-7"
	a := New(protocolID, ch, mv)
	r.Logf("cfg n=%d sender=%d", n, senderIdx+1)

	ctx, cancel := context.WithCancel(context.Background())
	defer cancel()
	var ready []group.MemberIndex
	done := false
	go func() {
		defer func() {
			if p := recover(); p != nil {
				done = true
				r.Failf("C19:handler-panic:protocol_announcer/announcement_message", "the running Announce panicked: %v\n%s", p, debug.Stack())
			}
		}()
		ready, _ = a.Announce(ctx, 1, session)
		done = true
	}()
	synctest.Wait()
	sn.Drain() // the victim's own announcement

	h := verifadapt.NewHostile(r, "C19", sn, sender.Index, victim.Index, "announce")
	h.OnAccept = func(typ string, m *verifadapt.Message, valid bool) {
		// hand the very same bytes to the live handler of the running announcer
		if sn.Deliver(m.OrigSeqEnv, victim.Index) > 0 {
			r.Probe("delivered-to-running-announcer")
		}
		synctest.Wait()
	}
	sent := &announcementMessage{senderID: group.MemberIndex(senderIdx + 1), protocolID: protocolID, sessionID: session}
	payload := h.RoundTrip(sent)
	if r.Failed() || payload == nil {
		return
	}
	h.Attack(sent.Type(), payload, 6+tp.Choose("attacks", 20))
	if r.Failed() {
		return
	}
	cancel()
	synctest.Wait()
	if !done {
		r.Failf("C19:announcer-did-not-return", "Announce did not return after its context was cancelled")
		return
	}
	has := func(x group.MemberIndex) bool {
		for _, y := range ready {
			if y == x {
				return true
			}
		}
		return false
	}
	if !has(1) || !has(group.MemberIndex(senderIdx+1)) {
		r.Failf("C19:valid-announcement-lost", "ready members %v: want the announcer itself (1) and the sender of the valid announcement (%d)", ready, senderIdx+1)
	}
}
