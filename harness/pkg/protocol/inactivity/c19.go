package inactivity

// C19 (inactivity claim part): a victim node with the REAL
// inactivity.RegisterUnmarshallers registration receives valid and
// tape-corrupted claimSignatureMessages; accepted ones go to the real
// claimSigningState.Receive, and what was collected goes through the real
// signaturesVerificationState.Initiate (verifyInactivityClaimSignatures).

import (
	"context"
	"testing"

	"github.com/ipfs/go-log/v2"
	"github.com/keep-network/keep-core/pkg/chain"
	"github.com/keep-network/keep-core/pkg/chain/local_v1"
	"github.com/keep-network/keep-core/pkg/internal/verifadapt"
	"github.com/keep-network/keep-core/pkg/protocol/group"
	"github.com/keep-network/keep-core/pkg/protocol/state"

	"verifsim"
)

func init() {
	verifScenarios["C19"] = verifsim.Scenario{Bubble: false, Fn: c19Run, MinBudget: 150}
}

// c19ClaimSigner verifies claim signatures with the local chain signer (the
// production implementation lives in pkg/tbtc).
type c19ClaimSigner struct{ signing chain.Signing }

func (s *c19ClaimSigner) SignClaim(claim *ClaimPreimage) (*SignedClaimHash, error) {
	return nil, nil
}

func (s *c19ClaimSigner) VerifySignature(sc *SignedClaimHash) (bool, error) {
	return s.signing.VerifyWithPublicKey(sc.ClaimHash[:], sc.Signature, sc.PublicKey)
}

func c19Run(t *testing.T, r *verifsim.Run) {
	tp := r.T
	logger := log.Logger("verif-c19-inactivity")
	sn := verifadapt.NewNet()
	n := 3 + tp.Choose("n", 3)
	var addrs []chain.Address
	var nodes []*verifadapt.NetNode
	var signing chain.Signing
	for i := 0; i < n; i++ {
		nn := sn.AddNode(local_v1.DefaultCurve)
		nodes = append(nodes, nn)
		if signing == nil {
			signing = local_v1.NewSigner(nn.Priv)
		}
		a, err := signing.PublicKeyToAddress(nn.Pub)
		if err != nil {
			panic(err)
		}
		addrs = append(addrs, a)
	}
	senderIdx := 1 + tp.Choose("sender", n-1)
	sender, victim := nodes[senderIdx], nodes[0]
	RegisterUnmarshallers(victim.Channel("inactivity"))
	mv := group.NewMembershipValidator(logger, addrs, signing)
	session := "c19-inactivity-session"
	member := newSigningMember(logger, 1, n, 1, mv, session)
	var hash ClaimHash
	copy(hash[:], tp.Bytes("claim-hash", ClaimHashByteSize))
	member.preferredInactivityClaimHash = hash
	member.selfInactivityClaimSignature = []byte("self")
	st := &claimSigningState{BaseAsyncState: state.NewBaseAsyncState(), member: member}

	senderSigning := local_v1.NewSigner(sender.Priv)
	sig, err := senderSigning.Sign(hash[:])
	if err != nil {
		panic(err)
	}
	sent := &claimSignatureMessage{
		senderID:  group.MemberIndex(senderIdx + 1),
		claimHash: hash,
		signature: sig,
		publicKey: senderSigning.PublicKey(),
		sessionID: session,
	}
	r.Logf("cfg n=%d sender=%d", n, senderIdx+1)

	h := verifadapt.NewHostile(r, "C19", sn, sender.Index, victim.Index, "inactivity")
	h.OnAccept = func(typ string, m *verifadapt.Message, valid bool) {
		before := len(st.GetAllReceivedMessages(typ))
		if err := st.Receive(m); err != nil {
			r.Probe("state-receive-error")
		}
		_ = st.CanTransition()
		if len(st.GetAllReceivedMessages(typ)) > before {
			if valid {
				r.Probe("valid-message-kept-by-state")
			} else {
				r.Probe("mutated-message-kept-by-state")
			}
		}
	}
	payload := h.RoundTrip(sent)
	if r.Failed() || payload == nil {
		return
	}
	h.Attack(sent.Type(), payload, 6+tp.Choose("attacks", 20))
	if r.Failed() {
		return
	}
	if p, v, stk := verifadapt.GuardedCall(func() {
		next, _ := st.Next()
		svs := next.(*signaturesVerificationState)
		svs.claimSigner = &c19ClaimSigner{signing}
		_ = svs.Initiate(context.Background())
		if len(svs.validSignatures) > 1 {
			r.Probe("signature-of-sender-verified")
		}
	}); p {
		r.Failf("C19:handler-panic:"+sent.Type(), "signaturesVerificationState.Initiate panicked on messages the unmarshaler accepted: %v\n%s", v, stk)
	}
}
