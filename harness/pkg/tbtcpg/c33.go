package tbtcpg

// C33: proposal discovery selects exactly the eligible requests, oldest first.
//
// A simulated bridge / user workload evolves over simulated time inside a
// synctest bubble (fake clock): deposits are revealed (several per funding
// transaction, for this and for another wallet), funded with varying
// confirmations (unknown / mempool / mined), swept; redemptions are requested
// (several events per redemption key over time), completed, left to time out.
// At random instants the real discovery code runs against the model:
// DepositSweepTask.FindDepositsToSweep (findDeposits), RedemptionTask.
// FindPendingRedemptions (findPendingRedemptions) and ProposalGenerator.Generate
// (real deposit sweep and redemption tasks, tape-driven stand-ins for the other
// action types) with chain query errors injected. The chain does not change
// during one discovery call. The oracle computes the reference selection from
// the model's ground truth.

import (
	"bytes"
	"crypto/sha256"
	"encoding/binary"
	"fmt"
	"math/big"
	"testing"
	"time"

	"github.com/ipfs/go-log/v2"

	"github.com/keep-network/keep-core/pkg/bitcoin"
	"github.com/keep-network/keep-core/pkg/chain"
	"github.com/keep-network/keep-core/pkg/tbtc"

	"verifsim"
)

type c33Deposit struct {
	id         int
	txHash     bitcoin.Hash
	idx        uint32
	wallet     [20]byte
	block      uint64
	revealedAt time.Time
	swept      bool
	sweptAt    time.Time
	amount     uint64
	btcHeight  int // >0 mined at that height, 0 mempool, -1 unknown to the node
}

type c33Request struct {
	block  uint64
	at     time.Time
	amount uint64
}

type c33Redemption struct {
	id      int
	wallet  [20]byte
	script  bitcoin.Script
	events  []*c33Request
	pending *c33Request
	delay   time.Duration
}

type c33World struct {
	r     *verifsim.Run
	t0    time.Time
	block uint64
	tip   int

	wallet, other [20]byte
	deposits      []*c33Deposit
	reds          []*c33Redemption
	nextTx        int

	depositMinAge uint32
	sweepMax      uint16
	redMax        uint16
	reqMinAge     uint32
	reqTimeout    uint32
	avgBlock      time.Duration
	feeRate       int64

	// per-discovery plan / observations
	errors        bool
	erred         bool
	orderMode     int
	orderPerm     []int
	confFailedTx  map[bitcoin.Hash]bool
	pendingCalls  int
	failPendingAt int
	delayFail     map[int]bool
}

func (w *c33World) rel(t time.Time) int { return int(t.Sub(w.t0) / time.Second) }

// hook is the fault point of queries that the code under test makes in a
// deterministic order.
func (w *c33World) hook(name string) error {
	w.r.Step()
	if w.errors && w.r.T.Chance("query-error", 1, 30) {
		w.erred = true
		w.r.Fault("error:" + name)
		w.r.Logf("%s -> injected error", name)
		return fmt.Errorf("c33: injected error at %s", name)
	}
	return nil
}

// ---------------- host chain stub ----------------

type c33Chain struct {
	Chain // methods not listed below are never called
	w     *c33World
}

type c33Blocks struct {
	chain.BlockCounter
	w *c33World
}

func (b *c33Blocks) CurrentBlock() (uint64, error) {
	if err := b.w.hook("CurrentBlock"); err != nil {
		return 0, err
	}
	return b.w.block, nil
}

func (c *c33Chain) BlockCounter() (chain.BlockCounter, error) {
	if err := c.w.hook("BlockCounter"); err != nil {
		return nil, err
	}
	return &c33Blocks{w: c.w}, nil
}
func (c *c33Chain) AverageBlockTime() time.Duration { return c.w.avgBlock }

func (c *c33Chain) GetDepositMinAge() (uint32, error) {
	if err := c.w.hook("GetDepositMinAge"); err != nil {
		return 0, err
	}
	return c.w.depositMinAge, nil
}

func (c *c33Chain) GetDepositSweepMaxSize() (uint16, error) {
	if err := c.w.hook("GetDepositSweepMaxSize"); err != nil {
		return 0, err
	}
	return c.w.sweepMax, nil
}

func (c *c33Chain) GetDepositParameters() (uint64, uint64, uint64, uint32, error) {
	if err := c.w.hook("GetDepositParameters"); err != nil {
		return 0, 0, 0, 0, err
	}
	return 1000, 2000, 1 << 40, 100, nil
}

func c33Wanted(filter [][20]byte, wallet [20]byte) bool {
	if len(filter) == 0 {
		return true
	}
	for _, f := range filter {
		if f == wallet {
			return true
		}
	}
	return false
}

func (c *c33Chain) PastDepositRevealedEvents(f *tbtc.DepositRevealedEventFilter) ([]*tbtc.DepositRevealedEvent, error) {
	w := c.w
	if err := w.hook("PastDepositRevealedEvents"); err != nil {
		return nil, err
	}
	var out []*tbtc.DepositRevealedEvent
	for _, d := range w.deposits {
		if f != nil {
			if d.block < f.StartBlock || (f.EndBlock != nil && d.block > *f.EndBlock) || !c33Wanted(f.WalletPublicKeyHash, d.wallet) {
				continue
			}
		}
		out = append(out, &tbtc.DepositRevealedEvent{
			FundingTxHash: d.txHash, FundingOutputIndex: d.idx, Depositor: "0xdepositor", Amount: d.amount,
			WalletPublicKeyHash: d.wallet, BlockNumber: d.block,
		})
	}
	if f == nil || f.EndBlock == nil {
		out = c33ReorderBlocks(out, func(e *tbtc.DepositRevealedEvent) uint64 { return e.BlockNumber }, w.orderMode, w.orderPerm)
	}
	return out, nil
}

// c33ReorderBlocks reorders an event list (given sorted by block) at the
// granularity of whole blocks: like the production binding (eth_getLogs order,
// stable sort by block number) the events of one block always stay in their
// log = reveal order; which block range comes first is up to the tape.
func c33ReorderBlocks[T any](in []T, block func(T) uint64, mode int, perm []int) []T {
	var groups [][]T
	for i, e := range in {
		if i == 0 || block(e) != block(in[i-1]) {
			groups = append(groups, nil)
		}
		groups[len(groups)-1] = append(groups[len(groups)-1], e)
	}
	out := make([]T, 0, len(in))
	for _, g := range c33Reorder(groups, mode, perm) {
		out = append(out, g...)
	}
	return out
}

// c33Reorder models a client that assembles the event list from several
// ranges: sorted / reversed / rotated / permuted.
func c33Reorder[T any](in []T, mode int, perm []int) []T {
	n := len(in)
	out := make([]T, 0, n)
	switch mode {
	case 1:
		for i := n - 1; i >= 0; i-- {
			out = append(out, in[i])
		}
	case 2:
		if n > 0 && len(perm) > 0 {
			k := perm[0] % n
			out = append(append(out, in[k:]...), in[:k]...)
		}
	case 3:
		used := make([]bool, n)
		for _, p := range perm {
			if p < n && !used[p] {
				used[p] = true
				out = append(out, in[p])
			}
		}
		for i := 0; i < n; i++ {
			if !used[i] {
				out = append(out, in[i])
			}
		}
	default:
		out = append(out, in...)
	}
	return out
}

func (c *c33Chain) BuildDepositKey(h bitcoin.Hash, idx uint32) *big.Int {
	var b [4]byte
	binary.BigEndian.PutUint32(b[:], idx)
	s := sha256.Sum256(append(append([]byte{}, h[:]...), b[:]...))
	return new(big.Int).SetBytes(s[:])
}

func (w *c33World) deposit(h bitcoin.Hash, idx uint32) *c33Deposit {
	for _, d := range w.deposits {
		if d.txHash == h && d.idx == idx {
			return d
		}
	}
	return nil
}

func (c *c33Chain) GetDepositRequest(h bitcoin.Hash, idx uint32) (*tbtc.DepositChainRequest, bool, error) {
	if err := c.w.hook("GetDepositRequest"); err != nil {
		return nil, false, err
	}
	d := c.w.deposit(h, idx)
	if d == nil {
		return nil, false, nil
	}
	req := &tbtc.DepositChainRequest{Depositor: "0xdepositor", Amount: d.amount, RevealedAt: d.revealedAt, SweptAt: time.Unix(0, 0)}
	if d.swept {
		req.SweptAt = d.sweptAt
	}
	return req, true, nil
}

func (c *c33Chain) ValidateDepositSweepProposal(wallet [20]byte, p *tbtc.DepositSweepProposal, extra []struct {
	*tbtc.Deposit
	FundingTx *bitcoin.Transaction
}) error {
	w := c.w
	if err := w.hook("ValidateDepositSweepProposal"); err != nil {
		return err
	}
	if len(p.DepositsKeys) == 0 || len(p.DepositsKeys) > int(w.sweepMax) || len(p.DepositsKeys) != len(p.DepositsRevealBlocks) || len(extra) != len(p.DepositsKeys) {
		return fmt.Errorf("c33 bridge: bad proposal size")
	}
	seen := map[int]bool{}
	for i, k := range p.DepositsKeys {
		d := w.deposit(k.FundingTxHash, k.FundingOutputIndex)
		if d == nil || d.wallet != wallet || d.swept || seen[d.id] || p.DepositsRevealBlocks[i].Uint64() != d.block {
			return fmt.Errorf("c33 bridge: deposit %d of the proposal is not sweepable by this wallet", i)
		}
		seen[d.id] = true
	}
	if p.SweepTxFee == nil || p.SweepTxFee.Sign() <= 0 {
		return fmt.Errorf("c33 bridge: bad fee")
	}
	return nil
}

func (c *c33Chain) GetRedemptionRequestMinAge() (uint32, error) {
	if err := c.w.hook("GetRedemptionRequestMinAge"); err != nil {
		return 0, err
	}
	return c.w.reqMinAge, nil
}

func (c *c33Chain) GetRedemptionMaxSize() (uint16, error) {
	if err := c.w.hook("GetRedemptionMaxSize"); err != nil {
		return 0, err
	}
	return c.w.redMax, nil
}

func (c *c33Chain) GetRedemptionParameters() (uint64, uint64, uint64, uint64, uint32, *big.Int, uint32, error) {
	if err := c.w.hook("GetRedemptionParameters"); err != nil {
		return 0, 0, 0, 0, 0, nil, 0, err
	}
	return 1000, 2000, 10000, 100000, c.w.reqTimeout, big.NewInt(1), 100, nil
}

func (c *c33Chain) PastRedemptionRequestedEvents(f *tbtc.RedemptionRequestedEventFilter) ([]*tbtc.RedemptionRequestedEvent, error) {
	w := c.w
	if err := w.hook("PastRedemptionRequestedEvents"); err != nil {
		return nil, err
	}
	var evs []*tbtc.RedemptionRequestedEvent
	type item struct {
		blk uint64
		e   *tbtc.RedemptionRequestedEvent
	}
	var items []item
	for _, rd := range w.reds {
		for _, q := range rd.events {
			if f != nil {
				if q.block < f.StartBlock || (f.EndBlock != nil && q.block > *f.EndBlock) || !c33Wanted(f.WalletPublicKeyHash, rd.wallet) {
					continue
				}
			}
			items = append(items, item{q.block, &tbtc.RedemptionRequestedEvent{
				WalletPublicKeyHash: rd.wallet, RedeemerOutputScript: append(bitcoin.Script(nil), rd.script...),
				Redeemer: "0xredeemer", RequestedAmount: q.amount, TreasuryFee: 10, TxMaxFee: 1000, BlockNumber: q.block,
			}})
		}
	}
	// insertion sort by block (stable)
	for i := 1; i < len(items); i++ {
		for j := i; j > 0 && items[j-1].blk > items[j].blk; j-- {
			items[j-1], items[j] = items[j], items[j-1]
		}
	}
	for _, it := range items {
		evs = append(evs, it.e)
	}
	return c33ReorderBlocks(evs, func(e *tbtc.RedemptionRequestedEvent) uint64 { return e.BlockNumber }, w.orderMode, w.orderPerm), nil
}

func (c *c33Chain) BuildRedemptionKey(wallet [20]byte, script bitcoin.Script) (*big.Int, error) {
	s := sha256.Sum256(append(append([]byte{}, wallet[:]...), script...))
	return new(big.Int).SetBytes(s[:]), nil
}

func (w *c33World) redemption(wallet [20]byte, script bitcoin.Script) *c33Redemption {
	for _, rd := range w.reds {
		if rd.wallet == wallet && bytes.Equal(rd.script, script) {
			return rd
		}
	}
	return nil
}

// GetPendingRedemptionRequest is called once per redemption key in Go map
// order: its faults are planned by call count (never drawn here) and it does
// not log.
func (c *c33Chain) GetPendingRedemptionRequest(wallet [20]byte, script bitcoin.Script) (*tbtc.RedemptionRequest, bool, error) {
	w := c.w
	w.pendingCalls++
	if w.failPendingAt > 0 && w.pendingCalls == w.failPendingAt {
		w.erred = true
		w.r.Fault("error:GetPendingRedemptionRequest")
		return nil, false, fmt.Errorf("c33: injected error at GetPendingRedemptionRequest")
	}
	rd := w.redemption(wallet, script)
	if rd == nil || rd.pending == nil {
		return nil, false, nil
	}
	return &tbtc.RedemptionRequest{Redeemer: "0xredeemer", RedeemerOutputScript: append(bitcoin.Script(nil), rd.script...),
		RequestedAmount: rd.pending.amount, TreasuryFee: 10, TxMaxFee: 1000, RequestedAt: rd.pending.at}, true, nil
}

// GetRedemptionDelay: faults planned per key (the call order among requests
// with equal timestamps is not deterministic).
func (c *c33Chain) GetRedemptionDelay(wallet [20]byte, script bitcoin.Script) (time.Duration, error) {
	w := c.w
	rd := w.redemption(wallet, script)
	if rd == nil {
		return 0, fmt.Errorf("c33: delay asked for an unknown redemption")
	}
	if w.delayFail[rd.id] {
		w.erred = true
		w.r.Fault("error:GetRedemptionDelay")
		return 0, fmt.Errorf("c33: injected error at GetRedemptionDelay")
	}
	return rd.delay, nil
}

func (c *c33Chain) ValidateRedemptionProposal(wallet [20]byte, p *tbtc.RedemptionProposal) error {
	w := c.w
	if err := w.hook("ValidateRedemptionProposal"); err != nil {
		return err
	}
	if len(p.RedeemersOutputScripts) == 0 || len(p.RedeemersOutputScripts) > int(w.redMax) {
		return fmt.Errorf("c33 bridge: bad proposal size")
	}
	seen := map[int]bool{}
	for i, s := range p.RedeemersOutputScripts {
		rd := w.redemption(wallet, s)
		if rd == nil || rd.pending == nil || seen[rd.id] || !w.redEligible(rd) {
			return fmt.Errorf("c33 bridge: request %d of the proposal is not redeemable now", i)
		}
		seen[rd.id] = true
	}
	if p.RedemptionTxFee == nil || p.RedemptionTxFee.Sign() <= 0 {
		return fmt.Errorf("c33 bridge: bad fee")
	}
	return nil
}

// ---------------- Bitcoin stub ----------------

type c33Btc struct {
	bitcoin.Chain
	w *c33World
}

func (b *c33Btc) confirmations(h bitcoin.Hash) (uint, bool) {
	for _, d := range b.w.deposits {
		if d.txHash == h {
			switch {
			case d.btcHeight > 0:
				return uint(b.w.tip - d.btcHeight + 1), true
			case d.btcHeight == 0:
				return 0, true
			}
			return 0, false
		}
	}
	return 0, false
}

func (b *c33Btc) GetTransactionConfirmations(h bitcoin.Hash) (uint, error) {
	w := b.w
	if err := w.hook("GetTransactionConfirmations"); err != nil {
		w.confFailedTx[h] = true
		return 0, err
	}
	n, known := b.confirmations(h)
	if !known {
		return 0, fmt.Errorf("transaction not found")
	}
	return n, nil
}

func (b *c33Btc) GetTransaction(h bitcoin.Hash) (*bitcoin.Transaction, error) {
	if err := b.w.hook("GetTransaction"); err != nil {
		return nil, err
	}
	if _, known := b.confirmations(h); !known {
		return nil, fmt.Errorf("transaction not found")
	}
	return &bitcoin.Transaction{Version: 1}, nil
}

func (b *c33Btc) EstimateSatPerVByteFee(uint32) (int64, error) {
	if err := b.w.hook("EstimateSatPerVByteFee"); err != nil {
		return 0, err
	}
	return b.w.feeRate, nil
}

// ---------------- reference model (from the statement) ----------------

// depositEligible: revealed for the wallet, old enough, not yet swept, funding
// transaction sufficiently confirmed.
func (w *c33World) depositEligible(d *c33Deposit, now time.Time) bool {
	if d.wallet != w.wallet || d.swept {
		return false
	}
	if now.Sub(d.revealedAt) <= time.Duration(w.depositMinAge)*time.Second {
		return false
	}
	if d.btcHeight <= 0 {
		return false
	}
	return uint(w.tip-d.btcHeight+1) >= tbtc.DepositSweepRequiredFundingTxConfirmations
}

// redEligible: pending request of the wallet whose age lies between
// max(minimum age, request delay) and the timeout.
func (w *c33World) redEligible(rd *c33Redemption) bool {
	if rd.wallet != w.wallet || rd.pending == nil {
		return false
	}
	age := time.Now().Sub(rd.pending.at)
	lo := time.Duration(w.reqMinAge) * time.Second
	if rd.delay > lo {
		lo = rd.delay
	}
	return age > lo && age < time.Duration(w.reqTimeout)*time.Second
}

type c33Ref struct {
	id  int
	key int64 // ordering key: reveal block / request time
	opt bool  // may legitimately be missing (its confirmations query failed)
}

// c33CheckSelection: got must be "the first eligible ones in order, at most
// max" where elements with equal keys may come in any order and optional
// elements may be skipped.
func c33CheckSelection(kind string, eligible []c33Ref, got []c33Ref, max int) (string, string) {
	el := map[int]c33Ref{}
	for _, e := range eligible {
		el[e.id] = e
	}
	in := map[int]bool{}
	for i, g := range got {
		if _, ok := el[g.id]; !ok {
			return "C33:" + kind + "-ineligible-selected", fmt.Sprintf("element %d of the result (id %d) is not eligible", i, g.id)
		}
		if in[g.id] {
			return "C33:" + kind + "-selected-twice", fmt.Sprintf("id %d appears twice in the result", g.id)
		}
		in[g.id] = true
		if i > 0 && got[i-1].key > g.key {
			return "C33:" + kind + "-not-oldest-first", fmt.Sprintf("result is not ordered oldest first at position %d", i)
		}
	}
	if len(got) > max {
		return "C33:" + kind + "-limit-exceeded", fmt.Sprintf("%d selected, limit %d", len(got), max)
	}
	for _, e := range eligible {
		if in[e.id] || e.opt {
			continue
		}
		if len(got) < max {
			return "C33:" + kind + "-eligible-missed", fmt.Sprintf("eligible id %d is missing although only %d of at most %d were selected", e.id, len(got), max)
		}
		if e.key < got[len(got)-1].key {
			return "C33:" + kind + "-older-eligible-skipped", fmt.Sprintf("eligible id %d is older than the newest selected one but was not selected", e.id)
		}
	}
	return "", ""
}

// c33CheckRevealOrder: eligible is in reveal order (block, then position
// inside the block). got must be exactly the first max of them, where an
// optional element (its confirmations query failed) may be left out.
func c33CheckRevealOrder(eligible []c33Ref, got []c33Ref, max int) string {
	gi := 0
	for _, e := range eligible {
		switch {
		case gi < len(got) && got[gi].id == e.id:
			gi++
		case e.opt:
		case gi == len(got) && len(got) == max:
			// cut by the limit
		default:
			if gi < len(got) {
				return fmt.Sprintf("position %d of the result holds deposit %d, but deposit %d was revealed earlier (same block, earlier log) and is eligible", gi, got[gi].id, e.id)
			}
			return fmt.Sprintf("deposit %d is eligible and was revealed before the cut but is missing", e.id)
		}
	}
	if gi != len(got) {
		return fmt.Sprintf("position %d of the result (deposit %d) is out of reveal order", gi, got[gi].id)
	}
	return ""
}

func (w *c33World) eligibleDeposits() []c33Ref {
	var out []c33Ref
	now := time.Now()
	for _, d := range w.deposits {
		if w.depositEligible(d, now) {
			out = append(out, c33Ref{id: d.id, key: int64(d.block), opt: w.confFailedTx[d.txHash]})
		}
	}
	return out
}

func (w *c33World) eligibleRedemptions() []c33Ref {
	var out []c33Ref
	for _, rd := range w.reds {
		if w.redEligible(rd) {
			out = append(out, c33Ref{id: rd.id, key: int64(w.rel(rd.pending.at))})
		}
	}
	return out
}

// ---------------- stand-in tasks for the other action types ----------------

type c33StubTask struct {
	w        *c33World
	action   tbtc.WalletActionType
	outcome  int // 0 no result, 1 proposal, 2 error
	proposal tbtc.CoordinationProposal
	calls    int
}

func (s *c33StubTask) ActionType() tbtc.WalletActionType { return s.action }
func (s *c33StubTask) Run(*tbtc.CoordinationProposalRequest) (tbtc.CoordinationProposal, bool, error) {
	s.calls++
	switch s.outcome {
	case 1:
		return s.proposal, true, nil
	case 2:
		return nil, false, fmt.Errorf("c33: stand-in task %s fails", s.action)
	}
	return nil, false, nil
}

// ---------------- scenario ----------------

func init() { verifScenarios["C33"] = verifsim.Scenario{Bubble: true, Fn: c33Run} }

func c33Run(t *testing.T, r *verifsim.Run) {
	tp := r.T
	w := &c33World{r: r, t0: time.Now(), block: 100000, tip: 5000, avgBlock: 12 * time.Second}
	copy(w.wallet[:], tp.Bytes("wallet", 20))
	copy(w.other[:], tp.Bytes("other-wallet", 20))
	w.depositMinAge = []uint32{0, 600, 3600, 7200}[tp.Choose("deposit-min-age", 4)]
	w.sweepMax = uint16(1 + tp.Choose("sweep-max", 6))
	w.redMax = uint16(1 + tp.Choose("redemption-max", 5))
	w.reqMinAge = []uint32{0, 600, 1800}[tp.Choose("request-min-age", 3)]
	w.reqTimeout = []uint32{3600, 7200, 4 * 3600}[tp.Choose("request-timeout", 3)]
	w.feeRate = int64(1 + tp.Choose("fee-rate", 40))
	faulty := tp.Chance("faulty-run", 1, 2)
	logger := log.Logger("verif-c33")
	ch := &c33Chain{w: w}
	btc := &c33Btc{w: w}
	r.Logf("cfg depositMinAge=%d sweepMax=%d redMax=%d reqMinAge=%d reqTimeout=%d faulty=%v", w.depositMinAge, w.sweepMax, w.redMax, w.reqMinAge, w.reqTimeout, faulty)

	advance := func(sec int) {
		ivl := 12 + tp.Choose("block-interval", 4)
		n := sec / ivl
		if n < 1 {
			n = 1
		}
		w.block += uint64(n)
		time.Sleep(time.Duration(sec) * time.Second)
		r.AddSim(int64(sec)*int64(time.Second), int64(n))
	}

	var lastTx bitcoin.Hash
	var lastTxHeight int
	haveLastTx := false
	if tp.Chance("many-reveals", 1, 3) {
		// a busy wallet: 13-40 reveals, several per host-chain block, funded deep enough
		n := 13 + tp.Choose("many-reveals-n", 28)
		for len(w.deposits) < n {
			group := 1 + tp.Choose("reveals-in-block", 6)
			for g := 0; g < group; g++ {
				w.nextTx++
				s := sha256.Sum256([]byte(fmt.Sprintf("c33-funding-%d", w.nextTx)))
				d := &c33Deposit{id: len(w.deposits), wallet: w.wallet, block: w.block, revealedAt: time.Now(),
					amount: uint64(100000 + tp.Choose("amount", 5)*50000), txHash: bitcoin.Hash(s), idx: uint32(tp.Choose("funding-idx", 3))}
				switch tp.Weighted("busy-funding", 8, 1, 1) {
				case 0:
					d.btcHeight = w.tip - 5 - tp.Choose("funding-depth", 4)
				case 1:
					d.btcHeight = w.tip - tp.Choose("funding-shallow", 5)
				default:
					d.btcHeight = 0
				}
				if tp.Chance("other-wallet-deposit", 1, 10) {
					d.wallet = w.other
				}
				w.deposits = append(w.deposits, d)
			}
			advance([]int{10, 20, 60}[tp.Choose("busy-dt", 3)])
		}
		r.Logf("t=%d busy wallet: %d deposits revealed in blocks %d..%d", w.rel(time.Now()), len(w.deposits), w.deposits[0].block, w.deposits[len(w.deposits)-1].block)
		r.Probe("busy-wallet-13-plus-reveals")
		if tp.Chance("busy-age", 3, 4) {
			advance(7210)
		}
	}
	steps := 12 + tp.Choose("steps", 30)
	for step := 0; step < steps && !r.Failed(); step++ {
		r.Step()
		switch tp.Weighted("workload", 5, 3, 2, 4, 2, 1, 3) {
		case 0: // a deposit is revealed
			d := &c33Deposit{id: len(w.deposits), wallet: w.wallet, block: w.block, revealedAt: time.Now(), amount: uint64(100000 + tp.Choose("amount", 5)*50000)}
			if tp.Chance("other-wallet-deposit", 1, 5) {
				d.wallet = w.other
			}
			if haveLastTx && tp.Chance("same-funding-tx", 1, 4) {
				d.txHash, d.btcHeight = lastTx, lastTxHeight
				for _, o := range w.deposits {
					if o.txHash == lastTx {
						d.btcHeight = o.btcHeight // the transaction's current state
					}
				}
				d.idx = uint32(len(w.deposits)) + 10 // another output of the same transaction
				r.Probe("two-deposits-one-funding-tx")
			} else {
				w.nextTx++
				s := sha256.Sum256([]byte(fmt.Sprintf("c33-funding-%d", w.nextTx)))
				d.txHash = bitcoin.Hash(s)
				d.idx = uint32(tp.Choose("funding-idx", 3))
				switch tp.Weighted("funding-state", 5, 2, 1) {
				case 0:
					d.btcHeight = w.tip - tp.Choose("funding-depth", 9)
				case 1:
					d.btcHeight = 0
				default:
					d.btcHeight = -1
				}
				lastTx, lastTxHeight, haveLastTx = d.txHash, d.btcHeight, true
			}
			if tp.Chance("same-block-as-previous", 1, 4) && len(w.deposits) > 0 {
				d.block = w.deposits[len(w.deposits)-1].block
				d.revealedAt = w.deposits[len(w.deposits)-1].revealedAt
			}
			w.deposits = append(w.deposits, d)
			r.Logf("t=%d reveal deposit %d own=%v block=%d btc=%d", w.rel(time.Now()), d.id, d.wallet == w.wallet, d.block, d.btcHeight)
		case 1: // Bitcoin blocks; pending funding transactions get known / mined
			n := 1 + tp.Choose("btc-blocks", 4)
			w.tip += n
			for _, d := range w.deposits {
				if d.btcHeight <= 0 && tp.Chance("funding-progress", 1, 2) {
					h := d.txHash
					nh := d.btcHeight + 1
					if nh == 1 {
						nh = w.tip
					}
					for _, o := range w.deposits {
						if o.txHash == h {
							o.btcHeight = nh
						}
					}
				}
			}
			r.Logf("t=%d bitcoin tip %d", w.rel(time.Now()), w.tip)
		case 2: // a sweep is proven: some of the wallet's deposits become swept
			var open []*c33Deposit
			for _, d := range w.deposits {
				if !d.swept {
					open = append(open, d)
				}
			}
			if len(open) > 0 {
				n := 1 + tp.Choose("sweep-count", 3)
				for i := 0; i < n && len(open) > 0; i++ {
					k := tp.Choose("sweep-which", len(open))
					open[k].swept, open[k].sweptAt = true, time.Now()
					r.Logf("t=%d deposit %d swept", w.rel(time.Now()), open[k].id)
					open = append(open[:k], open[k+1:]...)
				}
			}
		case 3: // a redemption is requested (new key, or a key without a pending request again)
			twins := 1
			if tp.Chance("twin-request", 1, 4) {
				twins = 2 + tp.Choose("twin-more", 2)
				r.Probe("redemptions-requested-in-the-same-instant")
			}
			for tw := 0; tw < twins; tw++ {
				var rd *c33Redemption
				var free []*c33Redemption
				for _, x := range w.reds {
					if x.pending == nil {
						free = append(free, x)
					}
				}
				if len(free) > 0 && tp.Chance("re-request", 1, 2) {
					rd = free[tp.Choose("re-request-which", len(free))]
					r.Probe("several-events-for-one-redemption-key")
				} else {
					rd = &c33Redemption{id: len(w.reds), wallet: w.wallet}
					if tp.Chance("other-wallet-redemption", 1, 6) {
						rd.wallet = w.other
					}
					pkh := sha256.Sum256([]byte(fmt.Sprintf("c33-redeemer-%d", rd.id)))
					switch tp.Choose("script-type", 3) {
					case 0:
						rd.script = append(append(bitcoin.Script{0x76, 0xa9, 0x14}, pkh[:20]...), 0x88, 0xac)
					case 1:
						rd.script = append(bitcoin.Script{0x00, 0x14}, pkh[:20]...)
					default:
						rd.script = append(bitcoin.Script{0x00, 0x20}, pkh[:]...)
					}
					rd.delay = []time.Duration{0, 0, 900 * time.Second, 3600 * time.Second, 3 * 3600 * time.Second}[tp.Choose("delay", 5)]
					w.reds = append(w.reds, rd)
				}
				q := &c33Request{block: w.block, at: time.Now(), amount: uint64(50000 + tp.Choose("red-amount", 4)*10000)}
				rd.events = append(rd.events, q)
				rd.pending = q
				r.Logf("t=%d redemption %d requested own=%v block=%d delay=%v", w.rel(time.Now()), rd.id, rd.wallet == w.wallet, q.block, rd.delay)
			}
		case 4: // a pending redemption is completed or its timeout is notified
			var pend []*c33Redemption
			for _, x := range w.reds {
				if x.pending != nil {
					pend = append(pend, x)
				}
			}
			if len(pend) > 0 {
				x := pend[tp.Choose("complete-which", len(pend))]
				x.pending = nil
				r.Logf("t=%d redemption %d no longer pending", w.rel(time.Now()), x.id)
			}
		case 5: // a long quiet period
			advance([]int{1800, 3600, 7200, 4 * 3600}[tp.Choose("quiet", 4)])
			r.Logf("t=%d (quiet period)", w.rel(time.Now()))
		default: // discovery
			c33Discover(w, ch, btc, logger, faulty)
		}
		advance([]int{10, 10, 60, 300, 600, 1200}[tp.Choose("dt", 6)])
	}
	if !r.Failed() {
		c33Discover(w, ch, btc, logger, faulty)
	}
}

func c33DepositRefs(w *c33World, refs []*DepositReference) ([]c33Ref, string) {
	var got []c33Ref
	for i, ref := range refs {
		d := w.deposit(ref.FundingTxHash, ref.FundingOutputIndex)
		if d == nil {
			return nil, fmt.Sprintf("element %d is not a revealed deposit", i)
		}
		if ref.RevealBlock != d.block {
			return nil, fmt.Sprintf("element %d (deposit %d) carries reveal block %d, revealed at %d", i, d.id, ref.RevealBlock, d.block)
		}
		got = append(got, c33Ref{id: d.id, key: int64(d.block)})
	}
	return got, ""
}

// c33Discover runs one discovery at the current instant (shifted by 5 s so
// that no age sits exactly on a boundary; all workload times are multiples
// of 10 s).
func c33Discover(w *c33World, ch *c33Chain, btc *c33Btc, logger log.StandardLogger, faulty bool) {
	r, tp := w.r, w.r.T
	time.Sleep(5 * time.Second)
	defer time.Sleep(5 * time.Second)
	now := w.rel(time.Now())
	// plan of this discovery
	w.errors = faulty && tp.Chance("errors-now", 2, 3)
	w.erred = false
	w.confFailedTx = map[bitcoin.Hash]bool{}
	w.pendingCalls, w.failPendingAt = 0, 0
	w.delayFail = map[int]bool{}
	w.orderMode = tp.Weighted("event-order", 3, 1, 1, 2)
	w.orderPerm = nil
	if w.orderMode >= 2 {
		n := len(w.deposits)
		for _, rd := range w.reds {
			n += len(rd.events)
		}
		for i := 0; i < n && i < 12; i++ {
			w.orderPerm = append(w.orderPerm, tp.Choose("event-perm", n+1))
		}
		r.Probe("events-out-of-order")
	}
	if w.errors {
		if tp.Chance("fail-pending-query", 1, 8) {
			w.failPendingAt = 1 + tp.Choose("fail-pending-at", 6)
		}
		if tp.Chance("fail-delay-query", 1, 8) {
			// only for a pending request whose timestamp is unique (call order among equals is not fixed)
			var cands []*c33Redemption
			for _, rd := range w.reds {
				if rd.pending == nil || rd.wallet != w.wallet {
					continue
				}
				uniq := true
				for _, o := range w.reds {
					if o != rd && o.pending != nil && o.pending.at.Equal(rd.pending.at) {
						uniq = false
					}
				}
				if uniq {
					cands = append(cands, rd)
				}
			}
			if len(cands) > 0 {
				w.delayFail[cands[tp.Choose("fail-delay-which", len(cands))].id] = true
			}
		}
	}
	defer func() { w.errors = false }()

	elD := w.eligibleDeposits() // opt flags are filled in later (after the call)
	elR := w.eligibleRedemptions()
	kind := tp.Weighted("discovery", 3, 3, 4)
	switch kind {
	case 0: // ---- deposits ----
		max := w.sweepMax
		if tp.Chance("own-limit", 1, 3) {
			max = uint16(1 + tp.Choose("limit", 8))
		}
		refs, err := NewDepositSweepTask(ch, btc).FindDepositsToSweep(logger, w.wallet, max)
		elD = w.eligibleDeposits()
		if err != nil {
			r.Logf("t=%d find-deposits max=%d -> error (injected=%v)", now, max, w.erred)
			if !w.erred {
				r.Failf("C33:deposits-error-without-fault", "FindDepositsToSweep failed (%v) although no query failed", err)
			}
			return
		}
		got, bad := c33DepositRefs(w, refs)
		if bad != "" {
			r.Failf("C33:deposits-bad-reference", "FindDepositsToSweep: %s", bad)
			return
		}
		ids := []int{}
		for _, g := range got {
			ids = append(ids, g.id)
		}
		r.Logf("t=%d find-deposits max=%d -> %v (eligible %d)", now, max, ids, len(elD))
		r.Probe("deposit-discovery")
		if len(elD) > int(max) {
			r.Probe("deposit-limit-cuts")
		}
		if len(w.confFailedTx) > 0 {
			r.Probe("deposit-confirmations-error-swallowed")
		}
		if class, msg := c33CheckSelection("deposits", elD, got, int(max)); class != "" {
			r.Failf(class, "FindDepositsToSweep(max %d) at t=%d: %s; result %v, eligible %v", max, now, msg, ids, elD)
		} else if msg := c33CheckRevealOrder(elD, got, int(max)); msg != "" {
			r.Failf("C33:deposits-reveal-order-within-block", "FindDepositsToSweep(max %d) at t=%d: %s; result %v, eligible in reveal order %v", max, now, msg, ids, elD)
		}
		if n := len(got); n > 0 && n == int(max) {
			for _, e := range elD {
				if e.key == got[n-1].key && e.id > got[n-1].id {
					r.Probe("deposit-limit-cuts-inside-one-block")
					break
				}
			}
		}
	case 1: // ---- redemptions ----
		max := w.redMax
		if tp.Chance("own-limit", 1, 3) {
			max = uint16(1 + tp.Choose("limit", 8))
		}
		scripts, err := NewRedemptionTask(ch, btc).FindPendingRedemptions(logger, w.wallet, max)
		if err != nil {
			r.Logf("t=%d find-redemptions max=%d -> error (injected=%v)", now, max, w.erred)
			if !w.erred {
				r.Failf("C33:redemptions-error-without-fault", "FindPendingRedemptions failed (%v) although no query failed", err)
			}
			return
		}
		c33CheckRedemptions(w, "FindPendingRedemptions", scripts, elR, int(max), now)
	default: // ---- Generate ----
		c33Generate(w, ch, btc, now)
	}
}

func c33CheckRedemptions(w *c33World, what string, scripts []bitcoin.Script, elR []c33Ref, max int, now int) bool {
	r := w.r
	var got []c33Ref
	var ats []int
	for i, s := range scripts {
		rd := w.redemption(w.wallet, s)
		if rd == nil || rd.pending == nil {
			r.Failf("C33:redemptions-not-pending-selected", "%s: element %d is not a pending redemption request of the wallet", what, i)
			return false
		}
		got = append(got, c33Ref{id: rd.id, key: int64(w.rel(rd.pending.at))})
		ats = append(ats, w.rel(rd.pending.at))
	}
	r.Logf("t=%d %s max=%d -> requested-at %v (eligible %d)", now, what, max, ats, len(elR))
	r.Probe("redemption-discovery")
	if len(elR) > max {
		r.Probe("redemption-limit-cuts")
	}
	if class, msg := c33CheckSelection("redemptions", elR, got, max); class != "" {
		r.Failf(class, "%s(max %d) at t=%d: %s; result requested-at %v, eligible %v", what, max, now, msg, ats, elR)
		return false
	}
	return true
}

func c33Generate(w *c33World, ch *c33Chain, btc *c33Btc, now int) {
	r, tp := w.r, w.r.T
	// stand-ins for heartbeat / moving funds / moved funds sweep
	stubs := map[tbtc.WalletActionType]*c33StubTask{}
	var tasks []ProposalTask
	for i, a := range []tbtc.WalletActionType{tbtc.ActionHeartbeat, tbtc.ActionMovingFunds, tbtc.ActionMovedFundsSweep} {
		s := &c33StubTask{w: w, action: a, outcome: tp.Weighted("stub-outcome", 5, 3, 1)}
		s.proposal = &tbtc.HeartbeatProposal{Message: [16]byte{byte(i + 1)}}
		stubs[a] = s
		tasks = append(tasks, s)
	}
	// the real tasks, at tape-chosen positions of the task list
	tasks = append(tasks, NewDepositSweepTask(ch, btc), NewRedemptionTask(ch, btc))
	p := tp.Perm("task-order", len(tasks))
	ordered := make([]ProposalTask, len(tasks))
	for i, j := range p {
		ordered[i] = tasks[j]
	}
	pg := &ProposalGenerator{tasks: ordered}
	all := []tbtc.WalletActionType{tbtc.ActionDepositSweep, tbtc.ActionRedemption, tbtc.ActionHeartbeat, tbtc.ActionMovingFunds, tbtc.ActionMovedFundsSweep, tbtc.ActionNoop}
	n := tp.Choose("checklist-len", 6)
	var checklist []tbtc.WalletActionType
	for i := 0; i < n; i++ {
		checklist = append(checklist, all[tp.Choose("checklist-action", len(all))])
	}
	proposal, err := pg.Generate(&tbtc.CoordinationProposalRequest{WalletPublicKeyHash: w.wallet, ActionsChecklist: checklist})
	elD := w.eligibleDeposits()
	elR := w.eligibleRedemptions()

	// reference walk over the checklist; with optional deposits both readings are allowed
	walk := func(skipOptional bool) (string, tbtc.WalletActionType) {
		for _, a := range checklist {
			switch a {
			case tbtc.ActionDepositSweep:
				cnt := 0
				for _, e := range elD {
					if !(skipOptional && e.opt) {
						cnt++
					}
				}
				if cnt > 0 {
					return "proposal", a
				}
			case tbtc.ActionRedemption:
				if len(elR) > 0 {
					return "proposal", a
				}
			case tbtc.ActionNoop:
			default:
				switch stubs[a].outcome {
				case 1:
					return "proposal", a
				case 2:
					return "error", a
				}
			}
		}
		return "noop", tbtc.ActionNoop
	}
	wantKind, wantAction := walk(false)
	altKind, altAction := walk(true)
	r.Probe("generate")
	desc := fmt.Sprintf("checklist %v, stand-in outcomes hb=%d mf=%d mfs=%d, eligible deposits %d, eligible redemptions %d", checklist, stubs[tbtc.ActionHeartbeat].outcome, stubs[tbtc.ActionMovingFunds].outcome, stubs[tbtc.ActionMovedFundsSweep].outcome, len(elD), len(elR))
	if err != nil {
		r.Logf("t=%d generate %v -> error (injected=%v)", now, checklist, w.erred)
		if !w.erred && wantKind != "error" {
			r.Failf("C33:generate-error-without-fault", "Generate failed (%v) although no query failed and no earlier task fails; %s", err, desc)
		}
		return
	}
	if proposal == nil {
		r.Failf("C33:generate-nil", "Generate returned neither a proposal nor an error; %s", desc)
		return
	}
	gotAction := proposal.ActionType()
	r.Logf("t=%d generate %v -> %s", now, checklist, gotAction)
	match := func(kind string, action tbtc.WalletActionType) bool {
		switch kind {
		case "noop":
			return gotAction == tbtc.ActionNoop
		case "proposal":
			if action == tbtc.ActionDepositSweep || action == tbtc.ActionRedemption {
				return gotAction == action
			}
			return proposal == stubs[action].proposal
		}
		return false
	}
	if !match(wantKind, wantAction) && !(w.erred && match(altKind, altAction)) {
		r.Failf("C33:generate-wrong-action", "Generate returned a %s proposal, expected %s of %s (first checklist action that yields a proposal, else no-op); %s", gotAction, wantKind, wantAction, desc)
		return
	}
	switch pr := proposal.(type) {
	case *tbtc.DepositSweepProposal:
		r.Probe("generate-deposit-sweep")
		var refs []*DepositReference
		if len(pr.DepositsKeys) != len(pr.DepositsRevealBlocks) {
			r.Failf("C33:deposits-bad-reference", "proposal has %d keys and %d reveal blocks", len(pr.DepositsKeys), len(pr.DepositsRevealBlocks))
			return
		}
		for i, k := range pr.DepositsKeys {
			refs = append(refs, &DepositReference{FundingTxHash: k.FundingTxHash, FundingOutputIndex: k.FundingOutputIndex, RevealBlock: pr.DepositsRevealBlocks[i].Uint64()})
		}
		got, bad := c33DepositRefs(w, refs)
		if bad != "" {
			r.Failf("C33:deposits-bad-reference", "Generate: %s", bad)
			return
		}
		if class, msg := c33CheckSelection("deposits", elD, got, int(w.sweepMax)); class != "" {
			r.Failf(class, "Generate deposit sweep at t=%d: %s; result %v, eligible %v", now, msg, got, elD)
		} else if msg := c33CheckRevealOrder(elD, got, int(w.sweepMax)); msg != "" {
			r.Failf("C33:deposits-reveal-order-within-block", "Generate deposit sweep at t=%d: %s; result %v, eligible in reveal order %v", now, msg, got, elD)
		}
	case *tbtc.RedemptionProposal:
		r.Probe("generate-redemption")
		c33CheckRedemptions(w, "Generate redemption", pr.RedeemersOutputScripts, elR, int(w.redMax), now)
	case *tbtc.NoopProposal:
		r.Probe("generate-noop")
	default:
		r.Probe("generate-stand-in")
	}
}
