package verifadapt

// Hostile wire / hostile disk helpers (C19).
//
//   Mutate      (hostile_mutate.go) one tape-chosen corruption of a valid
//               encoding (byte level and protobuf aware, recursively into
//               nested messages / map entries), drawn as a MutationRecipe
//   PBCanonical deterministic re-ordering of map entries (Go's protobuf
//               marshaller emits map entries in random order; the basis of a
//               mutation must not depend on it)
//   Canon       representation-independent rendering of a decoded value
//               (round-trip oracle: Canon(sent) == Canon(decoded))
//   Hostile     the delivery engine: a victim node on the simulated network
//               receives valid and mutated payloads through Net.Decode (its
//               REAL registered unmarshalers); panics are violations
//   CorruptFile one tape-chosen corruption of a durable file (torn prefix,
//               empty file, bit flip, Mutate)

import (
	"bytes"
	"crypto/elliptic"
	"encoding/hex"
	"fmt"
	"math/big"
	"reflect"
	"runtime/debug"
	"sort"
	"strings"
	"time"
	"unsafe"

	"google.golang.org/protobuf/encoding/protowire"

	"github.com/keep-network/keep-core/pkg/net"

	"verifsim"
)

// ---------------------------------------------------------------------------
// Mutate

// hostileVarints are the out-of-range values tried for varint fields and map
// keys (name = stable fault counter suffix).
var hostileVarints = []struct {
	name string
	v    uint64
}{
	{"0", 0},
	{"256", 256},
	{"2^32-1", 1<<32 - 1},
	{"2^64-1", 1<<64 - 1},
	{"255", 255},
	{"2^32", 1 << 32},
	{"2^31", 1 << 31},
	{"2^63", 1 << 63},
}

func pbHasNested(f PBField) bool {
	if f.Typ != protowire.BytesType || len(f.Data) == 0 {
		return false
	}
	sub, ok := PBParse(f.Data)
	return ok && len(sub) > 0
}

// PBCanonical sorts every run of consecutive equal-numbered length-delimited
// fields whose contents all look like map entries (sub-message with a varint
// key in field 1, all keys distinct) by key. Anything else is left alone.
// The result encodes the same value.
func PBCanonical(msg []byte) []byte {
	fs, ok := PBParse(msg)
	if !ok {
		return append([]byte(nil), msg...)
	}
	key := func(f PBField) (uint64, bool) {
		if f.Typ != protowire.BytesType {
			return 0, false
		}
		sub, ok := PBParse(f.Data)
		if !ok || len(sub) == 0 || len(sub) > 2 {
			return 0, false
		}
		if sub[0].Num != 1 || sub[0].Typ != protowire.VarintType {
			return 0, false
		}
		if len(sub) == 2 && sub[1].Num != 2 {
			return 0, false
		}
		return sub[0].Val, true
	}
	for i := 0; i < len(fs); {
		j := i + 1
		for j < len(fs) && fs[j].Num == fs[i].Num && fs[j].Typ == fs[i].Typ {
			j++
		}
		if j-i > 1 {
			keys := make([]uint64, j-i)
			seen := map[uint64]bool{}
			all := true
			for k := i; k < j; k++ {
				v, ok := key(fs[k])
				if !ok || seen[v] {
					all = false
					break
				}
				seen[v] = true
				keys[k-i] = v
			}
			if all {
				run := fs[i:j]
				idx := make([]int, len(run))
				for k := range idx {
					idx[k] = k
				}
				sort.Slice(idx, func(a, b int) bool { return keys[idx[a]] < keys[idx[b]] })
				sorted := make([]PBField, len(run))
				for k, x := range idx {
					sorted[k] = run[x]
				}
				copy(fs[i:j], sorted)
			}
		}
		i = j
	}
	return PBBuild(fs)
}

// ---------------------------------------------------------------------------
// Canon

// Canon renders a value in a representation-independent way: big integers by
// value, curve points and keys that offer `Marshal() []byte` by those bytes,
// times by instant, elliptic curves by name, maps sorted by key, nil and empty
// slices / maps alike, unexported fields included. Two values with equal Canon
// are equal for every purpose of the round-trip oracle.
func Canon(v interface{}) string {
	var sb strings.Builder
	rv := reflect.ValueOf(v)
	canonValue(&sb, rv, 0)
	return sb.String()
}

type canonBytesMarshaler interface{ Marshal() []byte }

func canonAccessible(v reflect.Value) reflect.Value {
	if !v.IsValid() || v.CanInterface() {
		return v
	}
	if v.CanAddr() {
		return reflect.NewAt(v.Type(), unsafe.Pointer(v.UnsafeAddr())).Elem()
	}
	return v
}

func canonSpecial(sb *strings.Builder, v reflect.Value) (done bool) {
	if !v.CanInterface() {
		return false
	}
	defer func() {
		if p := recover(); p != nil {
			done = false
		}
	}()
	switch v.Kind() {
	case reflect.Ptr, reflect.Interface:
		if v.IsNil() {
			return false
		}
	}
	switch x := v.Interface().(type) {
	case *big.Int:
		sb.WriteString("big:" + x.String())
		return true
	case big.Int:
		sb.WriteString("big:" + x.String())
		return true
	case time.Time:
		fmt.Fprintf(sb, "time:%d", x.UnixNano())
		return true
	case *time.Time:
		fmt.Fprintf(sb, "&time:%d", x.UnixNano())
		return true
	case elliptic.Curve:
		sb.WriteString("curve:" + x.Params().Name)
		return true
	case canonBytesMarshaler:
		if v.Kind() == reflect.Ptr {
			b := x.Marshal()
			sb.WriteString("marshal:" + hex.EncodeToString(b))
			return true
		}
	}
	return false
}

func canonValue(sb *strings.Builder, v reflect.Value, depth int) {
	if !v.IsValid() {
		sb.WriteString("nil")
		return
	}
	if depth > 24 {
		sb.WriteString("<deep>")
		return
	}
	v = canonAccessible(v)
	if canonSpecial(sb, v) {
		return
	}
	switch v.Kind() {
	case reflect.Ptr:
		if v.IsNil() {
			sb.WriteString("nil")
			return
		}
		sb.WriteString("&")
		canonValue(sb, v.Elem(), depth+1)
	case reflect.Interface:
		if v.IsNil() {
			sb.WriteString("nil")
			return
		}
		sb.WriteString("(" + v.Elem().Type().String() + ")")
		canonValue(sb, v.Elem(), depth+1)
	case reflect.Struct:
		sb.WriteString(v.Type().String() + "{")
		for i := 0; i < v.NumField(); i++ {
			if i > 0 {
				sb.WriteString(" ")
			}
			sb.WriteString(v.Type().Field(i).Name + ":")
			canonValue(sb, v.Field(i), depth+1)
		}
		sb.WriteString("}")
	case reflect.Slice, reflect.Array:
		if v.Type().Elem().Kind() == reflect.Uint8 {
			b := make([]byte, v.Len())
			for i := range b {
				b[i] = byte(v.Index(i).Uint())
			}
			sb.WriteString("0x" + hex.EncodeToString(b))
			return
		}
		sb.WriteString("[")
		for i := 0; i < v.Len(); i++ {
			if i > 0 {
				sb.WriteString(" ")
			}
			canonValue(sb, v.Index(i), depth+1)
		}
		sb.WriteString("]")
	case reflect.Map:
		type kv struct{ k, v string }
		var ents []kv
		it := v.MapRange()
		for it.Next() {
			var kb, vb strings.Builder
			canonValue(&kb, it.Key(), depth+1)
			canonValue(&vb, it.Value(), depth+1)
			ents = append(ents, kv{kb.String(), vb.String()})
		}
		sort.Slice(ents, func(i, j int) bool { return ents[i].k < ents[j].k })
		sb.WriteString("map[")
		for i, e := range ents {
			if i > 0 {
				sb.WriteString(" ")
			}
			sb.WriteString(e.k + "=>" + e.v)
		}
		sb.WriteString("]")
	case reflect.String:
		fmt.Fprintf(sb, "%q", v.String())
	case reflect.Bool:
		fmt.Fprintf(sb, "%v", v.Bool())
	case reflect.Int, reflect.Int8, reflect.Int16, reflect.Int32, reflect.Int64:
		fmt.Fprintf(sb, "%d", v.Int())
	case reflect.Uint, reflect.Uint8, reflect.Uint16, reflect.Uint32, reflect.Uint64, reflect.Uintptr:
		fmt.Fprintf(sb, "%d", v.Uint())
	case reflect.Float32, reflect.Float64:
		fmt.Fprintf(sb, "%v", v.Float())
	default:
		sb.WriteString("<" + v.Kind().String() + ">")
	}
}

// CanonDiff returns a short description of the first difference of two Canon
// strings ("" if equal).
func CanonDiff(a, b string) string {
	if a == b {
		return ""
	}
	i := 0
	for i < len(a) && i < len(b) && a[i] == b[i] {
		i++
	}
	lo := i - 60
	if lo < 0 {
		lo = 0
	}
	cut := func(s string) string {
		hi := i + 60
		if hi > len(s) {
			hi = len(s)
		}
		if lo > len(s) {
			return ""
		}
		return s[lo:hi]
	}
	return fmt.Sprintf("at offset %d: sent ...%s... / decoded ...%s...", i, cut(a), cut(b))
}

// ---------------------------------------------------------------------------
// Hostile delivery engine

// Hostile drives one victim node of a Net with valid and corrupted payloads.
type Hostile struct {
	R       *verifsim.Run
	Prop    string // property id used as class prefix
	Net     *Net
	From    int // authenticated sender node
	To      int // victim node
	Channel string
	// OnAccept, if set, hands a message the victim's unmarshaler ACCEPTED to
	// the real handler / state code. It runs inside recover: a panic is a
	// handler-panic violation. valid says whether the payload was an unmutated
	// encoding.
	OnAccept func(typ string, msg *Message, valid bool)
	seq      uint64
	panicked bool
	panicTyp string
	panicVal interface{}
	panicStk string
	kept     []hostileKept // decoded values of the valid deliveries of this run
}

// hostileKept is one valid delivery: the canonical form of what was sent and
// the value the victim's unmarshaler produced for it (kept alive).
type hostileKept struct {
	typ     string
	sent    string
	decoded interface{}
}

// Recheck compares every value decoded from a VALID payload earlier in the run
// with what was sent once more. A decoded value must not change when later
// messages are decoded (decoders must not share state between messages).
// typ == "" rechecks all types. It returns false after recording a violation.
func (h *Hostile) Recheck(typ string) bool {
	for i, k := range h.kept {
		if typ != "" && k.typ != typ {
			continue
		}
		if now := Canon(k.decoded); now != k.sent {
			h.R.Failf(h.Prop+":decoded-value-changed-after-later-decode:"+k.typ,
				"valid %q message number %d of this run decoded to a value equal to the sent one, but after later deliveries to the same victim (%d valid ones plus the corrupted copies in between) that SAME decoded value differs from what was sent: %s",
				k.typ, i+1, len(h.kept)-i-1, CanonDiff(k.sent, now))
			return false
		}
	}
	return true
}

// CheckNetPanic turns a panic raised by ANY unmarshaler of the Net since the
// last delivery (e.g. during a Net.DeliverBatch the scenario did itself) into
// a violation. what describes the traffic.
func (h *Hostile) CheckNetPanic(what string) bool {
	if !h.panicked {
		return false
	}
	h.panicked = false
	h.R.Failf(h.Prop+":unmarshal-panic:"+h.panicTyp, "an unmarshaler for %q panicked while a node received %s: %v\n%s",
		h.panicTyp, what, h.panicVal, hostileTrimStack(h.panicStk))
	return true
}

// NewHostile installs the unmarshal-panic hook on n.
func NewHostile(r *verifsim.Run, prop string, n *Net, from, to int, channel string) *Hostile {
	h := &Hostile{R: r, Prop: prop, Net: n, From: from, To: to, Channel: channel, seq: 500000}
	n.OnUnmarshalPanic = func(to int, typ string, p interface{}) {
		h.panicked = true
		h.panicTyp = typ
		h.panicVal = p
		h.panicStk = string(debug.Stack())
	}
	return h
}

func hostileTrimStack(s string) string {
	lines := strings.Split(s, "\n")
	var out []string
	for _, l := range lines {
		if strings.Contains(l, "keep-network") || strings.Contains(l, "panic") {
			out = append(out, strings.TrimSpace(l))
		}
		if len(out) >= 14 {
			break
		}
	}
	return strings.Join(out, "\n")
}

// deliver pushes one payload through the victim's real unmarshaler.
func (h *Hostile) deliver(typ string, payload []byte, what string, valid bool) (*Message, bool) {
	h.seq++
	h.panicked = false
	env := &Envelope{From: h.From, Channel: h.Channel, Type: typ, Payload: payload, Seqno: h.seq}
	msg, ok := h.Net.Decode(env, h.To)
	h.R.Step()
	if h.panicked {
		h.R.Failf(h.Prop+":unmarshal-panic:"+typ,
			"the victim's unmarshaler for %q panicked on a %s payload (%d bytes, hex %s): %v\n%s",
			typ, what, len(payload), hostileHex(payload), h.panicVal, hostileTrimStack(h.panicStk))
		return nil, false
	}
	if !ok {
		return nil, false
	}
	if h.OnAccept != nil {
		func() {
			defer func() {
				if p := recover(); p != nil {
					h.R.Failf(h.Prop+":handler-panic:"+typ,
						"the receiving code panicked on a message of type %q its unmarshaler accepted (%s payload, %d bytes, hex %s): %v\n%s",
						typ, what, len(payload), hostileHex(payload), p, hostileTrimStack(string(debug.Stack())))
				}
			}()
			h.OnAccept(typ, msg, valid)
		}()
	}
	return msg, true
}

func hostileHex(b []byte) string {
	if len(b) > 160 {
		return hex.EncodeToString(b[:160]) + "..."
	}
	return hex.EncodeToString(b)
}

// RoundTrip marshals sent, delivers the bytes to the victim and compares the
// decoded value with the sent one. It returns the payload.
func (h *Hostile) RoundTrip(sent net.TaggedMarshaler) []byte {
	typ := sent.Type()
	payload, err := sent.Marshal()
	if err != nil {
		h.R.Probe("valid-value-not-encodable:" + typ)
		return nil
	}
	h.RoundTripPayload(sent, payload)
	return payload
}

// RoundTripPayload is RoundTrip for a payload that was already produced by
// sent.Marshal() (e.g. captured from a real Send).
func (h *Hostile) RoundTripPayload(sent net.TaggedMarshaler, payload []byte) {
	typ := sent.Type()
	msg, ok := h.deliver(typ, payload, "VALID", true)
	if h.R.Failed() {
		return
	}
	h.R.Probe("roundtrip:" + typ)
	if !ok {
		h.R.Failf(h.Prop+":roundtrip-rejected:"+typ, "the victim rejected (unmarshal error / no unmarshaler) a valid %q message produced by Marshal: %s", typ, Canon(sent))
		return
	}
	a, b := Canon(sent), Canon(msg.Body)
	if a != b {
		h.R.Failf(h.Prop+":roundtrip-mismatch:"+typ, "decoding the encoding of a %q message gives a different value, %s", typ, CanonDiff(a, b))
		return
	}
	// earlier decoded values of this type must have survived this decode
	if !h.Recheck(typ) {
		return
	}
	h.kept = append(h.kept, hostileKept{typ: typ, sent: a, decoded: msg.Body})
}

// Attack delivers n tape-chosen corruptions of valid (an encoding of a message
// of type typ). It logs the mutation kinds only.
func (h *Hostile) Attack(typ string, valid []byte, n int) {
	tp := h.R.T
	rcs := make([]MutationRecipe, 0, n)
	kinds := make([]string, 0, n)
	for i := 0; i < n; i++ {
		rc := DrawRecipe(tp)
		rcs = append(rcs, rc)
		kinds = append(kinds, rc.Requested())
	}
	h.R.Logf("attack %s: %s", typ, strings.Join(kinds, ","))
	h.AttackWith(typ, valid, rcs)
}

// AttackWith delivers the given (already drawn) corruptions of valid. It does
// not touch the tape and does not log.
func (h *Hostile) AttackWith(typ string, valid []byte, rcs []MutationRecipe) {
	basis := PBCanonical(valid)
	for _, rc := range rcs {
		if h.R.Failed() {
			break
		}
		mut, kind := rc.Apply(basis)
		h.R.Fault("wire:" + kind)
		h.R.Probe("type:" + typ)
		msg, ok := h.deliver(typ, mut, "mutated ("+kind+")", kind == "none")
		if h.R.Failed() {
			break
		}
		if !ok {
			h.R.Probe("rejected:" + typ)
			continue
		}
		h.R.Probe("accepted:" + typ)
		h.checkAccepted(typ, msg, kind)
	}
	if !h.R.Failed() {
		h.Recheck("")
	}
}

// checkAccepted: a value the decoder produced is a value of the type, so the
// first clause of the property applies to it as well: it must be encodable
// without crashing; whether decode(encode(v)) == v is recorded as a probe
// only (lossy acceptance is not a crash).
func (h *Hostile) checkAccepted(typ string, msg *Message, kind string) {
	m, ok := msg.Body.(net.TaggedMarshaler)
	if !ok {
		return
	}
	var b []byte
	var err error
	func() {
		defer func() {
			if p := recover(); p != nil {
				h.R.Failf(h.Prop+":accepted-value-marshal-panic:"+typ,
					"the victim accepted a %s payload as a %q message, and Marshal() of that accepted value panics: %v\n%s\naccepted value: %s",
					kind, typ, p, hostileTrimStack(string(debug.Stack())), Canon(msg.Body))
			}
		}()
		b, err = m.Marshal()
	}()
	if h.R.Failed() || err != nil {
		return
	}
	env := &Envelope{From: h.From, Channel: h.Channel, Type: typ, Payload: b, Seqno: h.seq}
	h.panicked = false
	again, ok := h.Net.Decode(env, h.To)
	if h.panicked {
		h.R.Failf(h.Prop+":unmarshal-panic:"+typ, "the victim's unmarshaler for %q panicked on the re-encoding of a value it had accepted: %v\n%s", typ, h.panicVal, hostileTrimStack(h.panicStk))
		return
	}
	if !ok || Canon(again.Body) != Canon(msg.Body) {
		h.R.Probe("accepted-value-not-idempotent:" + typ)
	}
}

// ---------------------------------------------------------------------------
// Disk

// CorruptFile returns one tape-chosen state in which a crash / bad disk can
// leave the file whose complete content is valid: a torn prefix of any
// length, an empty file, flipped bits, or a Mutate() edit. Decision 0 = the
// intact file.
func CorruptFile(tp *verifsim.Tape, valid []byte) ([]byte, string) {
	cp := append([]byte(nil), valid...)
	switch tp.Weighted("disk-corruption", 3, 6, 2, 2, 8) {
	case 0:
		return cp, "intact"
	case 1:
		if len(cp) < 2 {
			return []byte{}, "empty-file"
		}
		return cp[:1+tp.Choose("disk-torn-at", len(cp)-1)], "torn-prefix"
	case 2:
		return []byte{}, "empty-file"
	case 3:
		if len(cp) == 0 {
			return cp, "empty-file"
		}
		n := 1 + tp.Choose("disk-flips", 3)
		for i := 0; i < n; i++ {
			cp[tp.Choose("disk-flip-at", len(cp))] ^= 1 << uint(tp.Choose("disk-flip-bit", 8))
		}
		return cp, "bit-flips"
	default:
		// the name is the tape-determined one (independent of file content)
		rc := DrawRecipe(tp)
		out, _ := rc.Apply(PBCanonical(cp))
		if rc.Requested() == "none" {
			return out, "intact"
		}
		return out, "mutate:" + rc.Requested()
	}
}

// GuardedCall runs fn and reports a panic instead of propagating it.
func GuardedCall(fn func()) (panicked bool, val interface{}, stack string) {
	defer func() {
		if p := recover(); p != nil {
			panicked, val, stack = true, p, hostileTrimStack(string(debug.Stack()))
		}
	}()
	fn()
	return
}

// PanicSite names the innermost keep-core function (not harness, not adapter)
// on a stack returned by GuardedCall, e.g. "tbtc.(*signer).Unmarshal"; it
// makes panic classes site-specific. "unknown" if there is none.
func PanicSite(stack string) string {
	for _, l := range strings.Split(stack, "\n") {
		if !strings.Contains(l, "keep-network/keep-co") || strings.HasPrefix(l, "/") {
			continue
		}
		if strings.Contains(l, "verifadapt") || strings.Contains(l, ".c19") || strings.Contains(l, "zz_verif") {
			continue
		}
		fn := l
		if j := strings.LastIndex(fn, "("); j > 0 {
			fn = fn[:j]
		}
		if j := strings.LastIndex(fn, "/"); j >= 0 {
			fn = fn[j+1:]
		}
		return fn
	}
	return "unknown"
}

// BytesEqual is bytes.Equal (saves an import in small harness files).
func BytesEqual(a, b []byte) bool { return bytes.Equal(a, b) }
