package verifadapt

// SimDisk: simulated storage behind keep-common's persistence handles.
//
// The model is written from keep-common's pkg/persistence/disk_persistence.go
// (v1.7.1-0.20240424094333-bd36cd25bb74):
//
//   Save(data, dir, name)   = len checks (128), mkdir <current>/dir if missing,
//                             os.Create (create or TRUNCATE), write, fsync,
//                             close. An acknowledged Save is durable; an
//                             interrupted one leaves: nothing / the directory
//                             only / an empty file / a prefix / the whole file.
//                             Re-saving an existing name destroys the old
//                             content as soon as the file was truncated.
//   Snapshot(data,dir,name) = same under <snapshot>/dir/name+suffix, refuses
//                             to overwrite.
//   Delete(dir, name)       = os.Remove; error when the file is missing.
//   Archive(dir)            = if <archive>/dir does not exist: ONE atomic
//                             rename of the directory (error when the source
//                             is missing); otherwise a file-by-file rename in
//                             name order (overwriting equal names) followed by
//                             the removal of the source directory - a crash or
//                             an error can cut that in the middle.
//   ReadAll()               = non-blocking; a goroutine lists the current
//                             directory, then every sub-directory lazily, and
//                             streams one descriptor per file (name order)
//                             through an UNBUFFERED channel; listing errors go
//                             to a second unbuffered channel; both are closed
//                             at the end. Content() reads the file when it is
//                             called (lazy) and can fail.
//
// One SimDisk holds the three trees of a protected handle (current, archive,
// snapshot); a handle obtained from it implements BOTH
// persistence.ProtectedHandle and persistence.BasicHandle (a basic handle is
// simply a disk of which only the current tree is used).
//
// Faults are never drawn here. The simulator plans them (from the tape, up
// front or at quiescence) with PlanAt(callIndex, fault) / ArmNext(fault) /
// SetFull(effect); storage calls are numbered 0,1,2,... in the order in which
// they start executing (Save, Snapshot, Delete, Archive, ReadAll each count
// as one call). A crash (planned inside a call, or Crash() at quiescence)
// freezes the durable layer: every handle of the old incarnation is dead -
// its calls never return (the goroutine blocks for ever on a fresh channel,
// a durable block for synctest) or, with CrashPanics, unwind with a
// DiskCrashSignal panic that the scenario recovers with CatchDiskCrash.
// Reopen() hands out a handle of the next incarnation that sees the durable
// layer only.

import (
	"fmt"
	"path"
	"sort"
	"strings"
	"sync"

	"github.com/keep-network/keep-common/pkg/persistence"
)

// DiskOpKind names a storage call.
type DiskOpKind string

const (
	DiskSave     DiskOpKind = "save"
	DiskSnapshot DiskOpKind = "snapshot"
	DiskDelete   DiskOpKind = "delete"
	DiskArchive  DiskOpKind = "archive"
	DiskReadAll  DiskOpKind = "readall"
)

// DiskFaultKind is what happens to one storage call.
type DiskFaultKind int

const (
	// DiskNoFault: the call does what the real handle does on a healthy disk.
	DiskNoFault DiskFaultKind = iota
	// DiskErr: the call returns an error; Effect says what it left behind
	// (EffectNone = no effect, EffectEmpty/EffectPrefix = torn file, ...).
	// For ReadAll it is the same as DiskReadDirErr with Index < 0.
	DiskErr
	// DiskCrash: the process dies inside the call; Effect says how much
	// reached the durable layer (EffectNone = crash before, EffectWhole =
	// crash after the call did everything but before the caller saw it).
	DiskCrash
	// DiskReadContentErr (ReadAll only): Content() of descriptor number Index
	// (0-based, in streaming order) returns an error.
	DiskReadContentErr
	// DiskReadDirErr (ReadAll only): listing sub-directory number Index fails
	// (its files are skipped, an error is streamed); Index < 0 = the listing
	// of the top-level directory fails (nothing is streamed but the error).
	DiskReadDirErr
)

// DiskEffect says how much of an interrupted call reached the durable layer.
type DiskEffect int

const (
	// EffectNone: nothing.
	EffectNone DiskEffect = iota
	// EffectDir: Save/Snapshot created the directory (if it was missing) but no
	// file. Archive: treated as EffectNone.
	EffectDir
	// EffectEmpty: Save/Snapshot created or truncated the file, nothing
	// written. Archive (file-by-file path): every file moved, the emptied
	// source directory is still there.
	EffectEmpty
	// EffectPrefix: Save/Snapshot wrote a strict prefix (see Cut/CutPermille).
	// Archive (file-by-file path): the first Cut files were moved.
	// On the atomic-rename path of Archive it is treated as EffectNone.
	EffectPrefix
	// EffectWhole: the complete effect.
	EffectWhole
)

// DiskFault is the plan for one storage call.
type DiskFault struct {
	Kind   DiskFaultKind
	Effect DiskEffect
	// Cut: for EffectPrefix of Save/Snapshot the number of bytes kept (used
	// when CutPermille == 0), clamped to [1, len-1] (len < 2: empty file); for
	// EffectPrefix of Archive the number of files moved (clamped to [0, n]).
	Cut int
	// CutPermille, if > 0: bytes kept = len*CutPermille/1000 (same clamp).
	CutPermille int
	// Index: descriptor / directory number for the two read faults.
	Index int
}

func (f DiskFault) String() string {
	k := [...]string{"ok", "err", "crash", "read-content-err", "read-dir-err"}[f.Kind]
	e := [...]string{"none", "dir", "empty", "prefix", "whole"}[f.Effect]
	switch f.Kind {
	case DiskNoFault:
		return "ok"
	case DiskReadContentErr, DiskReadDirErr:
		return fmt.Sprintf("%s#%d", k, f.Index)
	}
	if f.Effect == EffectPrefix {
		return fmt.Sprintf("%s/%s(%d,%d‰)", k, e, f.Cut, f.CutPermille)
	}
	return k + "/" + e
}

// DiskOp is the record of one executed storage call.
type DiskOp struct {
	Index   int
	Epoch   int
	Kind    DiskOpKind
	Dir     string
	Name    string
	Len     int
	Data    []byte // Save/Snapshot: copy of the payload the caller asked to write
	Fault   DiskFault
	Note    string // Archive: "rename" (atomic path) or "file-by-file" (archive directory existed)
	Err     string // error returned to the caller ("" = nil)
	Crashed bool   // the process died inside this call
}

// DiskFile is one file of a durable tree (plain copy).
type DiskFile struct {
	Dir  string
	Name string
	Data []byte
}

// DiskCrashSignal is the panic value used to unwind a caller whose process
// "died" when SimDisk.CrashPanics is set.
type DiskCrashSignal struct{}

// CatchDiskCrash runs fn and reports whether it was cut by a simulated crash
// (CrashPanics mode). Any other panic is re-raised.
func CatchDiskCrash(fn func()) (crashed bool) {
	defer func() {
		if p := recover(); p != nil {
			if _, ok := p.(DiskCrashSignal); ok {
				crashed = true
				return
			}
			panic(p)
		}
	}()
	fn()
	return false
}

const simDiskMaxName = 128

type simTree map[string]map[string][]byte // directory -> file -> content

func (t simTree) clone() simTree {
	out := simTree{}
	for d, fs := range t {
		m := map[string][]byte{}
		for n, b := range fs {
			m[n] = append([]byte(nil), b...)
		}
		out[d] = m
	}
	return out
}

func (t simTree) dirs() []string {
	out := make([]string, 0, len(t))
	for d := range t {
		out = append(out, d)
	}
	sort.Strings(out)
	return out
}

func (t simTree) names(dir string) []string {
	fs := t[dir]
	out := make([]string, 0, len(fs))
	for n := range fs {
		out = append(out, n)
	}
	sort.Strings(out)
	return out
}

func (t simTree) files() []DiskFile {
	var out []DiskFile
	for _, d := range t.dirs() {
		for _, n := range t.names(d) {
			out = append(out, DiskFile{d, n, append([]byte(nil), t[d][n]...)})
		}
	}
	return out
}

// SimDisk is the durable layer plus the fault plan.
type SimDisk struct {
	mu       sync.Mutex
	current  simTree
	archive  simTree
	snapshot simTree

	epoch   int
	crashed bool
	next    int
	plan    map[int]DiskFault
	armed   []DiskFault
	full    bool
	fullEff DiskEffect
	fullCut int
	ops     []DiskOp
	snapSeq int

	// CrashPanics selects how a caller of a dead incarnation is stopped:
	// false (default) = it blocks for ever (use inside synctest bubbles, for
	// goroutines the component spawned); true = panic(DiskCrashSignal{}) in
	// the calling goroutine (for synchronous callers wrapped in
	// CatchDiskCrash). Descriptor.Content() of a dead incarnation never
	// panics, it returns an error.
	CrashPanics bool
	// Hook, if set, is called by the calling goroutine at the entry of every
	// storage call, before the call gets its index and with no lock held: a
	// scenario may park the goroutine there (gate). Do not park when the
	// caller holds a sync.Mutex of the component under test.
	Hook func(kind DiskOpKind, dir, name string)
	// OnFault, if set, is called (no lock held) with a short kind string every
	// time a planned fault actually fired.
	OnFault func(kind string)
}

// NewSimDisk returns an empty disk (the three directories of a protected
// handle exist and are empty).
func NewSimDisk() *SimDisk {
	return &SimDisk{current: simTree{}, archive: simTree{}, snapshot: simTree{}, plan: map[int]DiskFault{}}
}

// ---- fault plan (simulator side) ----

// PlanAt plans fault f for the storage call with index call (0-based, in
// start order over the whole life of the disk, across restarts).
func (d *SimDisk) PlanAt(call int, f DiskFault) {
	d.mu.Lock()
	defer d.mu.Unlock()
	d.plan[call] = f
}

// ArmNext queues fault f for the next storage call that has no armed fault
// yet (FIFO). Armed faults take precedence over PlanAt entries.
func (d *SimDisk) ArmNext(f DiskFault) {
	d.mu.Lock()
	defer d.mu.Unlock()
	d.armed = append(d.armed, f)
}

// Disarm drops armed faults that were not consumed.
func (d *SimDisk) Disarm() {
	d.mu.Lock()
	defer d.mu.Unlock()
	d.armed = nil
}

// SetFull makes every later Save/Snapshot without an individual fault fail
// with "no space left"; effect (EffectNone, EffectDir, EffectEmpty or
// EffectPrefix with cutPermille) is what each of them leaves behind. Delete,
// Archive and ReadAll keep working.
func (d *SimDisk) SetFull(effect DiskEffect, cutPermille int) {
	d.mu.Lock()
	defer d.mu.Unlock()
	d.full, d.fullEff, d.fullCut = true, effect, cutPermille
}

// ClearFull ends the full-disk condition.
func (d *SimDisk) ClearFull() {
	d.mu.Lock()
	defer d.mu.Unlock()
	d.full = false
}

// OpCount is the number of storage calls started so far (= index of the next).
func (d *SimDisk) OpCount() int {
	d.mu.Lock()
	defer d.mu.Unlock()
	return d.next
}

// Ops returns a copy of the call history.
func (d *SimDisk) Ops() []DiskOp {
	d.mu.Lock()
	defer d.mu.Unlock()
	return append([]DiskOp(nil), d.ops...)
}

// ---- crash / restart ----

// Crash kills the current incarnation at this instant (use at quiescence):
// the durable layer is frozen as it is, every existing handle is dead.
func (d *SimDisk) Crash() {
	d.mu.Lock()
	defer d.mu.Unlock()
	d.crashed = true
}

// Crashed reports whether the current incarnation died (by Crash() or by a
// planned DiskCrash) and Reopen was not called yet.
func (d *SimDisk) Crashed() bool {
	d.mu.Lock()
	defer d.mu.Unlock()
	return d.crashed
}

// Epoch is the incarnation number (number of Reopen calls).
func (d *SimDisk) Epoch() int {
	d.mu.Lock()
	defer d.mu.Unlock()
	return d.epoch
}

// Reopen starts the next incarnation and returns its handle. Handles of
// earlier incarnations stay dead for ever (also when there was no crash:
// Reopen alone models a clean stop + start).
func (d *SimDisk) Reopen() *SimDiskHandle {
	d.mu.Lock()
	defer d.mu.Unlock()
	d.epoch++
	d.crashed = false
	return &SimDiskHandle{d: d, epoch: d.epoch}
}

// Handle returns a handle of the current incarnation.
func (d *SimDisk) Handle() *SimDiskHandle {
	d.mu.Lock()
	defer d.mu.Unlock()
	return &SimDiskHandle{d: d, epoch: d.epoch}
}

// ---- ground truth: plain copies of the durable layer ----

// CurrentFiles lists the non-archived files (sorted by directory, name).
func (d *SimDisk) CurrentFiles() []DiskFile {
	d.mu.Lock()
	defer d.mu.Unlock()
	return d.current.files()
}

// ArchiveFiles lists the archived files.
func (d *SimDisk) ArchiveFiles() []DiskFile {
	d.mu.Lock()
	defer d.mu.Unlock()
	return d.archive.files()
}

// SnapshotFiles lists the snapshot files.
func (d *SimDisk) SnapshotFiles() []DiskFile {
	d.mu.Lock()
	defer d.mu.Unlock()
	return d.snapshot.files()
}

// CurrentDirs lists the directories of the current tree (also empty ones).
func (d *SimDisk) CurrentDirs() []string {
	d.mu.Lock()
	defer d.mu.Unlock()
	return d.current.dirs()
}

// ArchiveDirs lists the directories of the archive tree.
func (d *SimDisk) ArchiveDirs() []string {
	d.mu.Lock()
	defer d.mu.Unlock()
	return d.archive.dirs()
}

// ReadCurrent returns a copy of one non-archived file.
func (d *SimDisk) ReadCurrent(dir, name string) ([]byte, bool) {
	d.mu.Lock()
	defer d.mu.Unlock()
	b, ok := d.current[simClean(dir)][simClean(name)]
	return append([]byte(nil), b...), ok
}

// PutCurrent writes a file straight into the durable layer (scenario set-up,
// on-disk corruption). It is not a storage call.
func (d *SimDisk) PutCurrent(dir, name string, data []byte) {
	d.mu.Lock()
	defer d.mu.Unlock()
	dir, name = simClean(dir), simClean(name)
	if d.current[dir] == nil {
		d.current[dir] = map[string][]byte{}
	}
	d.current[dir][name] = append([]byte(nil), data...)
}

// RemoveCurrent removes a file straight from the durable layer.
func (d *SimDisk) RemoveCurrent(dir, name string) {
	d.mu.Lock()
	defer d.mu.Unlock()
	delete(d.current[simClean(dir)], simClean(name))
}

// MakeArchiveDir creates an (empty) directory in the archive tree, so that a
// later Archive of the same name takes the file-by-file path.
func (d *SimDisk) MakeArchiveDir(dir string) {
	d.mu.Lock()
	defer d.mu.Unlock()
	dir = simClean(dir)
	if d.archive[dir] == nil {
		d.archive[dir] = map[string][]byte{}
	}
}

// Clone copies the durable layer into a fresh disk (no plan, no history).
func (d *SimDisk) Clone() *SimDisk {
	d.mu.Lock()
	defer d.mu.Unlock()
	n := NewSimDisk()
	n.current, n.archive, n.snapshot = d.current.clone(), d.archive.clone(), d.snapshot.clone()
	n.CrashPanics = d.CrashPanics
	return n
}

// simClean mirrors what filepath.Join does to a path element such as
// "/membership_1".
func simClean(s string) string {
	return strings.TrimLeft(path.Clean("/"+s), "/")
}

// ---- handle ----

// SimDiskHandle is the storage handle of one incarnation. It implements
// persistence.ProtectedHandle and persistence.BasicHandle.
type SimDiskHandle struct {
	d     *SimDisk
	epoch int
}

var _ persistence.ProtectedHandle = (*SimDiskHandle)(nil)
var _ persistence.BasicHandle = (*SimDiskHandle)(nil)

// Disk returns the disk behind the handle.
func (h *SimDiskHandle) Disk() *SimDisk { return h.d }

// Dead reports whether the handle's incarnation is over.
func (h *SimDiskHandle) Dead() bool {
	h.d.mu.Lock()
	defer h.d.mu.Unlock()
	return h.deadLocked()
}

func (h *SimDiskHandle) deadLocked() bool { return h.d.crashed || h.epoch != h.d.epoch }

// die never returns.
func (h *SimDiskHandle) die() {
	if h.d.CrashPanics {
		panic(DiskCrashSignal{})
	}
	<-make(chan struct{})
}

// begin assigns the call index and picks the fault. Called with d.mu held.
func (h *SimDiskHandle) beginLocked(kind DiskOpKind, dir, name string, n int) (*DiskOp, DiskFault) {
	d := h.d
	idx := d.next
	d.next++
	var f DiskFault
	if len(d.armed) > 0 {
		f = d.armed[0]
		d.armed = d.armed[1:]
	} else if pf, ok := d.plan[idx]; ok {
		f = pf
	} else if d.full && (kind == DiskSave || kind == DiskSnapshot) {
		f = DiskFault{Kind: DiskErr, Effect: d.fullEff, CutPermille: d.fullCut}
	}
	d.ops = append(d.ops, DiskOp{Index: idx, Epoch: h.epoch, Kind: kind, Dir: dir, Name: name, Len: n, Fault: f})
	return &d.ops[len(d.ops)-1], f
}

func (h *SimDiskHandle) fired(kind DiskOpKind, f DiskFault) {
	if f.Kind == DiskNoFault || h.d.OnFault == nil {
		return
	}
	var s string
	switch f.Kind {
	case DiskErr:
		s = "disk-err-" + string(kind)
		if f.Effect != EffectNone {
			s += "-partial"
		}
	case DiskCrash:
		s = "disk-crash-" + string(kind)
		switch f.Effect {
		case EffectNone:
			s += "-before"
		case EffectWhole:
			s += "-after"
		default:
			s += "-torn"
		}
	case DiskReadContentErr:
		s = "disk-read-content-err"
	case DiskReadDirErr:
		s = "disk-read-dir-err"
	}
	h.d.OnFault(s)
}

func cutLen(f DiskFault, n int) int {
	if n < 2 {
		return 0
	}
	c := f.Cut
	if f.CutPermille > 0 {
		c = n * f.CutPermille / 1000
	}
	if c < 1 {
		c = 1
	}
	if c > n-1 {
		c = n - 1
	}
	return c
}

// writeEffect applies a (possibly cut) create-and-write to tree. d.mu held.
func writeEffect(tree simTree, dir, name string, data []byte, eff DiskEffect, f DiskFault) {
	if eff == EffectNone {
		return
	}
	if tree[dir] == nil {
		tree[dir] = map[string][]byte{}
	}
	switch eff {
	case EffectDir:
	case EffectEmpty:
		tree[dir][name] = []byte{}
	case EffectPrefix:
		tree[dir][name] = append([]byte{}, data[:cutLen(f, len(data))]...)
	case EffectWhole:
		tree[dir][name] = append([]byte{}, data...)
	}
}

func (h *SimDiskHandle) write(kind DiskOpKind, tree func() simTree, data []byte, dir, name string, noOverwrite bool) error {
	d := h.d
	if d.Hook != nil {
		d.Hook(kind, dir, name)
	}
	d.mu.Lock()
	if h.deadLocked() {
		d.mu.Unlock()
		h.die()
	}
	op, f := h.beginLocked(kind, dir, name, len(data))
	op.Data = append([]byte(nil), data...)
	var err error
	crash := false
	switch {
	case len(dir) > simDiskMaxName:
		err = fmt.Errorf("the maximum directory name length of [%v] exceeded for [%v]", simDiskMaxName, dir)
		f = DiskFault{}
	case len(name) > simDiskMaxName:
		err = fmt.Errorf("the maximum file name length of [%v] exceeded for [%v]", simDiskMaxName, name)
		f = DiskFault{}
	}
	cdir, cname := simClean(dir), simClean(name)
	if err == nil {
		t := tree()
		if noOverwrite {
			if _, exists := t[cdir][cname]; exists {
				err = fmt.Errorf("could not create unique snapshot; snapshot name collision has been detected")
				f = DiskFault{}
			}
		}
		if err == nil {
			switch f.Kind {
			case DiskErr:
				writeEffect(t, cdir, cname, data, f.Effect, f)
				err = fmt.Errorf("simdisk: %s %s/%s: injected I/O error (%s)", kind, cdir, cname, f)
			case DiskCrash:
				writeEffect(t, cdir, cname, data, f.Effect, f)
				crash = true
				d.crashed = true
			default:
				f = DiskFault{}
				writeEffect(t, cdir, cname, data, EffectWhole, f)
			}
		}
	}
	op.Fault = f
	op.Crashed = crash
	if err != nil {
		op.Err = err.Error()
	}
	d.mu.Unlock()
	h.fired(kind, f)
	if crash {
		h.die()
	}
	return err
}

// Save implements persistence.RWHandle.
func (h *SimDiskHandle) Save(data []byte, dirName, fileName string) error {
	return h.write(DiskSave, func() simTree { return h.d.current }, data, dirName, fileName, false)
}

// Snapshot implements persistence.ProtectedHandle. The unique suffix is a
// counter (the real one is the wall clock in milliseconds).
func (h *SimDiskHandle) Snapshot(data []byte, dirName, fileName string) error {
	h.d.mu.Lock()
	h.d.snapSeq++
	suffix := fmt.Sprintf(".%d", 1700000000000+h.d.snapSeq)
	h.d.mu.Unlock()
	if len(fileName) > simDiskMaxName-len(suffix) && len(dirName) <= simDiskMaxName {
		// the real handle reports this before touching the disk; let write()
		// produce the (equivalent) length error through a too long name
		return h.write(DiskSnapshot, func() simTree { return h.d.snapshot }, data, dirName, fileName+strings.Repeat("_", simDiskMaxName), true)
	}
	return h.write(DiskSnapshot, func() simTree { return h.d.snapshot }, data, dirName, fileName+suffix, true)
}

// Delete implements persistence.BasicHandle: os.Remove of <dir>/<name>.
func (h *SimDiskHandle) Delete(dirName, fileName string) error {
	d := h.d
	if d.Hook != nil {
		d.Hook(DiskDelete, dirName, fileName)
	}
	d.mu.Lock()
	if h.deadLocked() {
		d.mu.Unlock()
		h.die()
	}
	op, f := h.beginLocked(DiskDelete, dirName, fileName, 0)
	cdir, cname := simClean(dirName), simClean(fileName)
	var err error
	crash := false
	remove := func() error {
		if _, ok := d.current[cdir][cname]; !ok {
			return fmt.Errorf("remove %s/%s: no such file or directory", cdir, cname)
		}
		delete(d.current[cdir], cname)
		return nil
	}
	switch f.Kind {
	case DiskErr:
		// an unlink is atomic: the error leaves the file in place
		f.Effect = EffectNone
		err = fmt.Errorf("simdisk: delete %s/%s: injected I/O error", cdir, cname)
	case DiskCrash:
		if f.Effect != EffectNone {
			f.Effect = EffectWhole
			_ = remove()
		}
		crash = true
		d.crashed = true
	default:
		f = DiskFault{}
		err = remove()
	}
	op.Fault = f
	op.Crashed = crash
	if err != nil {
		op.Err = err.Error()
	}
	d.mu.Unlock()
	h.fired(DiskDelete, f)
	if crash {
		h.die()
	}
	return err
}

// Archive implements persistence.ProtectedHandle (keep-common's moveAll).
func (h *SimDiskHandle) Archive(directory string) error {
	d := h.d
	if d.Hook != nil {
		d.Hook(DiskArchive, directory, "")
	}
	d.mu.Lock()
	if h.deadLocked() {
		d.mu.Unlock()
		h.die()
	}
	op, f := h.beginLocked(DiskArchive, directory, "", 0)
	var err error
	crash := false
	if len(directory) > simDiskMaxName {
		err = fmt.Errorf("the maximum directory name length of [%v] exceeded for [%v]", simDiskMaxName, directory)
		f = DiskFault{}
	} else {
		dir := simClean(directory)
		_, targetExists := d.archive[dir]
		src, srcExists := d.current[dir]
		op.Note = "rename"
		if targetExists {
			op.Note = "file-by-file"
		}
		// moved(k): move the first k files (name order); k > n = also remove the source
		names := d.current.names(dir)
		move := func(k int, removeSrc bool) {
			if k > len(names) {
				k = len(names)
			}
			for _, n := range names[:k] {
				d.archive[dir][n] = src[n]
				delete(src, n)
			}
			if removeSrc {
				delete(d.current, dir)
			}
		}
		full := func() error {
			if !targetExists {
				if !srcExists {
					return fmt.Errorf("error occurred while moving a dir: [rename %s: no such file or directory]", dir)
				}
				d.archive[dir] = src
				delete(d.current, dir)
				return nil
			}
			if !srcExists {
				return fmt.Errorf("could not read directory [%v]: [no such file or directory]", dir)
			}
			move(len(names), true)
			return nil
		}
		partial := func(eff DiskEffect) {
			switch {
			case eff == EffectWhole:
				_ = full()
			case !targetExists || !srcExists:
				// atomic rename: all or nothing
			case eff == EffectPrefix:
				k := f.Cut
				if k < 0 {
					k = 0
				}
				move(k, false)
			case eff == EffectEmpty:
				move(len(names), false)
			}
		}
		switch f.Kind {
		case DiskErr:
			if f.Effect == EffectWhole {
				f.Effect = EffectEmpty
			}
			partial(f.Effect)
			err = fmt.Errorf("simdisk: archive %s: injected I/O error (%s)", dir, f)
		case DiskCrash:
			partial(f.Effect)
			crash = true
			d.crashed = true
		default:
			f = DiskFault{}
			err = full()
		}
	}
	op.Fault = f
	op.Crashed = crash
	if err != nil {
		op.Err = err.Error()
	}
	d.mu.Unlock()
	h.fired(DiskArchive, f)
	if crash {
		h.die()
	}
	return err
}

type simDescriptor struct {
	h         *SimDiskHandle
	dir, name string
	fail      bool
}

func (s *simDescriptor) Name() string      { return s.name }
func (s *simDescriptor) Directory() string { return s.dir }
func (s *simDescriptor) Content() ([]byte, error) {
	d := s.h.d
	d.mu.Lock()
	defer d.mu.Unlock()
	if s.h.deadLocked() {
		return nil, fmt.Errorf("simdisk: read %s/%s: process is gone", s.dir, s.name)
	}
	if s.fail {
		return nil, fmt.Errorf("simdisk: read %s/%s: injected I/O error", s.dir, s.name)
	}
	b, ok := d.current[s.dir][s.name]
	if !ok {
		return nil, fmt.Errorf("open %s/%s: no such file or directory", s.dir, s.name)
	}
	return append([]byte(nil), b...), nil
}

// ReadAll implements persistence.RWHandle.
func (h *SimDiskHandle) ReadAll() (<-chan persistence.DataDescriptor, <-chan error) {
	d := h.d
	if d.Hook != nil {
		d.Hook(DiskReadAll, "", "")
	}
	d.mu.Lock()
	if h.deadLocked() {
		d.mu.Unlock()
		h.die()
	}
	op, f := h.beginLocked(DiskReadAll, "", "", 0)
	crash := false
	switch f.Kind {
	case DiskCrash:
		crash = true
		d.crashed = true
	case DiskErr:
		f = DiskFault{Kind: DiskReadDirErr, Index: -1}
	case DiskReadContentErr, DiskReadDirErr:
	default:
		f = DiskFault{}
	}
	op.Fault = f
	op.Crashed = crash
	d.mu.Unlock()
	if f.Kind == DiskCrash {
		h.fired(DiskReadAll, f)
	}
	if crash {
		h.die()
	}

	dataChannel := make(chan persistence.DataDescriptor)
	errorChannel := make(chan error)
	go func() {
		defer close(dataChannel)
		defer close(errorChannel)
		firedOnce := false
		fire := func() {
			if !firedOnce {
				firedOnce = true
				h.fired(DiskReadAll, f)
			}
		}
		d.mu.Lock()
		dead := h.deadLocked()
		dirs := d.current.dirs()
		d.mu.Unlock()
		if dead {
			return
		}
		if f.Kind == DiskReadDirErr && f.Index < 0 {
			fire()
			errorChannel <- fmt.Errorf("could not read the directory [current]: [injected I/O error]")
			return
		}
		nDesc := 0
		for di, dir := range dirs {
			d.mu.Lock()
			dead = h.deadLocked()
			_, exists := d.current[dir]
			names := d.current.names(dir)
			d.mu.Unlock()
			if dead {
				return
			}
			if f.Kind == DiskReadDirErr && f.Index == di {
				fire()
				errorChannel <- fmt.Errorf("could not read the directory [current/%s]: [injected I/O error]", dir)
				continue
			}
			if !exists {
				errorChannel <- fmt.Errorf("could not read the directory [current/%s]: [no such file or directory]", dir)
				continue
			}
			for _, n := range names {
				desc := &simDescriptor{h: h, dir: dir, name: n}
				if f.Kind == DiskReadContentErr && f.Index == nDesc {
					desc.fail = true
					fire()
				}
				nDesc++
				dataChannel <- desc
			}
		}
	}()
	return dataChannel, errorChannel
}
