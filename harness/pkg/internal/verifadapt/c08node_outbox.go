package verifadapt

import "sort"

// C08nodeSortOutboxes puts every node's outbox into a canonical order: a
// STABLE sort by key(envelope). It exists for scenarios in which several
// protocol members (seats) live on ONE node and publish through the node's
// single channel from concurrently running goroutines: the order in which
// their Send calls interleave inside one quiescent interval is a scheduler
// accident, whereas the order of one member's own sends (one goroutine) is
// program order and is preserved by the stable sort when the key identifies
// the member. Call it from the simulator goroutine at quiescence, before
// Drain.
func C08nodeSortOutboxes(n *Net, key func(e *Envelope) uint64) {
	for _, nn := range n.Nodes {
		nn.mu.Lock()
		sort.SliceStable(nn.outbox, func(i, j int) bool { return key(nn.outbox[i]) < key(nn.outbox[j]) })
		nn.mu.Unlock()
	}
}
