// Package verifadapt exists only in the -overlay of verification builds: it
// holds the simulator-side implementations of keep-core's seams (block
// counter, broadcast channel, persistence). It never ships.
package verifadapt

import (
	"context"
	"sync"
)

// NodeBlocks is one node's view of the chain height; it implements
// chain.BlockCounter with the same waiter semantics as keep-common's ethereum
// block counter: waiters for height h fire (emitting h) when the node's view
// passes h, heights are walked one by one even when the view jumps.
type NodeBlocks struct {
	mu       sync.Mutex
	height   uint64
	waiters  map[uint64][]chan uint64
	watchers []*blockWatcher
	// Requests records every block a waiter was requested for, in order.
	Requests []uint64
	// OnRequest, if set, is called (without locks held) for every waiter request.
	OnRequest func(target uint64, current uint64)
}

type blockWatcher struct {
	ctx context.Context
	ch  chan uint64
}

func NewNodeBlocks(start uint64) *NodeBlocks {
	return &NodeBlocks{height: start, waiters: map[uint64][]chan uint64{}}
}

func (b *NodeBlocks) WaitForBlockHeight(n uint64) error {
	ch, _ := b.BlockHeightWaiter(n)
	<-ch
	return nil
}

func (b *NodeBlocks) BlockHeightWaiter(n uint64) (<-chan uint64, error) {
	ch := make(chan uint64, 1)
	b.mu.Lock()
	cur := b.height
	b.Requests = append(b.Requests, n)
	if n <= b.height {
		ch <- n
	} else {
		b.waiters[n] = append(b.waiters[n], ch)
	}
	cb := b.OnRequest
	b.mu.Unlock()
	if cb != nil {
		cb(n, cur)
	}
	return ch, nil
}

func (b *NodeBlocks) CurrentBlock() (uint64, error) {
	b.mu.Lock()
	defer b.mu.Unlock()
	return b.height, nil
}

func (b *NodeBlocks) WatchBlocks(ctx context.Context) <-chan uint64 {
	w := &blockWatcher{ctx: ctx, ch: make(chan uint64)}
	b.mu.Lock()
	b.watchers = append(b.watchers, w)
	b.mu.Unlock()
	return w.ch
}

// Height returns the node's current view.
func (b *NodeBlocks) Height() uint64 {
	b.mu.Lock()
	defer b.mu.Unlock()
	return b.height
}

// PendingTargets returns the heights some waiter is registered for.
func (b *NodeBlocks) PendingTargets() []uint64 {
	b.mu.Lock()
	defer b.mu.Unlock()
	out := []uint64{}
	for h, ws := range b.waiters {
		if len(ws) > 0 {
			out = append(out, h)
		}
	}
	return out
}

// Advance moves the node's view to h (simulator only), firing waiters for
// every height in between, one by one, and offering each height to watchers
// with a non-blocking send (a slow reader loses blocks, as in production).
func (b *NodeBlocks) Advance(h uint64) {
	for {
		b.mu.Lock()
		if b.height >= h {
			b.mu.Unlock()
			return
		}
		b.height++
		cur := b.height
		ws := b.waiters[cur]
		delete(b.waiters, cur)
		watchers := append([]*blockWatcher(nil), b.watchers...)
		b.mu.Unlock()
		for _, w := range ws {
			w <- cur
		}
		b.emit(watchers, cur)
	}
}

func (b *NodeBlocks) emit(watchers []*blockWatcher, v uint64) {
	for _, w := range watchers {
		if w.ctx.Err() != nil {
			continue
		}
		select {
		case w.ch <- v:
		default:
		}
	}
}

// EmitRaw offers an arbitrary number to the watchers (duplicate, regressing or
// skipping streams for properties that quantify over them). It does not move
// the height or fire waiters.
func (b *NodeBlocks) EmitRaw(v uint64) {
	b.mu.Lock()
	watchers := append([]*blockWatcher(nil), b.watchers...)
	b.mu.Unlock()
	b.emit(watchers, v)
}

// EmitRawBlocking hands v to every live watcher with a BLOCKING send (the
// caller must be a helper goroutine, never the simulator's root goroutine when
// it still has to reach quiescence). It returns false when no live watcher
// exists. Used for back-to-back bursts without quiescence in between.
func (b *NodeBlocks) EmitRawBlocking(v uint64) bool {
	b.mu.Lock()
	watchers := append([]*blockWatcher(nil), b.watchers...)
	b.mu.Unlock()
	sent := false
	for _, w := range watchers {
		if w.ctx.Err() != nil {
			continue
		}
		select {
		case w.ch <- v:
			sent = true
		case <-w.ctx.Done():
		}
	}
	return sent
}
