package verifadapt

// C38 scenario engine (shared by the pkg/tbtc and pkg/beacon/registry parts):
// fault enumeration over seeded registry histories. One run = one history
// (register / archive / restart over a few entities and member indices) that
// is executed once on a healthy disk to number its storage calls, and then
// again from scratch for every storage-call index with every fault mode of
// that call (error without / with partial effect, crash before / torn /
// after, full disk from there on, unreadable descriptor / directory at
// start-up). The registry is reached only through RegSUT; the oracle reads
// the durable layer.

import (
	"crypto/sha256"
	"encoding/hex"
	"fmt"
	"sort"
	"strings"

	"google.golang.org/protobuf/encoding/protowire"

	"verifsim"
)

// RegRecord is one membership/signer the registry knows.
type RegRecord struct {
	Entity   int    // wallet / group number
	Member   int    // member index
	Material string // sha256 of the record's canonical (marshalled) form
}

func (r RegRecord) String() string {
	return fmt.Sprintf("(e%d,m%d,%s)", r.Entity, r.Member, r.Material[:8])
}

// RegMaterial hashes a marshalled record.
func RegMaterial(b []byte) string {
	h := sha256.Sum256(b)
	return hex.EncodeToString(h[:])
}

// RegInst is one incarnation of the registry.
type RegInst struct {
	// Register registers the signer/membership of (entity, member).
	Register func(entity, member int) error
	// Archive archives the entity (tbtc: archiveWallet; beacon:
	// UnregisterStaleGroups with exactly this group stale). skip=true asks for
	// the variant in which the registry must leave the entity alone (beacon:
	// the group is the latest one).
	Archive func(entity int, skip bool) error
	// Dump lists, through the registry's own lookups, everything it knows and
	// reports any disagreement between the lookups ("" = they agree).
	Dump func() (recs []RegRecord, lookupProblem string)
}

// RegSUT adapts one registry implementation.
type RegSUT struct {
	Name     string
	Entities int
	Members  int
	// Open builds a registry on h and loads what is stored.
	Open func(h *SimDiskHandle) (RegInst, error)
}

type regOp struct {
	kind   string // register, archive, archive-skip, restart
	entity int
	member int
}

func (o regOp) String() string {
	switch o.kind {
	case "register":
		return fmt.Sprintf("register(e%d,m%d)", o.entity, o.member)
	case "restart":
		return "restart"
	}
	return fmt.Sprintf("%s(e%d)", o.kind, o.entity)
}

type regPlan struct {
	k    int
	f    DiskFault
	full bool // disk full from call k on
}

func (p *regPlan) String() string {
	if p == nil {
		return "healthy disk"
	}
	if p.full {
		return fmt.Sprintf("disk full from storage call #%d on", p.k)
	}
	return fmt.Sprintf("storage call #%d gets %s", p.k, p.f)
}

type regExec struct {
	r       *verifsim.Run
	sut     RegSUT
	history []regOp
	plan    *regPlan
	disk    *SimDisk
	inst    RegInst
	// payload attribution: storage path + payload hash -> record
	owner map[string]RegRecord
	seen  int // disk ops already attributed
	cur   regOp
	fired bool
	nfired int
	// records that were persisted before an operation which was then hit by
	// an injected fault: the disk, not the registry, may have destroyed
	// (truncate on re-save) or moved (cut archive) their files, so the running
	// registry may still know them until the next restart. A record that a
	// failed operation itself introduced is NOT covered.
	extra map[string]bool
}

func regSorted(rs []RegRecord) []string {
	out := make([]string, len(rs))
	for i, r := range rs {
		out[i] = fmt.Sprintf("e%d/m%d/%s", r.Entity, r.Member, r.Material)
	}
	sort.Strings(out)
	return out
}

func regShort(ss []string) string {
	out := make([]string, len(ss))
	for i, s := range ss {
		if len(s) > 16 {
			s = s[:16]
		}
		out[i] = s
	}
	return "[" + strings.Join(out, " ") + "]"
}

func (x *regExec) where() string {
	hs := make([]string, len(x.history))
	for i, o := range x.history {
		hs[i] = o.String()
	}
	return fmt.Sprintf("%s; history %s; fault plan: %s", x.sut.Name, strings.Join(hs, ", "), x.plan)
}

// attribute records which (entity, member) every new Save payload belongs to.
func (x *regExec) attribute() {
	ops := x.disk.Ops()
	for _, op := range ops[x.seen:] {
		if op.Kind == DiskSave && x.cur.kind == "register" {
			x.owner[simClean(op.Dir)+"/"+simClean(op.Name)+"/"+RegMaterial(op.Data)] =
				RegRecord{x.cur.entity, x.cur.member, RegMaterial(op.Data)}
		}
	}
	x.seen = len(ops)
}

// model interprets the durable layer: a non-archived file counts iff it holds
// exactly a payload that a Save was asked to write to that path.
func (x *regExec) model() (recs []RegRecord, torn int) {
	for _, f := range x.disk.CurrentFiles() {
		if rec, ok := x.owner[f.Dir+"/"+f.Name+"/"+RegMaterial(f.Data)]; ok {
			recs = append(recs, rec)
		} else {
			torn++
		}
	}
	return
}

// open restarts the registry from the durable layer and checks it.
func (x *regExec) open(why string) bool {
	for attempt := 0; attempt < 4; attempt++ {
		h := x.disk.Reopen()
		before := x.disk.OpCount()
		var inst RegInst
		var err error
		crashed := CatchDiskCrash(func() { inst, err = x.sut.Open(h) })
		x.attribute()
		if crashed {
			x.r.Probe("crash-during-startup-read")
			continue
		}
		if err != nil {
			x.r.Failf("C38:startup-failed", "start-up (%s) returned an error: %v [%s]", why, err, x.where())
			return false
		}
		x.inst = inst
		x.extra = map[string]bool{}
		readFault := false
		for _, op := range x.disk.Ops()[before:] {
			if op.Fault.Kind == DiskReadContentErr || op.Fault.Kind == DiskReadDirErr {
				readFault = true
			}
		}
		recs, problem := inst.Dump()
		model, torn := x.model()
		if torn > 0 {
			x.r.Probe("torn-or-empty-file-at-startup")
		}
		got, want := regSorted(recs), regSorted(model)
		if problem != "" {
			x.r.Failf("C38:lookups-disagree", "after restart (%s): %s [%s]", why, problem, x.where())
			return false
		}
		if readFault {
			// narrow relaxation: what could not be read may be absent, nothing may be wrong
			x.r.Probe("startup-with-read-error")
			if !regSubset(got, want) {
				x.r.Failf("C38:restart-knows-unpersisted", "after restart with a read error (%s) the registry knows %s, the durable layer holds %s [%s]", why, regShort(got), regShort(want), x.where())
				return false
			}
			continue // restart again with a readable disk; then exact
		}
		if torn > 0 && regSubset(want, got) && len(got) > len(want) {
			x.r.Failf("C38:torn-file-loaded-at-startup", "after restart (%s) the registry knows %s, but only %s are completely persisted and not archived: a torn file (%d torn/empty files in the durable layer) was accepted as a record instead of being skipped [%s]", why, regShort(got), regShort(want), torn, x.where())
			return false
		}
		if strings.Join(got, ",") != strings.Join(want, ",") {
			x.r.Failf("C38:restart-differs-from-durable", "after restart (%s) the registry knows %s, persisted and not archived are %s (torn/empty files: %d) [%s]", why, regShort(got), regShort(want), torn, x.where())
			return false
		}
		return true
	}
	x.r.Failf("C38:startup-never-completes", "4 start-up attempts did not complete [%s]", x.where())
	return false
}

func regSubset(got, want []string) bool {
	m := map[string]int{}
	for _, w := range want {
		m[w]++
	}
	for _, g := range got {
		if m[g] == 0 {
			return false
		}
		m[g]--
	}
	return true
}

// live checks cache-follows-storage at a quiescent point without restart:
// whatever the running registry knows must be persisted.
func (x *regExec) live(after regOp) bool {
	recs, problem := x.inst.Dump()
	if problem != "" {
		x.r.Failf("C38:lookups-disagree", "after %s: %s [%s]", after, problem, x.where())
		return false
	}
	model, _ := x.model()
	have := map[string]bool{}
	for _, w := range regSorted(model) {
		have[w] = true
	}
	for _, g := range regSorted(recs) {
		if x.extra[g] {
			continue
		}
		if !have[g] {
			x.r.Failf("C38:knows-unpersisted", "after %s the running registry knows %s which is not in the durable layer (it would be lost by a restart); durable: %s [%s]", after, g[:16], regShort(regSorted(model)), x.where())
			return false
		}
	}
	return true
}

// run executes the history once under plan. Returns the number of storage calls.
func (x *regExec) run() (calls int, ok bool) {
	x.disk = NewSimDisk()
	x.disk.CrashPanics = true
	x.owner = map[string]RegRecord{}
	x.seen = 0
	x.disk.OnFault = func(kind string) { x.r.Fault(kind); x.fired = true; x.nfired++ }
	x.extra = map[string]bool{}
	if x.plan != nil {
		if x.plan.full {
			p := x.plan
			x.disk.Hook = func(kind DiskOpKind, dir, name string) {
				if x.disk.OpCount() == p.k {
					x.disk.SetFull(EffectEmpty, 0)
					x.r.Fault("disk-full-from-here")
				}
			}
		} else {
			x.disk.PlanAt(x.plan.k, x.plan.f)
		}
	}
	x.cur = regOp{kind: "restart"}
	if !x.open("first start") {
		return 0, false
	}
	for _, op := range x.history {
		x.cur = op
		var err error
		firedBefore := x.nfired
		modelBefore, _ := x.model()
		crashed := CatchDiskCrash(func() {
			switch op.kind {
			case "register":
				err = x.inst.Register(op.entity, op.member)
			case "archive":
				err = x.inst.Archive(op.entity, false)
			case "archive-skip":
				err = x.inst.Archive(op.entity, true)
			}
		})
		_ = err
		x.attribute()
		if x.nfired > firedBefore {
			for _, rec := range modelBefore {
				if rec.Entity == op.entity {
					x.extra[regSorted([]RegRecord{rec})[0]] = true
				}
			}
		}
		if crashed || x.disk.Crashed() {
			x.r.Probe("crash-inside-" + op.kind)
			if !x.open("after a crash inside " + op.String()) {
				return 0, false
			}
			continue
		}
		if op.kind == "restart" {
			if !x.open("clean restart") {
				return 0, false
			}
			continue
		}
		if !x.live(op) {
			return 0, false
		}
	}
	x.cur = regOp{kind: "restart"}
	if !x.open("final restart") {
		return 0, false
	}
	return x.disk.OpCount(), true
}

// regBoundaries returns the ends of the top-level protobuf fields of b.
func regBoundaries(b []byte) []int {
	var out []int
	pos := 0
	for pos < len(b) {
		_, typ, n := protowire.ConsumeTag(b[pos:])
		if n < 0 {
			break
		}
		m := protowire.ConsumeFieldValue(0, typ, b[pos+n:])
		if m < 0 {
			break
		}
		pos += n + m
		if pos < len(b) {
			out = append(out, pos)
		}
	}
	return out
}

// RunRegistryScenario is the C38 scenario body (no bubble needed: the
// registries are synchronous; ReadAll's helper goroutines only use channels).
func RunRegistryScenario(r *verifsim.Run, sut RegSUT) {
	tp := r.T
	n := 3 + tp.Choose("history-length", 8)
	var history []regOp
	for i := 0; i < n; i++ {
		switch tp.Weighted("op", 6, 2, 2, 1) {
		case 0:
			history = append(history, regOp{"register", tp.Choose("entity", sut.Entities), 1 + tp.Choose("member", sut.Members)})
		case 1:
			history = append(history, regOp{"archive", tp.Choose("entity", sut.Entities), 0})
		case 2:
			history = append(history, regOp{kind: "restart"})
		case 3:
			history = append(history, regOp{"archive-skip", tp.Choose("entity", sut.Entities), 0})
		}
	}
	cutA := 1 + tp.Choose("cut", 999)
	cutB := 1 + tp.Choose("cut", 999)
	x := &regExec{r: r, sut: sut, history: history}
	hs := make([]string, len(history))
	for i, o := range history {
		hs[i] = o.String()
	}
	r.Logf("history: %s", strings.Join(hs, ", "))
	r.Step()
	calls, ok := x.run()
	if !ok {
		return
	}
	base := x.disk.Ops()
	r.Logf("healthy disk: %d storage calls, final durable files %d, archived %d", calls, len(x.disk.CurrentFiles()), len(x.disk.ArchiveFiles()))
	subruns := 0
	for k := 0; k < calls && k < len(base); k++ {
		op := base[k]
		var plans []*regPlan
		add := func(f DiskFault) { plans = append(plans, &regPlan{k: k, f: f}) }
		switch op.Kind {
		case DiskSave:
			cuts := []DiskFault{{Effect: EffectPrefix, Cut: 1}, {Effect: EffectPrefix, CutPermille: cutA}, {Effect: EffectPrefix, CutPermille: cutB}, {Effect: EffectPrefix, Cut: op.Len - 1}}
			for _, b := range regBoundaries(op.Data) {
				cuts = append(cuts, DiskFault{Effect: EffectPrefix, Cut: b})
			}
			for _, kind := range []DiskFaultKind{DiskErr, DiskCrash} {
				for _, eff := range []DiskEffect{EffectNone, EffectDir, EffectEmpty, EffectWhole} {
					add(DiskFault{Kind: kind, Effect: eff})
				}
				for _, c := range cuts {
					c.Kind = kind
					add(c)
				}
			}
			plans = append(plans, &regPlan{k: k, full: true})
		case DiskArchive:
			if op.Note == "file-by-file" {
				r.Probe("archive-file-by-file-path-enumerated")
			}
			for _, kind := range []DiskFaultKind{DiskErr, DiskCrash} {
				add(DiskFault{Kind: kind, Effect: EffectNone})
				add(DiskFault{Kind: kind, Effect: EffectEmpty})
				add(DiskFault{Kind: kind, Effect: EffectWhole})
				for c := 0; c <= sut.Members; c++ {
					add(DiskFault{Kind: kind, Effect: EffectPrefix, Cut: c})
				}
			}
		case DiskReadAll:
			add(DiskFault{Kind: DiskCrash})
			add(DiskFault{Kind: DiskReadDirErr, Index: -1})
			for i := 0; i < sut.Entities; i++ {
				add(DiskFault{Kind: DiskReadDirErr, Index: i})
			}
			for i := 0; i < sut.Entities*sut.Members && i < 6; i++ {
				add(DiskFault{Kind: DiskReadContentErr, Index: i})
			}
		}
		fired := 0
		for _, p := range plans {
			r.Step()
			subruns++
			y := &regExec{r: r, sut: sut, history: history, plan: p}
			_, ok := y.run()
			if y.fired {
				fired++
			}
			if !ok || r.Failed() {
				return
			}
		}
		r.Logf("call #%d %s: %d fault modes (%d fired), all restarts exact", k, op.Kind, len(plans), fired)
	}
	if subruns > 0 {
		r.NonTrivial()
	}
}
