package verifadapt

import (
	"bytes"

	"google.golang.org/protobuf/encoding/protowire"
)

// PBField is one top-level field of a protobuf message as found on the wire.
type PBField struct {
	Num  protowire.Number
	Typ  protowire.Type
	Raw  []byte // complete encoding of the field (tag + value)
	Val  uint64 // varint / fixed value
	Data []byte // payload of a length-delimited field
}

// PBParse splits a message into its top-level fields; ok=false if malformed.
func PBParse(b []byte) ([]PBField, bool) {
	var out []PBField
	for len(b) > 0 {
		num, typ, n := protowire.ConsumeTag(b)
		if n < 0 {
			return nil, false
		}
		m := protowire.ConsumeFieldValue(num, typ, b[n:])
		if m < 0 {
			return nil, false
		}
		f := PBField{Num: num, Typ: typ, Raw: append([]byte(nil), b[:n+m]...)}
		switch typ {
		case protowire.VarintType:
			f.Val, _ = protowire.ConsumeVarint(b[n:])
		case protowire.BytesType:
			d, _ := protowire.ConsumeBytes(b[n:])
			f.Data = append([]byte(nil), d...)
		case protowire.Fixed32Type:
			v, _ := protowire.ConsumeFixed32(b[n:])
			f.Val = uint64(v)
		case protowire.Fixed64Type:
			f.Val, _ = protowire.ConsumeFixed64(b[n:])
		}
		out = append(out, f)
		b = b[n+m:]
	}
	return out, true
}

// PBBuild re-encodes fields (Raw is ignored; Val/Data are used).
func PBBuild(fs []PBField) []byte {
	var b []byte
	for _, f := range fs {
		b = protowire.AppendTag(b, f.Num, f.Typ)
		switch f.Typ {
		case protowire.VarintType:
			b = protowire.AppendVarint(b, f.Val)
		case protowire.BytesType:
			b = protowire.AppendBytes(b, f.Data)
		case protowire.Fixed32Type:
			b = protowire.AppendFixed32(b, uint32(f.Val))
		case protowire.Fixed64Type:
			b = protowire.AppendFixed64(b, f.Val)
		default:
			b = append(b, f.Raw[protowire.SizeTag(f.Num):]...)
		}
	}
	return b
}

// PBSetVarint returns a copy of msg with varint field num set to v (added if
// absent, since proto3 omits zero values).
func PBSetVarint(msg []byte, num int, v uint64) ([]byte, bool) {
	fs, ok := PBParse(msg)
	if !ok {
		return nil, false
	}
	found := false
	for i := range fs {
		if int(fs[i].Num) == num && fs[i].Typ == protowire.VarintType {
			fs[i].Val = v
			found = true
		}
	}
	if !found {
		fs = append([]PBField{{Num: protowire.Number(num), Typ: protowire.VarintType, Val: v}}, fs...)
	}
	return PBBuild(fs), true
}

// PBReplaceBytes returns a copy of msg in which every top-level
// length-delimited field whose content equals old is replaced by repl.
func PBReplaceBytes(msg, old, repl []byte) ([]byte, int) {
	fs, ok := PBParse(msg)
	if !ok {
		return nil, 0
	}
	n := 0
	for i := range fs {
		if fs[i].Typ == protowire.BytesType && bytes.Equal(fs[i].Data, old) {
			fs[i].Data = append([]byte(nil), repl...)
			n++
		}
	}
	return PBBuild(fs), n
}
