package verifadapt

// C39 scenario engine (shared by the pkg/generator and pkg/tecdsa/dkg parts):
// one node that owns a pre-parameter pool on a SimDisk, restarted after every
// crash. The component under test is reached only through PoolSUT; the engine
// owns the schedule (gates), the fault plan (tape), the restarts and the
// oracle.

import (
	"context"
	"fmt"
	"strings"
	"sync"
	"testing/synctest"
	"time"

	"verifsim"
)

// PoolGot is what one successful GetNow returned, as seen by the SUT adapter.
type PoolGot struct {
	Nil      bool   // GetNow returned (nil, nil)
	Valid    bool   // the parameter is complete and equals what generation produced
	TagKnown bool   // Tag could be read from the parameter
	Tag      uint64 // the unique tag embedded by the generation function
	Detail   string // why it is invalid (deterministic text)
}

// PoolInst is one incarnation (scheduler + latch + persistence + pool).
type PoolInst struct {
	GetNow func() (PoolGot, error)
	Count  func() int
	Lock   func() // protocol latch
	Unlock func()
}

// PoolSUT adapts the real components.
type PoolSUT struct {
	// Boot builds one incarnation on handle h. gen is the body of the
	// generation function: it returns the tag to embed, or ok=false when the
	// generation function has to return nil. Boot is called on a goroutine of
	// its own (a crash inside the initial ReadAll never returns).
	Boot func(h *SimDiskHandle, size int, delay time.Duration, gen func(ctx context.Context) (tag uint64, ok bool)) PoolInst
	// FileTag reads the durable layer as ground truth: which tag does this
	// file of the current tree hold (ok=false: not a complete parameter file).
	FileTag func(f DiskFile) (tag uint64, ok bool)
	// Damage, if set, models on-disk damage that leaves a well-formed record:
	// it returns the content of parameter file f with ALL bytes of one inner
	// number field (chosen by choice) set to zero - a bad sector / sparse
	// extent after a crash. ok=false: nothing to damage. The engine applies it
	// to one file of the durable layer and crashes the node in the same
	// instant, so the record is first seen by the next start-up.
	Damage func(f DiskFile, choice int) (damaged []byte, what string, ok bool)
	// Fine: storage calls are scheduling points of their own (allowed only
	// when the persistence layer holds no mutex across them).
	Fine bool
}

type poolInc struct {
	epoch  int
	inst   PoolInst
	booted bool
	dead   bool
	locks  int
}

type poolSim struct {
	r     *verifsim.Run
	tp    *verifsim.Tape
	sut   PoolSUT
	gates *verifsim.Gates
	disk  *SimDisk
	size  int
	delay time.Duration

	faultsOn, crashesOn, latchOn, fullOn bool
	quiet                                bool

	mu        sync.Mutex
	over      bool
	inc       *poolInc
	nextTag   uint64
	generated map[uint64]bool
	handed    map[uint64]int
	seq       int
	active    int // callers spawned and not finished (current incarnation)
	saveErrs  int
	isFull    bool
}

const poolTick = 250 * time.Millisecond

func (s *poolSim) dead(inc *poolInc) bool {
	s.mu.Lock()
	defer s.mu.Unlock()
	return inc.dead || s.over
}

func (s *poolSim) label(inc *poolInc, kind string) string {
	s.mu.Lock()
	defer s.mu.Unlock()
	s.seq++
	return fmt.Sprintf("e%02d-%s%04d", inc.epoch, kind, s.seq)
}

func poolForever(ctx context.Context) {
	select {
	case <-ctx.Done():
	case <-make(chan struct{}):
	}
}

func (s *poolSim) genFor(inc *poolInc) func(ctx context.Context) (uint64, bool) {
	return func(ctx context.Context) (uint64, bool) {
		if s.dead(inc) {
			poolForever(ctx)
			return 0, false
		}
		l := s.label(inc, "w")
		s.gates.Enter(l)
		s.gates.Point("gen")
		if s.dead(inc) {
			poolForever(ctx)
			return 0, false
		}
		if ctx.Err() != nil {
			s.r.Logf("%s generation cancelled -> nil", l)
			s.r.Probe("generation-cancelled")
			return 0, false
		}
		s.mu.Lock()
		s.nextTag++
		tag := s.nextTag
		s.generated[tag] = true
		s.mu.Unlock()
		s.r.Logf("%s generated tag=%d", l, tag)
		return tag, true
	}
}

func (s *poolSim) boot() {
	h := s.disk.Reopen()
	inc := &poolInc{epoch: s.disk.Epoch()}
	s.mu.Lock()
	s.inc = inc
	s.active = 0
	s.mu.Unlock()
	l := s.label(inc, "boot")
	go func() {
		s.gates.Enter(l)
		s.gates.Point("boot")
		// phase shift: the scheduler of this incarnation starts 7 ms after a
		// simulator instant and the simulator moves on by 10 ms (see release),
		// so scheduler checks (every 1 s), worker wake-ups (370 ms after a
		// simulator instant) and simulator instants (250 ms apart) never fall
		// into the same fake instant - timers due at the same instant are not
		// one atomic step for synctest.Wait.
		time.Sleep(7 * time.Millisecond)
		if s.dead(inc) {
			return
		}
		inst := s.sut.Boot(h, s.size, s.delay, s.genFor(inc))
		s.mu.Lock()
		inc.inst = inst
		inc.booted = true
		s.mu.Unlock()
		s.r.Logf("%s pool started with %d parameters", l, inst.Count())
	}()
}

func (s *poolSim) kill(inc *poolInc) {
	s.mu.Lock()
	inc.dead = true
	s.mu.Unlock()
}

// observe is the oracle for one GetNow result; called by the (serialised)
// caller goroutine right after GetNow returned.
func (s *poolSim) observe(l string, got PoolGot, err error) {
	r := s.r
	if err != nil {
		r.Logf("%s GetNow -> error", l)
		r.Probe("getnow-error")
		return
	}
	if got.Nil {
		r.Failf("C39:nil-param-returned", "%s: GetNow returned (nil, nil)", l)
		return
	}
	if !got.Valid {
		r.Failf("C39:invalid-param-returned", "%s: GetNow handed out an invalid parameter: %s", l, got.Detail)
		return
	}
	if !got.TagKnown {
		r.Logf("%s GetNow -> valid data, tag unreadable", l)
		r.Probe("handout-tag-unknown")
		return
	}
	s.mu.Lock()
	known := s.generated[got.Tag]
	s.handed[got.Tag]++
	n := s.handed[got.Tag]
	s.mu.Unlock()
	r.Logf("%s GetNow -> tag=%d", l, got.Tag)
	r.Probe("handout")
	if !known {
		r.Failf("C39:unknown-param-returned", "%s: GetNow handed out tag %d that generation never produced", l, got.Tag)
		return
	}
	if n > 1 {
		r.Failf("C39:param-handed-out-twice", "%s: tag %d handed out %d times over the history (incl. restarts)", l, got.Tag, n)
		return
	}
	for _, f := range s.disk.CurrentFiles() {
		if t, ok := s.sut.FileTag(f); ok && t == got.Tag {
			r.Failf("C39:param-still-on-disk-at-handout", "%s: GetNow returned tag %d while its file %s/%s is still in the durable layer", l, got.Tag, f.Dir, f.Name)
			return
		}
	}
}

// call runs GetNow on the calling goroutine with a panic guard.
func (s *poolSim) call(l string, inc *poolInc) (ok bool) {
	var got PoolGot
	var err error
	func() {
		defer func() {
			if p := recover(); p != nil {
				if _, isCrash := p.(DiskCrashSignal); isCrash {
					panic(p)
				}
				s.mu.Lock()
				se := s.saveErrs
				s.mu.Unlock()
				msg := fmt.Sprint(p)
				if strings.Contains(msg, "nil pointer") || strings.Contains(msg, "invalid memory address") {
					s.r.Failf("C39:getnow-panics-on-nil-pool-entry", "%s: GetNow panicked: %v (failed Saves before: %d - a failed Save puts a nil entry into the pool)", l, p, se)
				} else {
					s.r.Failf("C39:getnow-panic", "%s: GetNow panicked: %v", l, p)
				}
				err = fmt.Errorf("panic")
			}
		}()
		got, err = inc.inst.GetNow()
	}()
	s.observe(l, got, err)
	return err == nil
}

func (s *poolSim) spawnCaller(inc *poolInc) {
	l := s.label(inc, "c")
	s.mu.Lock()
	s.active++
	s.mu.Unlock()
	go func() {
		s.gates.Enter(l)
		s.gates.Point("getnow")
		if s.dead(inc) {
			return
		}
		s.call(l, inc)
		s.mu.Lock()
		s.active--
		s.mu.Unlock()
	}()
}

func (s *poolSim) drawSaveFault() DiskFault {
	if !s.faultsOn || s.quiet {
		return DiskFault{}
	}
	w := []int{16, 2, 1, 1, 1, 0, 0, 0, 0}
	if s.crashesOn {
		w[5], w[6], w[7], w[8] = 1, 1, 1, 1
	}
	switch s.tp.Weighted("save-fault", w...) {
	case 1:
		return DiskFault{Kind: DiskErr, Effect: EffectNone}
	case 2:
		return DiskFault{Kind: DiskErr, Effect: EffectEmpty}
	case 3:
		return DiskFault{Kind: DiskErr, Effect: EffectPrefix, CutPermille: 1 + s.tp.Choose("cut", 999)}
	case 4:
		return DiskFault{Kind: DiskErr, Effect: EffectWhole}
	case 5:
		return DiskFault{Kind: DiskCrash, Effect: EffectNone}
	case 6:
		return DiskFault{Kind: DiskCrash, Effect: EffectEmpty}
	case 7:
		return DiskFault{Kind: DiskCrash, Effect: EffectPrefix, CutPermille: 1 + s.tp.Choose("cut", 999)}
	case 8:
		return DiskFault{Kind: DiskCrash, Effect: EffectWhole}
	}
	return DiskFault{}
}

func (s *poolSim) drawDeleteFault() DiskFault {
	if !s.faultsOn || s.quiet {
		return DiskFault{}
	}
	w := []int{16, 2, 0, 0}
	if s.crashesOn {
		w[2], w[3] = 1, 1
	}
	switch s.tp.Weighted("delete-fault", w...) {
	case 1:
		return DiskFault{Kind: DiskErr}
	case 2:
		return DiskFault{Kind: DiskCrash, Effect: EffectNone}
	case 3:
		return DiskFault{Kind: DiskCrash, Effect: EffectWhole}
	}
	return DiskFault{}
}

func (s *poolSim) drawReadFault() DiskFault {
	if !s.faultsOn || s.quiet {
		return DiskFault{}
	}
	w := []int{12, 2, 1, 1, 0}
	if s.crashesOn {
		w[4] = 1
	}
	switch s.tp.Weighted("readall-fault", w...) {
	case 1:
		return DiskFault{Kind: DiskReadContentErr, Index: s.tp.Choose("descriptor", 4)}
	case 2:
		return DiskFault{Kind: DiskReadDirErr, Index: -1}
	case 3:
		return DiskFault{Kind: DiskReadDirErr, Index: 0}
	case 4:
		return DiskFault{Kind: DiskCrash}
	}
	return DiskFault{}
}

// release lets one parked goroutine run; the fault of the storage call it is
// about to make is drawn here, at quiescence, by the simulator.
func (s *poolSim) release(p verifsim.Parked) {
	var f DiskFault
	switch p.Site {
	case "boot":
		f = s.drawReadFault()
	case "gen":
		if !s.sut.Fine {
			f = s.drawSaveFault()
		}
	case "getnow":
		if !s.sut.Fine {
			f = s.drawDeleteFault()
		}
	case "disk-save":
		f = s.drawSaveFault()
	case "disk-delete":
		f = s.drawDeleteFault()
	}
	if f.Kind != DiskNoFault {
		s.disk.ArmNext(f)
		s.r.Logf("release %s at %s with fault %s", p.Label, p.Site, f)
	} else {
		s.r.Logf("release %s at %s", p.Label, p.Site)
	}
	s.gates.Release(p.Label)
	if p.Site == "boot" {
		time.Sleep(10 * time.Millisecond)
	}
	synctest.Wait()
	s.disk.Disarm()
}

func (s *poolSim) parkedOf(inc *poolInc) []verifsim.Parked {
	prefix := fmt.Sprintf("e%02d-", inc.epoch)
	var out []verifsim.Parked
	for _, p := range s.gates.List() {
		if strings.HasPrefix(p.Label, prefix) {
			out = append(out, p)
		}
	}
	return out
}

func (s *poolSim) checkQuiescent() {
	s.mu.Lock()
	inc := s.inc
	booted := inc != nil && inc.booted && !inc.dead
	s.mu.Unlock()
	if !booted || s.disk.Crashed() {
		return
	}
	if n := inc.inst.Count(); n > s.size {
		s.r.Failf("C39:pool-larger-than-size", "pool holds %d parameters, configured size %d", n, s.size)
	}
}

// drain empties the live pool through one unfaulted caller.
func (s *poolSim) drain(inc *poolInc) {
	l := s.label(inc, "d")
	done := false
	go func() {
		s.gates.Enter(l)
		for i := 0; i < s.size+2; i++ {
			if s.dead2(inc) || !s.call(l, inc) {
				break
			}
		}
		s.mu.Lock()
		done = true
		s.mu.Unlock()
	}()
	for i := 0; i < 4*(s.size+3); i++ {
		synctest.Wait()
		s.mu.Lock()
		d := done
		s.mu.Unlock()
		if d || s.r.Failed() {
			return
		}
		released := false
		for _, p := range s.gates.List() {
			if p.Label == l {
				s.release(p)
				released = true
			}
		}
		if !released {
			return
		}
	}
}

func (s *poolSim) dead2(inc *poolInc) bool {
	s.mu.Lock()
	defer s.mu.Unlock()
	return inc.dead
}

// RunPoolScenario is the C39 scenario body (inside a synctest bubble).
func RunPoolScenario(r *verifsim.Run, sut PoolSUT) {
	tp := r.T
	s := &poolSim{r: r, tp: tp, sut: sut, gates: verifsim.NewGates(), disk: NewSimDisk(),
		generated: map[uint64]bool{}, handed: map[uint64]int{}, delay: 370 * time.Millisecond}
	s.size = 1 + tp.Choose("pool-size", 3)
	s.faultsOn = !tp.Chance("fault-free-twin", 1, 5)
	s.crashesOn = s.faultsOn && !tp.Chance("no-crashes", 1, 4)
	s.latchOn = tp.Chance("latch", 1, 2)
	s.fullOn = s.faultsOn && tp.Chance("full-disk", 1, 4)
	steps := 30 + tp.Choose("steps", 90)
	maxCallers := 1 + tp.Choose("callers", 3)
	r.Logf("cfg size=%d faults=%v crashes=%v latch=%v full=%v steps=%d callers=%d fine=%v",
		s.size, s.faultsOn, s.crashesOn, s.latchOn, s.fullOn, steps, maxCallers, sut.Fine)
	s.disk.OnFault = func(kind string) {
		r.Fault(kind)
		if strings.HasPrefix(kind, "disk-err-save") {
			s.mu.Lock()
			s.saveErrs++
			s.mu.Unlock()
		}
	}
	if sut.Fine {
		s.disk.Hook = func(kind DiskOpKind, dir, name string) {
			if kind == DiskSave || kind == DiskDelete {
				s.gates.Point("disk-" + string(kind))
			}
		}
	}
	restarts := 0
	for step := 0; step < steps && !r.Failed(); step++ {
		r.Step()
		s.mu.Lock()
		inc := s.inc
		s.mu.Unlock()
		if inc == nil || s.disk.Crashed() {
			if inc != nil {
				s.kill(inc)
				restarts++
				r.Logf("restart #%d (durable files: %d)", restarts, len(s.disk.CurrentFiles()))
				r.Probe("restart")
			}
			s.boot()
			synctest.Wait()
			continue
		}
		s.checkQuiescent()
		s.mu.Lock()
		booted := inc.booted
		active := s.active
		s.mu.Unlock()
		parked := s.parkedOf(inc)
		// event kinds, benign progress first
		type kind struct {
			name string
			w    int
		}
		var kinds []kind
		if len(parked) > 0 {
			kinds = append(kinds, kind{"release", 10})
		}
		// A worker parked between generation and the push into the pool must
		// not see its context cancelled there: the pool's select between a
		// free slot and ctx.Done() would then be a coin flip of the Go runtime
		// (both outcomes are fine for the property, but not replayable). A
		// cancel can only come from a scheduler check while the latch is held.
		midSave := false
		for _, p := range parked {
			if p.Site == "disk-save" {
				midSave = true
			}
		}
		if !(midSave && inc.locks > 0) {
			kinds = append(kinds, kind{"tick", 4})
		}
		if booted && active < maxCallers {
			kinds = append(kinds, kind{"caller", 5})
		}
		if booted && s.latchOn {
			kinds = append(kinds, kind{"latch", 2})
		}
		if s.crashesOn {
			kinds = append(kinds, kind{"crash", 1})
		}
		if s.fullOn {
			kinds = append(kinds, kind{"full", 1})
		}
		if s.crashesOn && s.sut.Damage != nil && booted {
			kinds = append(kinds, kind{"damage", 1})
		}
		w := make([]int, len(kinds))
		for i, k := range kinds {
			w[i] = k.w
		}
		switch kinds[tp.Weighted("event", w...)].name {
		case "release":
			p := parked[tp.Choose("which", len(parked))]
			if len(parked) > 1 {
				r.NonTrivial()
			}
			s.release(p)
		case "tick":
			time.Sleep(poolTick)
			r.AddSim(int64(poolTick), 0)
			r.Logf("tick")
			synctest.Wait()
		case "caller":
			s.spawnCaller(inc)
			r.Logf("new GetNow caller")
			synctest.Wait()
		case "latch":
			if inc.locks > 0 && tp.Chance("unlock", 1, 2) {
				inc.locks--
				inc.inst.Unlock()
				r.Logf("protocol unlock -> %d", inc.locks)
			} else if inc.locks < 2 {
				inc.locks++
				inc.inst.Lock()
				r.Logf("protocol lock -> %d", inc.locks)
				r.NonTrivial()
			}
			synctest.Wait()
		case "crash":
			s.disk.Crash()
			r.Fault("crash-at-quiescence")
			r.Logf("crash")
		case "damage":
			var files []DiskFile
			for _, f := range s.disk.CurrentFiles() {
				if _, ok := s.sut.FileTag(f); ok {
					files = append(files, f)
				}
			}
			if len(files) == 0 {
				r.Logf("damage: no complete parameter file on disk")
				break
			}
			f := files[tp.Choose("damaged-file", len(files))]
			tag, _ := s.sut.FileTag(f)
			if data, what, ok := s.sut.Damage(f, tp.Choose("damaged-field", 16)); ok {
				s.disk.PutCurrent(f.Dir, f.Name, data)
				s.disk.Crash()
				r.Fault("disk-field-zeroed-then-crash")
				r.Logf("file of tag %d damaged on disk (%s zeroed, record still well-formed), crash", tag, what)
			}
		case "full":
			if s.isFull {
				s.disk.ClearFull()
				s.isFull = false
				r.Logf("disk has space again")
			} else {
				eff := []DiskEffect{EffectNone, EffectEmpty, EffectPrefix}[tp.Choose("full-effect", 3)]
				s.disk.SetFull(eff, 500)
				s.isFull = true
				r.Logf("disk full from now on (leaves %d)", eff)
			}
		}
	}
	// ---- final phase: no faults; drain the live pool, then restart and
	// drain until the durable layer holds no parameter any more.
	s.quiet = true
	s.disk.ClearFull()
	s.disk.Disarm()
	synctest.Wait()
	for round := 0; round < 6 && !r.Failed(); round++ {
		s.mu.Lock()
		inc := s.inc
		s.mu.Unlock()
		if inc == nil || s.disk.Crashed() || round > 0 {
			if inc != nil {
				s.kill(inc)
			}
			if !s.disk.Crashed() {
				s.disk.Crash()
			}
			r.Logf("final restart (durable files: %d)", len(s.disk.CurrentFiles()))
			s.boot()
			synctest.Wait()
			s.mu.Lock()
			inc = s.inc
			s.mu.Unlock()
		}
		for i := 0; i < 3; i++ {
			for _, p := range s.parkedOf(inc) {
				if p.Site == "boot" {
					s.release(p)
				}
			}
		}
		s.mu.Lock()
		booted := inc.booted
		s.mu.Unlock()
		if !booted {
			continue
		}
		s.checkQuiescent()
		s.drain(inc)
		left := 0
		for _, f := range s.disk.CurrentFiles() {
			if _, ok := sut.FileTag(f); ok {
				left++
			}
		}
		if left == 0 && round > 0 {
			break
		}
	}
	s.mu.Lock()
	s.over = true
	if s.inc != nil {
		s.inc.dead = true
	}
	s.mu.Unlock()
	s.gates.ReleaseAll()
	synctest.Wait()
}
