package verifadapt

// Mutation recipes (C19). A recipe is drawn from the tape with a FIXED number
// of decisions (class, nesting depth, protobuf edit, parameter seed) that does
// not depend on the bytes it is later applied to; every positional parameter
// (offset, which field, filler bytes) comes from a local generator seeded by
// the recipe. Hence tape consumption and the logged (requested) mutation names
// are the same in every replay even when message contents come from
// crypto/rand (GJKR keys, handshake nonces, ECDSA signatures).

import (
	"google.golang.org/protobuf/encoding/protowire"

	"verifsim"
)

// MutationRecipe is one tape-chosen corruption, not yet applied.
type MutationRecipe struct {
	Class int // 0 none, 1 truncate, 2 bitflip, 3 overwrite, 4 protobuf edit, 5 empty, 6 garbage
	Depth int // protobuf edit: nesting levels to descend (as far as nested messages exist)
	Edit  int // protobuf edit kind
	Value int // index into hostileVarints
	Seed  uint64
}

var mutClassNames = []string{"none", "truncate", "bitflip", "overwrite", "pb", "empty", "garbage"}
var mutEditNames = []string{"pb-delete-field", "pb-empty-field", "pb-oversize-field", "pb-varint", "pb-duplicate-field",
	"pb-add-field", "pb-length-lie", "pb-change-wire-type", "pb-reorder-fields"}

// DrawRecipe draws one recipe: always exactly five tape decisions. All-zero
// decisions give the benign recipe ("none").
func DrawRecipe(tp *verifsim.Tape) MutationRecipe {
	var rc MutationRecipe
	rc.Class = tp.Weighted("mut-class", 1, 5, 4, 3, 24, 1, 2)
	rc.Depth = tp.Weighted("mut-depth", 6, 3, 2, 1, 1)
	rc.Edit = tp.Weighted("mut-pb-edit", 5, 4, 2, 6, 3, 3, 2, 2, 1)
	rc.Value = tp.Choose("mut-varint-value", len(hostileVarints))
	rc.Seed = tp.Uint64("mut-params")
	return rc
}

// Requested is the tape-determined name of the recipe (what is logged).
func (rc MutationRecipe) Requested() string {
	if rc.Class != 4 {
		return mutClassNames[rc.Class]
	}
	name := mutEditNames[rc.Edit]
	if rc.Edit == 3 {
		name += "-" + hostileVarints[rc.Value].name
	}
	if rc.Depth > 0 {
		name = "nested-" + name
	}
	return name
}

type mutRand struct{ s uint64 }

func (m *mutRand) next() uint64 {
	m.s += 0x9e3779b97f4a7c15
	z := m.s
	z = (z ^ (z >> 30)) * 0xbf58476d1ce4e5b9
	z = (z ^ (z >> 27)) * 0x94d049bb133111eb
	return z ^ (z >> 31)
}

func (m *mutRand) n(k int) int {
	if k <= 1 {
		return 0
	}
	return int(m.next() % uint64(k))
}

func (m *mutRand) bytes(n int) []byte {
	out := make([]byte, n)
	for i := 0; i < n; i += 8 {
		v := m.next()
		for j := 0; j < 8 && i+j < n; j++ {
			out[i+j] = byte(v >> (8 * j))
		}
	}
	return out
}

// Apply applies the recipe to valid and returns the result and the EFFECTIVE
// kind (what could actually be done to these bytes; used as fault counter).
func (rc MutationRecipe) Apply(valid []byte) (mutated []byte, kind string) {
	cp := append([]byte(nil), valid...)
	rnd := &mutRand{s: rc.Seed}
	switch rc.Class {
	case 0:
		return cp, "none"
	case 1:
		if len(cp) == 0 {
			return cp, "empty"
		}
		return cp[:rnd.n(len(cp))], "truncate" // strict prefix: torn write / cut packet
	case 2:
		if len(cp) == 0 {
			return cp, "empty"
		}
		cp[rnd.n(len(cp))] ^= 1 << uint(rnd.n(8))
		return cp, "bitflip"
	case 3:
		if len(cp) == 0 {
			return cp, "empty"
		}
		i := rnd.n(len(cp))
		n := 1 + rnd.n(16)
		if i+n > len(cp) {
			n = len(cp) - i
		}
		copy(cp[i:], rnd.bytes(n))
		return cp, "overwrite"
	case 4:
		return rc.applyPB(rnd, cp, 0)
	case 5:
		return []byte{}, "empty"
	default:
		return rnd.bytes(1 + rnd.n(96)), "garbage"
	}
}

func (rc MutationRecipe) applyPB(rnd *mutRand, msg []byte, depth int) ([]byte, string) {
	pre := ""
	if depth > 0 {
		pre = "nested-"
	}
	fs, ok := PBParse(msg)
	if !ok || len(fs) == 0 {
		return mutAddField(rnd, msg), pre + "pb-add-field"
	}
	if depth < rc.Depth {
		var nested []int
		for i, f := range fs {
			if pbHasNested(f) {
				nested = append(nested, i)
			}
		}
		if len(nested) > 0 {
			i := nested[rnd.n(len(nested))]
			sub, k := rc.applyPB(rnd, fs[i].Data, depth+1)
			fs[i].Data = sub
			if len(k) < 7 || k[:7] != "nested-" {
				k = "nested-" + k
			}
			return PBBuild(fs), k
		}
	}
	var varints, delimited []int
	for i, f := range fs {
		switch f.Typ {
		case protowire.VarintType:
			varints = append(varints, i)
		case protowire.BytesType:
			delimited = append(delimited, i)
		}
	}
	switch rc.Edit {
	case 0:
		i := rnd.n(len(fs))
		fs = append(fs[:i:i], fs[i+1:]...)
		return PBBuild(fs), pre + "pb-delete-field"
	case 1:
		if len(delimited) == 0 {
			return mutAddField(rnd, msg), pre + "pb-add-field"
		}
		fs[delimited[rnd.n(len(delimited))]].Data = nil
		return PBBuild(fs), pre + "pb-empty-field"
	case 2:
		if len(delimited) == 0 {
			return mutAddField(rnd, msg), pre + "pb-add-field"
		}
		i := delimited[rnd.n(len(delimited))]
		n := []int{300, 4096, 70000}[rnd.n(3)]
		if rnd.n(2) == 1 {
			fs[i].Data = append(append([]byte(nil), fs[i].Data...), rnd.bytes(n)...) // genuine content as prefix
		} else {
			fs[i].Data = rnd.bytes(n)
		}
		return PBBuild(fs), pre + "pb-oversize-field"
	case 3:
		hv := hostileVarints[rc.Value]
		if len(varints) == 0 {
			// proto3 omits zero-valued scalars: set one of the low field numbers
			num := protowire.Number(1 + rnd.n(5))
			fs = append([]PBField{{Num: num, Typ: protowire.VarintType, Val: hv.v}}, fs...)
			return PBBuild(fs), pre + "pb-varint-" + hv.name
		}
		fs[varints[rnd.n(len(varints))]].Val = hv.v
		return PBBuild(fs), pre + "pb-varint-" + hv.name
	case 4:
		d := fs[rnd.n(len(fs))]
		j := rnd.n(len(fs) + 1)
		out := append([]PBField(nil), fs[:j]...)
		out = append(out, d)
		out = append(out, fs[j:]...)
		return PBBuild(out), pre + "pb-duplicate-field"
	case 5:
		return mutAddField(rnd, msg), pre + "pb-add-field"
	case 6:
		if len(delimited) == 0 {
			return mutAddField(rnd, msg), pre + "pb-add-field"
		}
		which := delimited[rnd.n(len(delimited))]
		how := rnd.n(4)
		var b []byte
		for i, f := range fs {
			if i != which {
				b = append(b, PBBuild([]PBField{f})...)
				continue
			}
			b = protowire.AppendTag(b, f.Num, f.Typ)
			l := uint64(len(f.Data))
			switch how {
			case 0:
				l++
			case 1:
				if l > 0 {
					l--
				}
			case 2:
				l = 1<<31 - 1
			default:
				l = 1<<64 - 1
			}
			b = protowire.AppendVarint(b, l)
			b = append(b, f.Data...)
		}
		return b, pre + "pb-length-lie"
	case 7:
		i := rnd.n(len(fs))
		if fs[i].Typ == protowire.VarintType {
			fs[i].Typ = protowire.BytesType
			fs[i].Data = rnd.bytes(1 + rnd.n(40))
		} else {
			fs[i].Typ = protowire.VarintType
			fs[i].Val = rnd.next()
		}
		return PBBuild(fs), pre + "pb-change-wire-type"
	default:
		out := append([]PBField(nil), fs...)
		for i := len(out) - 1; i > 0; i-- {
			j := rnd.n(i + 1)
			out[i], out[j] = out[j], out[i]
		}
		return PBBuild(out), pre + "pb-reorder-fields"
	}
}

func mutAddField(rnd *mutRand, msg []byte) []byte {
	num := protowire.Number(1 + rnd.n(8))
	var f []byte
	if rnd.n(2) == 1 {
		f = protowire.AppendTag(f, num, protowire.BytesType)
		f = protowire.AppendBytes(f, rnd.bytes(rnd.n(40)))
	} else {
		f = protowire.AppendTag(f, num, protowire.VarintType)
		f = protowire.AppendVarint(f, hostileVarints[rnd.n(len(hostileVarints))].v)
	}
	if rnd.n(2) == 1 {
		return append(f, msg...)
	}
	return append(append([]byte(nil), msg...), f...)
}

// Mutate draws one recipe and applies it: ONE tape-chosen corruption of valid
// and the stable name of what was done.
func Mutate(tp *verifsim.Tape, valid []byte) (mutated []byte, kind string) {
	return DrawRecipe(tp).Apply(valid)
}
