package verifadapt

import (
	"context"
	"crypto/elliptic"
	"fmt"
	"sync"

	"github.com/keep-network/keep-core/pkg/net"
	"github.com/keep-network/keep-core/pkg/net/retransmission"
	"github.com/keep-network/keep-core/pkg/operator"
)

// Envelope is what travels on the simulated wire: the marshalled payload, its
// type tag, the sequence number and the *authenticated* sender (the node that
// really published it - what libp2p's outer pubsub layer guarantees).
type Envelope struct {
	From     int // node index of the real publisher
	Channel  string
	Type     string
	Payload  []byte
	Seqno    uint64
	Ctx      context.Context // retransmission lifetime given by the sender
	Strategy net.RetransmissionStrategy
	Sent     net.TaggedMarshaler // the value as passed to Send (for round-trip oracles)
	NodeSeq  uint64              // program order inside the sending node
}

// Net is the simulated broadcast network. Nodes never touch the tape: Send
// only queues into the sender's outbox; the simulator drains outboxes at
// quiescence in (node, program order) and decides every delivery.
type Net struct {
	mu    sync.Mutex
	Nodes []*NetNode
	// Dropped counts undecodable / filtered deliveries by reason.
	Dropped map[string]int
	// OnUnmarshalPanic, if set, receives panics raised by an Unmarshal call.
	OnUnmarshalPanic func(to int, typ string, p interface{})
}

type transportID string

func (t transportID) String() string { return string(t) }

// NetNode is one network participant; it implements net.Provider.
type NetNode struct {
	Index    int
	Net      *Net
	Priv     *operator.PrivateKey
	Pub      *operator.PublicKey
	PubBytes []byte
	id       transportID

	mu       sync.Mutex
	channels map[string]*Chan
	outbox   []*Envelope
	nodeSeq  uint64
}

// Message implements net.Message.
type Message struct {
	Sender     transportID
	SenderKey  []byte
	Body       interface{}
	Typ        string
	SeqNo      uint64
	FromNode   int
	OrigSeqEnv *Envelope
}

func (m *Message) TransportSenderID() net.TransportIdentifier { return m.Sender }
func (m *Message) SenderPublicKey() []byte                    { return m.SenderKey }
func (m *Message) Payload() interface{}                       { return m.Body }
func (m *Message) Type() string                               { return m.Typ }
func (m *Message) Seqno() uint64                              { return m.SeqNo }

func NewNet() *Net { return &Net{Dropped: map[string]int{}} }

// AddNode creates a node with a fresh operator key on the given curve.
func (n *Net) AddNode(curve elliptic.Curve) *NetNode {
	priv, pub, err := operator.GenerateKeyPair(curve)
	if err != nil {
		panic(err)
	}
	return n.AddNodeWithKey(priv, pub)
}

func (n *Net) AddNodeWithKey(priv *operator.PrivateKey, pub *operator.PublicKey) *NetNode {
	n.mu.Lock()
	defer n.mu.Unlock()
	nn := &NetNode{Index: len(n.Nodes), Net: n, Priv: priv, Pub: pub,
		PubBytes: operator.MarshalUncompressed(pub), channels: map[string]*Chan{}}
	nn.id = transportID(fmt.Sprintf("simnode-%d", nn.Index))
	n.Nodes = append(n.Nodes, nn)
	return nn
}

func (nn *NetNode) ID() net.TransportIdentifier { return nn.id }
func (nn *NetNode) Type() string                { return "sim" }
func (nn *NetNode) BroadcastChannelFor(name string) (net.BroadcastChannel, error) {
	return nn.Channel(name), nil
}
func (nn *NetNode) ConnectionManager() net.ConnectionManager { return nil }
func (nn *NetNode) CreateTransportIdentifier(pk *operator.PublicKey) (net.TransportIdentifier, error) {
	b := operator.MarshalUncompressed(pk)
	for _, o := range nn.Net.Nodes {
		if string(o.PubBytes) == string(b) {
			return o.id, nil
		}
	}
	return transportID("unknown"), nil
}
func (nn *NetNode) BroadcastChannelForwarderFor(name string) {}

// Channel returns (creating if needed) the node's endpoint of a channel.
func (nn *NetNode) Channel(name string) *Chan {
	nn.mu.Lock()
	defer nn.mu.Unlock()
	c, ok := nn.channels[name]
	if !ok {
		c = &Chan{node: nn, name: name, unmarshalers: map[string]func() net.TaggedUnmarshaler{}}
		nn.channels[name] = c
	}
	return c
}

// Chan implements net.BroadcastChannel.
type Chan struct {
	node *NetNode
	name string

	mu           sync.Mutex
	seqno        uint64
	unmarshalers map[string]func() net.TaggedUnmarshaler
	handlers     []*chanHandler
	filter       net.BroadcastChannelFilter
	// SendErr, if set, makes Send fail (transport error) without publishing.
	SendErr func() error
}

type chanHandler struct {
	ctx context.Context
	fn  func(net.Message)
}

func (c *Chan) Name() string { return c.name }

func (c *Chan) Send(ctx context.Context, m net.TaggedMarshaler, strategy ...net.RetransmissionStrategy) error {
	payload, err := m.Marshal()
	if err != nil {
		return err
	}
	c.mu.Lock()
	if c.SendErr != nil {
		if err := c.SendErr(); err != nil {
			c.mu.Unlock()
			return err
		}
	}
	c.seqno++
	seq := c.seqno
	c.mu.Unlock()
	st := net.StandardRetransmissionStrategy
	if len(strategy) == 1 {
		st = strategy[0]
	}
	nn := c.node
	nn.mu.Lock()
	nn.nodeSeq++
	nn.outbox = append(nn.outbox, &Envelope{From: nn.Index, Channel: c.name, Type: m.Type(), Payload: payload,
		Seqno: seq, Ctx: ctx, Strategy: st, Sent: m, NodeSeq: nn.nodeSeq})
	nn.mu.Unlock()
	return nil
}

func (c *Chan) Recv(ctx context.Context, handler func(m net.Message)) {
	h := &chanHandler{ctx: ctx, fn: retransmission.WithRetransmissionSupport(handler)}
	c.mu.Lock()
	// prune dead handlers
	live := c.handlers[:0]
	for _, x := range c.handlers {
		if x.ctx.Err() == nil {
			live = append(live, x)
		}
	}
	c.handlers = append(live, h)
	c.mu.Unlock()
}

func (c *Chan) SetUnmarshaler(u func() net.TaggedUnmarshaler) {
	t := u().Type()
	c.mu.Lock()
	c.unmarshalers[t] = u
	c.mu.Unlock()
}

func (c *Chan) SetFilter(f net.BroadcastChannelFilter) error {
	c.mu.Lock()
	c.filter = f
	c.mu.Unlock()
	return nil
}

// HandlerCount is the number of live handlers.
func (c *Chan) HandlerCount() int {
	c.mu.Lock()
	defer c.mu.Unlock()
	n := 0
	for _, h := range c.handlers {
		if h.ctx.Err() == nil {
			n++
		}
	}
	return n
}

// Drain returns all envelopes queued by nodes since the last call, in
// canonical (node index, program order) order.
func (n *Net) Drain() []*Envelope {
	var out []*Envelope
	for _, nn := range n.Nodes {
		nn.mu.Lock()
		out = append(out, nn.outbox...)
		nn.outbox = nil
		nn.mu.Unlock()
	}
	return out
}

func (n *Net) drop(reason string) {
	n.mu.Lock()
	n.Dropped[reason]++
	n.mu.Unlock()
}

// Decode unmarshals env for receiver `to` exactly as the libp2p channel would
// (per-receiver fresh unmarshaler looked up by type). ok=false => dropped.
func (n *Net) Decode(env *Envelope, to int) (msg *Message, ok bool) {
	rc := n.Nodes[to].Channel(env.Channel)
	rc.mu.Lock()
	mk, found := rc.unmarshalers[env.Type]
	filter := rc.filter
	rc.mu.Unlock()
	sender := n.Nodes[env.From]
	if filter != nil && !filter(sender.Pub) {
		n.drop("filtered")
		return nil, false
	}
	if !found {
		n.drop("no-unmarshaler")
		return nil, false
	}
	u := mk()
	var uerr error
	func() {
		defer func() {
			if p := recover(); p != nil {
				uerr = fmt.Errorf("panic in Unmarshal: %v", p)
				if n.OnUnmarshalPanic != nil {
					n.OnUnmarshalPanic(to, env.Type, p)
				}
			}
		}()
		uerr = u.Unmarshal(env.Payload)
	}()
	if uerr != nil {
		n.drop("unmarshal-error")
		return nil, false
	}
	return &Message{Sender: sender.id, SenderKey: sender.PubBytes, Body: u, Typ: env.Type,
		SeqNo: env.Seqno, FromNode: env.From, OrigSeqEnv: env}, true
}

// Deliver hands env to every live handler of receiver `to`, in a new goroutine
// (a handler may block on a full buffer; the caller follows with
// synctest.Wait()). It returns the number of handlers invoked (0 if dropped).
func (n *Net) Deliver(env *Envelope, to int) int {
	msg, ok := n.Decode(env, to)
	if !ok {
		return 0
	}
	rc := n.Nodes[to].Channel(env.Channel)
	rc.mu.Lock()
	hs := []*chanHandler{}
	for _, h := range rc.handlers {
		if h.ctx.Err() == nil {
			hs = append(hs, h)
		}
	}
	rc.mu.Unlock()
	if len(hs) == 0 {
		n.drop("no-handler")
		return 0
	}
	go func() {
		for _, h := range hs {
			if h.ctx.Err() != nil {
				continue
			}
			h.fn(msg)
		}
	}()
	return len(hs)
}

// DeliverBatch hands the envelopes, in the given order, to receiver `to` from
// ONE new goroutine (so their relative order is preserved). Follow with
// synctest.Wait(). Returns how many envelopes were decodable and had a handler.
func (n *Net) DeliverBatch(envs []*Envelope, to int) int {
	type item struct {
		msg *Message
		hs  []*chanHandler
	}
	var items []item
	for _, env := range envs {
		msg, ok := n.Decode(env, to)
		if !ok {
			continue
		}
		rc := n.Nodes[to].Channel(env.Channel)
		rc.mu.Lock()
		hs := []*chanHandler{}
		for _, h := range rc.handlers {
			if h.ctx.Err() == nil {
				hs = append(hs, h)
			}
		}
		rc.mu.Unlock()
		if len(hs) == 0 {
			n.drop("no-handler")
			continue
		}
		items = append(items, item{msg, hs})
	}
	if len(items) == 0 {
		return 0
	}
	go func() {
		for _, it := range items {
			for _, h := range it.hs {
				if h.ctx.Err() != nil {
					continue
				}
				h.fn(it.msg)
			}
		}
	}()
	return len(items)
}
