package verifadapt

// C37 engine shared by the two deduplicator harnesses (pkg/tbtc and
// pkg/beacon/event): delivers events from several goroutines whose
// interleaving at the instrumented TimeCache boundaries is decided by the
// tape, moves the bubble's fake clock between and inside deliveries, and
// checks "exactly one delivery handled per distinct event per caching period;
// distinct events never mistaken for one another" over the recorded
// invoke/return history.

import (
	"fmt"
	"sync"
	"testing/synctest"
	"time"

	"github.com/keep-network/keep-common/pkg/cache"

	"verifsim"
)

// C37Event is one distinct chain event. Two entries of C37Config.Events are
// different events by construction (they differ in at least one field).
type C37Event struct {
	Desc    string      // deterministic human-readable description
	Deliver func() bool // calls the notify function under test with this event
}

// C37Config describes one run.
type C37Config struct {
	Func   string        // e.g. "tbtc.notifyDKGStarted" (goes into violation classes)
	Period time.Duration // the caching period of that event kind
	Events []C37Event
	// MakeBurst, if set, returns n further events, distinct from each other
	// and from Events, derived only from base. They are used by the final
	// ungated batch (truly parallel deliveries, scheduled by Go).
	MakeBurst func(base uint64, n int) []C37Event
}

type c37Op struct {
	id         int
	ev         int
	round      int
	ti, tr     time.Duration // fake-clock offsets of invoke / return
	seqI, seqR uint64
	done       bool
	res        bool
	panicked   string
}

// C37Run executes the schedule and the oracle. Must be called inside a bubble.
func C37Run(r *verifsim.Run, cfg C37Config) {
	tp := r.T
	gates := verifsim.NewGates()
	cache.YieldHook = func(site string) { gates.Point(site) }
	defer func() {
		cache.YieldHook = nil
		gates.ReleaseAll()
	}()
	start := time.Now()
	P := cfg.Period
	var mu sync.Mutex
	var ops []*c37Op

	jump := func(label string) time.Duration {
		var d time.Duration
		switch tp.Weighted(label, 5, 2, 2, 2, 2, 2, 2) {
		case 0:
			return 0
		case 1:
			d = time.Duration(1+tp.Choose("jump-seconds", 3600)) * time.Second
		case 2:
			d = P / 2
		case 3:
			d = P - time.Nanosecond
		case 4:
			d = P
		case 5:
			d = P + time.Nanosecond
		case 6:
			d = P + time.Duration(1+tp.Choose("jump-extra-hours", 24*14))*time.Hour
		}
		time.Sleep(d)
		r.AddSim(int64(d), 0)
		return d
	}

	rounds := 1 + tp.Choose("rounds", 3)
	for round := 0; round < rounds; round++ {
		if round > 0 {
			d := jump("round-jump")
			if d > 0 {
				r.Logf("clock +%v (between rounds) now=%v", d, time.Since(start))
				if d > P {
					r.Fault("clock-jump-over-period")
				} else {
					r.Fault("clock-jump-within-period")
				}
			}
		}
		k := 1 + tp.Choose("deliveries", 4)
		roundOps := make([]*c37Op, k)
		for i := 0; i < k; i++ {
			op := &c37Op{id: len(ops), ev: tp.Choose("event", len(cfg.Events)), round: round}
			ops = append(ops, op)
			roundOps[i] = op
			label := fmt.Sprintf("r%d-g%02d", round, i)
			ev := cfg.Events[op.ev]
			go func() {
				gates.Enter(label)
				defer gates.Leave()
				gates.Point("start")
				mu.Lock()
				op.ti, op.seqI = time.Since(start), r.Seq()
				mu.Unlock()
				var res bool
				var pan string
				func() {
					defer func() {
						if p := recover(); p != nil {
							pan = fmt.Sprint(p)
						}
					}()
					res = ev.Deliver()
				}()
				mu.Lock()
				op.tr, op.seqR, op.res, op.done, op.panicked = time.Since(start), r.Seq(), res, true, pan
				mu.Unlock()
			}()
		}
		r.Logf("round %d: %d deliveries events=%v", round, k, func() []int {
			o := []int{}
			for _, op := range roundOps {
				o = append(o, op.ev)
			}
			return o
		}())
		steps := 0
		for {
			synctest.Wait()
			parked := gates.List()
			if len(parked) == 0 {
				break
			}
			steps++
			if steps > 200 {
				r.Inconclusive("step-cap")
				return
			}
			r.Step()
			inside := 0
			for _, p := range parked {
				if p.Site != "start" {
					inside++
				}
			}
			if inside > 0 && tp.Chance("mid-op-jump", 1, 12) {
				d := jump("mid-jump")
				if d > 0 {
					r.Fault("mid-op-clock-jump")
					r.Logf("clock +%v (deliveries in flight) now=%v", d, time.Since(start))
				}
			}
			i := tp.Choose("sched", len(parked))
			if i != 0 {
				r.Fault("interleave")
			}
			// reach probe: two deliveries of the same event are both past the
			// membership check and before the insertion
			if parked[i].Site == "TimeCache.Add" {
				var me *c37Op
				for j, op := range roundOps {
					if fmt.Sprintf("r%d-g%02d", round, j) == parked[i].Label {
						me = op
					}
				}
				for j, op := range roundOps {
					l := fmt.Sprintf("r%d-g%02d", round, j)
					for _, p := range parked {
						if p.Label == l && l != parked[i].Label && p.Site == "TimeCache.Add" && me != nil && op.ev == me.ev {
							r.Probe("two-same-event-deliveries-between-check-and-insert")
						}
					}
				}
			}
			r.Logf("run %s from %s", parked[i].Label, parked[i].Site)
			gates.Release(parked[i].Label)
		}
		mu.Lock()
		for _, op := range roundOps {
			r.Logf("op %d ev=%d -> %v [%v..%v]", op.id, op.ev, op.res, op.ti, op.tr)
		}
		mu.Unlock()
	}

	if !c37Judge(r, cfg, ops, &mu) {
		return
	}
	if cfg.MakeBurst != nil && tp.Chance("ungated-batch", 2, 3) {
		c37Ungated(r, cfg)
	}
}

// c37Ungated: G goroutines, started by one close(startCh), each deliver all
// burst events (rotated order) with no gate, no hook and no harness
// synchronisation between them, so that the race detector judges the
// deduplicator's own synchronisation and Go schedules the calls in parallel.
// Outcomes are not logged (they may legitimately differ between replays); the
// judged clause is order-independent: every distinct event is accepted exactly
// once (all deliveries happen at one instant of the fake clock, the events
// were never delivered before).
const (
	c37UngatedPasses = 8
	c37UngatedReps   = 6
)

func c37Ungated(r *verifsim.Run, cfg C37Config) {
	tp := r.T
	g := 4 + tp.Choose("ungated-goroutines", 5)
	n := 4 + tp.Choose("ungated-events", 9)
	base := tp.Uint64("burst-base")
	cache.YieldHook = nil
	r.Fault("ungated-parallel-batch")
	r.Logf("ungated batches: %d goroutines x %d distinct events", g, n)
	// the batch is repeated with fresh events: whether a scheduling-dependent
	// defect shows in one batch is up to Go's scheduler; on code that holds the
	// property every repetition passes
	for rep := 0; rep < c37UngatedReps && !r.Failed(); rep++ {
		evs := cfg.MakeBurst(verifsim.Mix(base, uint64(rep)), n)
		if len(evs) < 2 {
			return
		}
		c37UngatedOnce(r, cfg, g, evs)
	}
}

func c37UngatedOnce(r *verifsim.Run, cfg C37Config, g int, evs []C37Event) {
	startCh := make(chan struct{})
	var wg sync.WaitGroup
	res := make([][]int, g)
	pans := make([]string, g)
	for i := 0; i < g; i++ {
		res[i] = make([]int, len(evs))
		wg.Add(1)
		go func(i int) {
			defer wg.Done()
			defer func() {
				if p := recover(); p != nil {
					pans[i] = fmt.Sprint(p)
				}
			}()
			<-startCh
			// several passes, so that the goroutines certainly overlap in time;
			// only the first pass can be accepted, later ones are duplicates
			off := i * len(evs) / g
			for pass := 0; pass < c37UngatedPasses; pass++ {
				for j := range evs {
					k := (j + off + pass) % len(evs)
					if evs[k].Deliver() {
						res[i][k]++
					}
				}
			}
		}(i)
	}
	synctest.Wait()
	close(startCh)
	wg.Wait()
	for i := range pans {
		if pans[i] != "" {
			r.Failf("C37:panic:"+cfg.Func, "parallel delivery panicked: %s", pans[i])
			return
		}
	}
	for k, ev := range evs {
		trues := 0
		for i := 0; i < g; i++ {
			trues += res[i][k]
		}
		switch {
		case trues == 0:
			r.Failf("C37:parallel-lost-event:"+cfg.Func, "ungated batch (%d goroutines x %d distinct events): event {%s} was delivered %d times and never accepted", g, len(evs), ev.Desc, g*c37UngatedPasses)
			return
		case trues > 1:
			r.Failf("C37:parallel-double-accept:"+cfg.Func, "ungated batch (%d goroutines x %d distinct events): event {%s} was accepted %d times within one instant", g, len(evs), ev.Desc, trues)
			return
		}
	}
}

// c37Judge is the oracle over the gated history. Returns false if the run is over.
func c37Judge(r *verifsim.Run, cfg C37Config, ops []*c37Op, mu *sync.Mutex) bool {
	P := cfg.Period
	mu.Lock()
	defer mu.Unlock()
	for _, op := range ops {
		if !op.done {
			r.Inconclusive("delivery-not-finished")
			return false
		}
		if op.panicked != "" {
			r.Failf("C37:panic:"+cfg.Func, "delivery of event %s panicked: %s", cfg.Events[op.ev].Desc, op.panicked)
			return false
		}
	}
	// (A) at most one delivery of one event handled within a caching period
	for i, a := range ops {
		for _, b := range ops[i+1:] {
			if a.ev != b.ev || !a.res || !b.res {
				continue
			}
			lo, hi := a.ti, a.tr
			if b.ti < lo {
				lo = b.ti
			}
			if b.tr > hi {
				hi = b.tr
			}
			if hi-lo < P {
				conc := a.seqI < b.seqR && b.seqI < a.seqR
				r.Failf("C37:double-accept:"+cfg.Func,
					"event {%s} was accepted twice within one caching period (%v): delivery #%d [%v..%v] and delivery #%d [%v..%v] both returned true (overlapping calls: %v)",
					cfg.Events[a.ev].Desc, P, a.id, a.ti, a.tr, b.id, b.ti, b.tr, conc)
				return false
			}
		}
	}
	// (B) a rejected delivery must be a duplicate of an accepted delivery of
	// the SAME event that can still be inside its caching period
	for _, x := range ops {
		if x.res {
			continue
		}
		justified := false
		sameEverAccepted := false
		otherAccepted := -1
		for _, y := range ops {
			if y == x || !y.res || y.seqI > x.seqR {
				continue
			}
			if y.ev != x.ev {
				// a different event whose acceptance may still be cached
				if otherAccepted < 0 && x.ti-y.tr <= P {
					otherAccepted = y.ev
				}
				continue
			}
			sameEverAccepted = true
			if x.ti-y.tr <= P {
				justified = true
			}
		}
		if justified {
			continue
		}
		switch {
		case otherAccepted >= 0:
			// the only cached acceptance that can explain the rejection
			// belongs to a different event
			r.Failf("C37:key-collision:"+cfg.Func,
				"delivery #%d of event {%s} at %v returned false although no accepted delivery of this event can still be cached (ever accepted before: %v); a DIFFERENT event {%s} had been accepted within the caching period - the two were mistaken for one another",
				x.id, cfg.Events[x.ev].Desc, x.ti, sameEverAccepted, cfg.Events[otherAccepted].Desc)
		case sameEverAccepted:
			r.Failf("C37:rejected-after-period:"+cfg.Func,
				"delivery #%d of event {%s} at %v returned false although every accepted delivery of that event is older than the caching period %v",
				x.id, cfg.Events[x.ev].Desc, x.ti, P)
		default:
			r.Failf("C37:first-delivery-rejected:"+cfg.Func,
				"delivery #%d of event {%s} returned false although nothing had been accepted before", x.id, cfg.Events[x.ev].Desc)
		}
		return false
	}
	return true
}
