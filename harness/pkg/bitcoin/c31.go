package bitcoin

// C31: SPV proof assembly over simulated Bitcoin chain histories.
//
// The real AssembleSpvProof runs against c31SimBitcoin, a bitcoin.Chain over a
// real block / merkle-tree / header model (hash-linked 80-byte headers, blocks
// of 1..40 transactions, own transaction serialiser so that transaction ids
// do not depend on the code under test). Every query of the assembler first
// passes through beforeQuery, in which the tape may mine blocks or inject a
// query error: chain growth between ANY two queries is the schedule space.
// The oracle is an independent verifier written after the Bridge's rules plus
// ground-truth checks against the model.

import (
	"bytes"
	"crypto/sha256"
	"encoding/binary"
	"encoding/hex"
	"fmt"
	"testing"

	"verifsim"
)

// ---- independent primitives (no call into the code under test) ----

func c31DSha(b []byte) Hash {
	a := sha256.Sum256(b)
	return sha256.Sum256(a[:])
}

func c31VarInt(buf *bytes.Buffer, n int) {
	if n < 0xfd {
		buf.WriteByte(byte(n))
		return
	}
	buf.WriteByte(0xfd)
	var b [2]byte
	binary.LittleEndian.PutUint16(b[:], uint16(n))
	buf.Write(b[:])
}

// c31RawTx is the legacy ("standard") serialisation of a transaction:
// version | inputs | outputs | locktime, without marker/flag/witness.
func c31RawTx(tx *Transaction) []byte {
	var buf bytes.Buffer
	var b4 [4]byte
	var b8 [8]byte
	binary.LittleEndian.PutUint32(b4[:], uint32(tx.Version))
	buf.Write(b4[:])
	c31VarInt(&buf, len(tx.Inputs))
	for _, in := range tx.Inputs {
		buf.Write(in.Outpoint.TransactionHash[:])
		binary.LittleEndian.PutUint32(b4[:], in.Outpoint.OutputIndex)
		buf.Write(b4[:])
		c31VarInt(&buf, len(in.SignatureScript))
		buf.Write(in.SignatureScript)
		binary.LittleEndian.PutUint32(b4[:], in.Sequence)
		buf.Write(b4[:])
	}
	c31VarInt(&buf, len(tx.Outputs))
	for _, out := range tx.Outputs {
		binary.LittleEndian.PutUint64(b8[:], uint64(out.Value))
		buf.Write(b8[:])
		c31VarInt(&buf, len(out.PublicKeyScript))
		buf.Write(out.PublicKeyScript)
	}
	binary.LittleEndian.PutUint32(b4[:], tx.Locktime)
	buf.Write(b4[:])
	return buf.Bytes()
}

func c31ReverseHex(h Hash) string {
	var r [32]byte
	for i := 0; i < 32; i++ {
		r[i] = h[31-i]
	}
	return hex.EncodeToString(r[:])
}

// ---- the chain model ----

type c31Tx struct {
	tx  *Transaction
	raw []byte
	id  Hash
}

type c31Block struct {
	height uint
	txs    []*c31Tx
	levels [][]Hash // levels[0] = txids ... last = [root]
	raw    [80]byte
	hash   Hash
	hdr    *BlockHeader
}

type c31SimBitcoin struct {
	r      *verifsim.Run
	base   uint // height of blocks[0]
	blocks []*c31Block
	where  map[Hash]uint // txid -> height
	txs    map[Hash]*c31Tx

	// schedule / fault switches of this run
	growth   bool
	errors   bool
	inOp     bool
	nQuery   int
	lastQ    string
	minedOp  int  // blocks mined during the operation
	erredOp  bool // a query error was injected during the operation
	afterCnf bool // confirmations were read, latest height not yet
	entropy  uint64
}

func (c *c31SimBitcoin) tip() uint { return c.base + uint(len(c.blocks)) - 1 }

func (c *c31SimBitcoin) block(h uint) *c31Block {
	if h < c.base || h > c.tip() {
		return nil
	}
	return c.blocks[h-c.base]
}

type c31Rand struct{ x uint64 }

func (g *c31Rand) next() uint64 {
	g.x += 0x9e3779b97f4a7c15
	z := g.x
	z = (z ^ (z >> 30)) * 0xbf58476d1ce4e5b9
	z = (z ^ (z >> 27)) * 0x94d049bb133111eb
	return z ^ (z >> 31)
}
func (g *c31Rand) n(n int) int { return int(g.next() % uint64(n)) }
func (g *c31Rand) bytes(n int) []byte {
	out := make([]byte, n)
	for i := range out {
		out[i] = byte(g.next())
	}
	return out
}

func c31GenTx(g *c31Rand, coinbase bool, witness bool) *c31Tx {
	tx := &Transaction{Version: int32(1 + g.n(2)), Locktime: uint32(g.n(3)) * 500000}
	nIn := 1 + g.n(3)
	if coinbase {
		nIn = 1
	}
	for i := 0; i < nIn; i++ {
		in := &TransactionInput{Outpoint: &TransactionOutpoint{}, Sequence: 0xffffffff - uint32(g.n(2))}
		if coinbase {
			in.Outpoint.OutputIndex = 0xffffffff
			in.SignatureScript = g.bytes(4 + g.n(40))
			if witness {
				in.Witness = [][]byte{g.bytes(32)}
			}
		} else {
			copy(in.Outpoint.TransactionHash[:], g.bytes(32))
			in.Outpoint.OutputIndex = uint32(g.n(4))
			if witness && g.n(3) != 0 {
				in.Witness = [][]byte{g.bytes(71 + g.n(2)), g.bytes(33)}
			} else {
				in.SignatureScript = g.bytes(20 + g.n(200))
			}
		}
		tx.Inputs = append(tx.Inputs, in)
	}
	nOut := 1 + g.n(3)
	for i := 0; i < nOut; i++ {
		var script []byte
		switch g.n(3) {
		case 0: // P2PKH
			script = append([]byte{0x76, 0xa9, 0x14}, g.bytes(20)...)
			script = append(script, 0x88, 0xac)
		case 1: // P2WPKH
			script = append([]byte{0x00, 0x14}, g.bytes(20)...)
		default: // P2WSH
			script = append([]byte{0x00, 0x20}, g.bytes(32)...)
		}
		tx.Outputs = append(tx.Outputs, &TransactionOutput{Value: int64(g.next() % 2100000000000000), PublicKeyScript: script})
	}
	raw := c31RawTx(tx)
	return &c31Tx{tx: tx, raw: raw, id: c31DSha(raw)}
}

// mine appends one block with nTx transactions (the first is the coinbase).
func (c *c31SimBitcoin) mine(nTx int, seed uint64, witnessCoinbase bool) *c31Block {
	g := &c31Rand{x: seed}
	b := &c31Block{height: c.base + uint(len(c.blocks))}
	for i := 0; i < nTx; i++ {
		var t *c31Tx
		for {
			t = c31GenTx(g, i == 0, (i == 0 && witnessCoinbase) || (i > 0 && g.n(2) == 0))
			if _, dup := c.txs[t.id]; !dup {
				break
			}
		}
		b.txs = append(b.txs, t)
		c.txs[t.id] = t
		c.where[t.id] = b.height
	}
	level := make([]Hash, nTx)
	for i, t := range b.txs {
		level[i] = t.id
	}
	b.levels = append(b.levels, level)
	for len(level) > 1 {
		if len(level)%2 == 1 {
			level = append(append([]Hash(nil), level...), level[len(level)-1])
		}
		up := make([]Hash, len(level)/2)
		for i := range up {
			up[i] = c31DSha(append(append([]byte(nil), level[2*i][:]...), level[2*i+1][:]...))
		}
		b.levels = append(b.levels, up)
		level = up
	}
	root := level[0]
	var prev Hash
	if len(c.blocks) > 0 {
		prev = c.blocks[len(c.blocks)-1].hash
	} else {
		copy(prev[:], g.bytes(32))
	}
	// 80-byte header, written here byte by byte (not through BlockHeader.Serialize)
	binary.LittleEndian.PutUint32(b.raw[0:], 0x20000000+uint32(g.n(8)))
	copy(b.raw[4:36], prev[:])
	copy(b.raw[36:68], root[:])
	binary.LittleEndian.PutUint32(b.raw[68:], 1700000000+uint32(b.height)*600+uint32(g.n(600)))
	binary.LittleEndian.PutUint32(b.raw[72:], 0x1703ffff-uint32(g.n(1000)))
	binary.LittleEndian.PutUint32(b.raw[76:], uint32(g.next()))
	b.hash = c31DSha(b.raw[:])
	b.hdr = &BlockHeader{
		Version:                 int32(binary.LittleEndian.Uint32(b.raw[0:])),
		PreviousBlockHeaderHash: prev,
		MerkleRootHash:          root,
		Time:                    binary.LittleEndian.Uint32(b.raw[68:]),
		Bits:                    binary.LittleEndian.Uint32(b.raw[72:]),
		Nonce:                   binary.LittleEndian.Uint32(b.raw[76:]),
	}
	c.blocks = append(c.blocks, b)
	return b
}

// c31TxCount draws a block size in 1..40 favouring small and odd-level trees.
func c31TxCount(tp *verifsim.Tape, label string) int {
	switch tp.Weighted(label, 3, 2, 2, 3) {
	case 0:
		return 1 + tp.Choose(label+"-small", 4) // 1..4
	case 1:
		return []int{3, 5, 6, 7, 9, 11, 13, 17, 33}[tp.Choose(label+"-odd", 9)]
	case 2:
		return []int{2, 4, 8, 16, 32}[tp.Choose(label+"-pow2", 5)]
	default:
		return 1 + tp.Choose(label+"-any", 40)
	}
}

func (c *c31SimBitcoin) mineByTape(label string) *c31Block {
	tp := c.r.T
	n := c31TxCount(tp, label+"-ntx")
	seed := tp.Uint64(label + "-seed")
	b := c.mine(n, seed, tp.Chance(label+"-wcb", 1, 2))
	c.r.AddSim(0, 1)
	return b
}

// beforeQuery is the scheduling point in front of every chain query.
func (c *c31SimBitcoin) beforeQuery(name string) error {
	c.nQuery++
	c.lastQ = name
	tp := c.r.T
	if c.growth {
		n := tp.Weighted("mine-before", 12, 3, 1, 1)
		for i := 0; i < n; i++ {
			b := c.mineByTape("grow")
			c.r.Logf("mine height=%d ntx=%d before query #%d %s", b.height, len(b.txs), c.nQuery, name)
		}
		if n > 0 && c.inOp {
			c.minedOp += n
			c.r.Fault("block-mined-during-assembly")
			if c.afterCnf {
				c.r.Probe("mined-between-confirmations-and-height")
			}
		}
	}
	if c.errors && tp.Chance("query-error", 1, 30) {
		if c.inOp {
			c.erredOp = true
		}
		c.r.Fault("query-error")
		c.r.Logf("query #%d %s -> injected error", c.nQuery, name)
		return fmt.Errorf("c31: injected query error at %s", name)
	}
	return nil
}

func (c *c31SimBitcoin) GetTransaction(h Hash) (*Transaction, error) {
	if err := c.beforeQuery("GetTransaction"); err != nil {
		return nil, err
	}
	t, ok := c.txs[h]
	if !ok {
		return nil, fmt.Errorf("transaction not found")
	}
	c.r.Logf("q GetTransaction tx@%d", c.where[h])
	return t.tx, nil
}

func (c *c31SimBitcoin) GetTransactionConfirmations(h Hash) (uint, error) {
	if err := c.beforeQuery("GetTransactionConfirmations"); err != nil {
		return 0, err
	}
	at, ok := c.where[h]
	if !ok {
		return 0, fmt.Errorf("transaction not found")
	}
	c.afterCnf = true
	conf := c.tip() - at + 1
	c.r.Logf("q GetTransactionConfirmations -> %d (tip %d)", conf, c.tip())
	return conf, nil
}

func (c *c31SimBitcoin) GetLatestBlockHeight() (uint, error) {
	if err := c.beforeQuery("GetLatestBlockHeight"); err != nil {
		return 0, err
	}
	c.afterCnf = false
	c.r.Logf("q GetLatestBlockHeight -> %d", c.tip())
	return c.tip(), nil
}

func (c *c31SimBitcoin) GetBlockHeader(height uint) (*BlockHeader, error) {
	if err := c.beforeQuery("GetBlockHeader"); err != nil {
		return nil, err
	}
	b := c.block(height)
	if b == nil {
		c.r.Logf("q GetBlockHeader %d -> not found", height)
		return nil, fmt.Errorf("block header at height %d not found", height)
	}
	c.r.Logf("q GetBlockHeader %d", height)
	cp := *b.hdr
	return &cp, nil
}

func (c *c31SimBitcoin) GetTransactionMerkleProof(h Hash, height uint) (*TransactionMerkleProof, error) {
	if err := c.beforeQuery("GetTransactionMerkleProof"); err != nil {
		return nil, err
	}
	b := c.block(height)
	if b == nil {
		c.r.Logf("q GetTransactionMerkleProof height=%d -> no such block", height)
		return nil, fmt.Errorf("block at height %d not found", height)
	}
	pos := -1
	for i, t := range b.txs {
		if t.id == h {
			pos = i
		}
	}
	if pos < 0 {
		// ElectrumX: "tx hash ... not in block ... at height ..."
		c.r.Logf("q GetTransactionMerkleProof height=%d -> tx not in block", height)
		c.r.Probe("merkle-proof-asked-for-wrong-block")
		return nil, fmt.Errorf("tx %s not in block at height %d", c31ReverseHex(h), height)
	}
	var nodes []string
	idx := pos
	for l := 0; l < len(b.levels)-1; l++ {
		lv := b.levels[l]
		sib := idx ^ 1
		if sib >= len(lv) {
			sib = idx // odd level: last node paired with itself
		}
		nodes = append(nodes, c31ReverseHex(lv[sib]))
		idx >>= 1
	}
	c.r.Logf("q GetTransactionMerkleProof height=%d -> pos %d depth %d", height, pos, len(nodes))
	return &TransactionMerkleProof{BlockHeight: height, MerkleNodes: nodes, Position: uint(pos)}, nil
}

func (c *c31SimBitcoin) GetCoinbaseTxHash(height uint) (Hash, error) {
	if err := c.beforeQuery("GetCoinbaseTxHash"); err != nil {
		return Hash{}, err
	}
	b := c.block(height)
	if b == nil {
		c.r.Logf("q GetCoinbaseTxHash %d -> not found", height)
		return Hash{}, fmt.Errorf("block at height %d not found", height)
	}
	c.r.Logf("q GetCoinbaseTxHash %d", height)
	return b.txs[0].id, nil
}

func (c *c31SimBitcoin) BroadcastTransaction(*Transaction) error { panic("c31: not used") }
func (c *c31SimBitcoin) GetTransactionsForPublicKeyHash([20]byte, int) ([]*Transaction, error) {
	panic("c31: not used")
}
func (c *c31SimBitcoin) GetTxHashesForPublicKeyHash([20]byte) ([]Hash, error) {
	panic("c31: not used")
}
func (c *c31SimBitcoin) GetMempoolForPublicKeyHash([20]byte) ([]*Transaction, error) {
	panic("c31: not used")
}
func (c *c31SimBitcoin) GetUtxosForPublicKeyHash([20]byte) ([]*UnspentTransactionOutput, error) {
	panic("c31: not used")
}
func (c *c31SimBitcoin) GetMempoolUtxosForPublicKeyHash([20]byte) ([]*UnspentTransactionOutput, error) {
	panic("c31: not used")
}
func (c *c31SimBitcoin) EstimateSatPerVByteFee(uint32) (int64, error) { panic("c31: not used") }

// ---- independent verifier (after Bridge.validateProof / ValidateSPV.prove) ----

// c31MerkleOK walks the proof from the leaf: at each level the index parity
// says whether the running hash is the right or the left child.
func c31MerkleOK(leaf Hash, root Hash, proof []byte, index uint) bool {
	if len(proof)%32 != 0 {
		return false
	}
	if len(proof) == 0 {
		return leaf == root && index == 0
	}
	cur := leaf
	idx := index
	for off := 0; off < len(proof); off += 32 {
		node := proof[off : off+32]
		var cat []byte
		if idx%2 == 1 {
			cat = append(append(cat, node...), cur[:]...)
		} else {
			cat = append(append(cat, cur[:]...), node...)
		}
		cur = c31DSha(cat)
		idx >>= 1
	}
	return cur == root
}

// c31Verify returns ("", "") when the proof is acceptable.
func c31Verify(txid Hash, required uint, p *SpvProof) (class, msg string) {
	hs := p.BitcoinHeaders
	if len(hs)%80 != 0 || uint(len(hs)/80) != required {
		return "C31:header-count", fmt.Sprintf("proof carries %d header bytes (%d headers), required confirmations %d", len(hs), len(hs)/80, required)
	}
	for i := 1; i < len(hs)/80; i++ {
		prevHash := c31DSha(hs[(i-1)*80 : i*80])
		if !bytes.Equal(hs[i*80+4:i*80+36], prevHash[:]) {
			return "C31:headers-not-linked", fmt.Sprintf("header %d does not reference the hash of header %d", i, i-1)
		}
	}
	var root Hash
	copy(root[:], hs[36:68])
	if !c31MerkleOK(txid, root, p.MerkleProof, p.TxIndexInBlock) {
		return "C31:tx-merkle-proof-rejected", fmt.Sprintf("merkle path (len %d, index %d) from the transaction does not reach the first header's merkle root", len(p.MerkleProof)/32, p.TxIndexInBlock)
	}
	cbid := Hash(sha256.Sum256(p.CoinbasePreimage[:]))
	if !c31MerkleOK(cbid, root, p.CoinbaseProof, 0) {
		return "C31:coinbase-proof-rejected", fmt.Sprintf("sha256(coinbase preimage) with the coinbase proof (len %d) at index 0 does not reach the first header's merkle root", len(p.CoinbaseProof)/32)
	}
	if len(p.MerkleProof) != len(p.CoinbaseProof) {
		return "C31:proof-length-mismatch", fmt.Sprintf("tx proof has %d nodes, coinbase proof %d", len(p.MerkleProof)/32, len(p.CoinbaseProof)/32)
	}
	return "", ""
}

func init() { verifScenarios["C31"] = verifsim.Scenario{Bubble: false, Fn: c31Run} }

func c31Run(t *testing.T, r *verifsim.Run) {
	tp := r.T
	c := &c31SimBitcoin{r: r, where: map[Hash]uint{}, txs: map[Hash]*c31Tx{}}
	c.base = uint(1 + tp.Choose("base-height", 5)*2016 + tp.Choose("base-off", 30))
	required := uint(1 + tp.Choose("required", 8))
	mode := tp.Weighted("mode", 2, 5, 1, 3) // quiet / growth / errors / both
	growth := mode == 1 || mode == 3
	errs := mode == 2 || mode == 3

	// history: some blocks, the target's block, some confirmations on top
	before := tp.Choose("blocks-before", 4)
	for i := 0; i < before; i++ {
		c.mineByTape("pre")
	}
	tb := c.mineByTape("target-block")
	var pos int
	switch tp.Weighted("target-pos", 2, 1, 2) {
	case 0:
		pos = tp.Choose("pos-any", len(tb.txs))
	case 1:
		pos = 0 // the coinbase itself
	default:
		pos = len(tb.txs) - 1 // last leaf (the duplicated one on odd levels)
	}
	target := tb.txs[pos]
	// confirmations on top: around the requirement (below / equal / above)
	var after int
	switch tp.Weighted("depth", 4, 3, 1) {
	case 0:
		after = int(required) - 1 + tp.Choose("depth-extra", 6)
	case 1:
		after = int(required) - 1
	default:
		after = tp.Choose("depth-short", int(required)) // possibly not enough
	}
	for i := 0; i < after; i++ {
		c.mineByTape("post")
	}
	confAtStart := c.tip() - tb.height + 1
	r.Logf("cfg base=%d required=%d mode=%d target height=%d pos=%d/%d confirmations=%d", c.base, required, mode, tb.height, pos, len(tb.txs), confAtStart)
	if len(tb.txs)%2 == 1 && len(tb.txs) > 1 {
		r.Probe("odd-tree")
	}
	if pos == 0 {
		r.Probe("target-is-coinbase")
	}

	c.growth, c.errors, c.inOp = growth, errs, true
	tx, proof, err := AssembleSpvProof(target.id, required, c)
	c.inOp = false
	r.Step()

	if err != nil {
		r.Logf("result error after %d queries (mined %d during assembly)", c.nQuery, c.minedOp)
		r.Probe("assembly-error")
		if c.minedOp > 0 && !c.erredOp && confAtStart >= required {
			r.Probe("error-caused-by-growth")
		}
		if c.minedOp == 0 && !c.erredOp && confAtStart >= required {
			r.Failf("C31:fails-on-static-chain", "AssembleSpvProof failed (%v) although the transaction has %d >= %d confirmations, no block was mined and no query failed during assembly", err, confAtStart, required)
		}
		return
	}
	r.Logf("result proof headers=%d index=%d depth=%d (mined %d during assembly)", len(proof.BitcoinHeaders)/80, proof.TxIndexInBlock, len(proof.MerkleProof)/32, c.minedOp)
	r.Probe("proof-returned")
	if c.minedOp > 0 {
		r.Probe("proof-returned-despite-growth")
	}
	if tx == nil || proof == nil {
		r.Failf("C31:nil-result", "AssembleSpvProof returned no error but tx=%v proof=%v", tx != nil, proof != nil)
		return
	}
	if confAtStart < required && c.minedOp == 0 {
		r.Failf("C31:proof-without-confirmations", "a proof was returned although the transaction has only %d of %d required confirmations", confAtStart, required)
		return
	}
	if got := c31DSha(c31RawTx(tx)); got != target.id {
		r.Failf("C31:wrong-transaction", "returned transaction hashes to %s, requested %s", c31ReverseHex(got), c31ReverseHex(target.id))
		return
	}
	if class, msg := c31Verify(target.id, required, proof); class != "" {
		r.Failf(class, "independent verifier rejects the returned proof: %s (target at height %d pos %d of %d, %d blocks mined during assembly, tip %d)", msg, tb.height, pos, len(tb.txs), c.minedOp, c.tip())
		return
	}
	// ground truth: the headers are the canonical chain from the transaction's block
	for i := uint(0); i < required; i++ {
		b := c.block(tb.height + i)
		if b == nil || !bytes.Equal(proof.BitcoinHeaders[i*80:(i+1)*80], b.raw[:]) {
			r.Failf("C31:headers-not-from-tx-block", "header %d of the proof is not the canonical header at height %d (transaction's block %d)", i, tb.height+i, tb.height)
			return
		}
	}
	if proof.TxIndexInBlock != uint(pos) {
		r.Failf("C31:wrong-position", "proof states index %d, the transaction is at %d", proof.TxIndexInBlock, pos)
		return
	}
	if Hash(sha256.Sum256(proof.CoinbasePreimage[:])) != tb.txs[0].id {
		r.Failf("C31:coinbase-of-other-block", "coinbase preimage does not hash to the coinbase txid of block %d", tb.height)
		return
	}
}
