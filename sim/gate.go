package verifsim

import (
	"bytes"
	"runtime"
	"sort"
	"strconv"
	"sync"
)

// Gates turns chosen program points into scheduling points: a registered
// goroutine that reaches Point parks on a channel (a durable block, visible
// to synctest.Wait) until the simulator releases it. Goroutines that were not
// registered with Enter pass through.
type Gates struct {
	mu      sync.Mutex
	labels  map[int64]string
	parked  map[string]*parkedG
	Enabled bool
}

type parkedG struct {
	label string
	site  string
	ch    chan struct{}
}

// Parked describes one goroutine waiting at a gate.
type Parked struct {
	Label string
	Site  string
}

func NewGates() *Gates {
	return &Gates{labels: map[int64]string{}, parked: map[string]*parkedG{}, Enabled: true}
}

func goid() int64 {
	var buf [64]byte
	b := buf[:runtime.Stack(buf[:], false)]
	b = bytes.TrimPrefix(b, []byte("goroutine "))
	i := bytes.IndexByte(b, ' ')
	if i < 0 {
		return -1
	}
	n, _ := strconv.ParseInt(string(b[:i]), 10, 64)
	return n
}

// Enter registers the calling goroutine under a label unique in the run.
func (g *Gates) Enter(label string) {
	id := goid()
	g.mu.Lock()
	g.labels[id] = label
	g.mu.Unlock()
}

// Leave unregisters the calling goroutine.
func (g *Gates) Leave() {
	id := goid()
	g.mu.Lock()
	delete(g.labels, id)
	g.mu.Unlock()
}

// Label returns the label of the calling goroutine ("" if unregistered).
func (g *Gates) Label() string {
	id := goid()
	g.mu.Lock()
	defer g.mu.Unlock()
	return g.labels[id]
}

// Point parks the calling goroutine if it is registered.
func (g *Gates) Point(site string) {
	if g == nil || !g.Enabled {
		return
	}
	id := goid()
	g.mu.Lock()
	label, ok := g.labels[id]
	if !ok || !g.Enabled {
		g.mu.Unlock()
		return
	}
	p := &parkedG{label: label, site: site, ch: make(chan struct{})}
	g.parked[label] = p
	g.mu.Unlock()
	<-p.ch
}

// PointAs parks the calling goroutine under an explicit label (no Enter needed).
func (g *Gates) PointAs(label, site string) {
	if g == nil || !g.Enabled {
		return
	}
	g.mu.Lock()
	if !g.Enabled {
		g.mu.Unlock()
		return
	}
	p := &parkedG{label: label, site: site, ch: make(chan struct{})}
	g.parked[label] = p
	g.mu.Unlock()
	<-p.ch
}

// List returns the parked goroutines sorted by label (deterministic).
func (g *Gates) List() []Parked {
	g.mu.Lock()
	defer g.mu.Unlock()
	out := make([]Parked, 0, len(g.parked))
	for _, p := range g.parked {
		out = append(out, Parked{p.label, p.site})
	}
	sort.Slice(out, func(i, j int) bool { return out[i].Label < out[j].Label })
	return out
}

// Release lets the goroutine parked under label proceed.
func (g *Gates) Release(label string) {
	g.mu.Lock()
	p := g.parked[label]
	delete(g.parked, label)
	g.mu.Unlock()
	if p != nil {
		close(p.ch)
	}
}

// ReleaseAll disables the gates and releases everything (end of run).
func (g *Gates) ReleaseAll() {
	g.mu.Lock()
	g.Enabled = false
	ps := g.parked
	g.parked = map[string]*parkedG{}
	g.mu.Unlock()
	for _, p := range ps {
		close(p.ch)
	}
}
