package verifsim

import (
	"fmt"
	"sort"
	"sync"
)

// Violation is the first property violation observed in a run.
type Violation struct {
	Class string `json:"class"`
	Msg   string `json:"msg"`
}

// Run is the record of one simulated execution.
type Run struct {
	T    *Tape
	Tier string
	K    int // run index inside the batch (search mode), -1 in replay

	mu        sync.Mutex
	log       []string
	logDrop   int
	fp        uint64
	unordered uint64
	Faults    map[string]int
	Probes    map[string]int
	viol      *Violation
	inconcl   string
	SimNanos  int64 // simulated time covered
	SimBlocks int64 // simulated blocks covered
	Steps     int64 // simulator events applied
	nontriv   bool
	seq       uint64
}

const maxLog = 400

func newRun(t *Tape, tier string, k int) *Run {
	return &Run{T: t, Tier: tier, K: k, Faults: map[string]int{}, Probes: map[string]int{}, fp: 1469598103934665603}
}

// Seq returns the next global event sequence number (for history stamps).
func (r *Run) Seq() uint64 {
	r.mu.Lock()
	defer r.mu.Unlock()
	r.seq++
	return r.seq
}

// Logf appends to the ordered event log and the fingerprint. Call it only
// from serialised contexts (simulator goroutine, or a goroutine the simulator
// released alone).
func (r *Run) Logf(format string, args ...interface{}) {
	s := fmt.Sprintf(format, args...)
	r.mu.Lock()
	defer r.mu.Unlock()
	for i := 0; i < len(s); i++ {
		r.fp ^= uint64(s[i])
		r.fp *= 1099511628211
	}
	r.fp ^= 0xff
	r.fp *= 1099511628211
	if len(r.log) < maxLog {
		r.log = append(r.log, s)
	} else {
		r.logDrop++
	}
}

// LogUnordered adds an observation whose order relative to others is not
// controlled (e.g. made by concurrently running nodes). It enters the
// fingerprint commutatively and the human log only in search of a violation.
func (r *Run) LogUnordered(format string, args ...interface{}) {
	s := fmt.Sprintf(format, args...)
	h := Mix(HashString(s), 3)
	r.mu.Lock()
	defer r.mu.Unlock()
	r.unordered += h
}

// Fault counts an injected fault that actually fired.
func (r *Run) Fault(kind string) {
	r.mu.Lock()
	defer r.mu.Unlock()
	r.Faults[kind]++
	r.nontriv = true
}

// Probe counts a reach probe ("this rare condition happened").
func (r *Run) Probe(name string) {
	r.mu.Lock()
	defer r.mu.Unlock()
	r.Probes[name]++
}

// NonTrivial marks the run as non-trivial (schedule differed from the benign
// one) without counting a fault.
func (r *Run) NonTrivial() {
	r.mu.Lock()
	defer r.mu.Unlock()
	r.nontriv = true
}

// Failf records a violation (the first one wins).
func (r *Run) Failf(class string, format string, args ...interface{}) {
	r.mu.Lock()
	defer r.mu.Unlock()
	if r.viol == nil {
		r.viol = &Violation{Class: class, Msg: fmt.Sprintf(format, args...)}
	}
}

// Failed reports whether a violation was recorded.
func (r *Run) Failed() bool {
	r.mu.Lock()
	defer r.mu.Unlock()
	return r.viol != nil
}

// Inconclusive marks the run as not decided (step cap etc.). Never a violation.
func (r *Run) Inconclusive(reason string) {
	r.mu.Lock()
	defer r.mu.Unlock()
	if r.inconcl == "" {
		r.inconcl = reason
	}
}

func (r *Run) AddSim(nanos, blocks int64) {
	r.mu.Lock()
	defer r.mu.Unlock()
	r.SimNanos += nanos
	r.SimBlocks += blocks
}

func (r *Run) Step() {
	r.mu.Lock()
	r.Steps++
	r.mu.Unlock()
}

func (r *Run) fingerprint() uint64 {
	r.mu.Lock()
	defer r.mu.Unlock()
	return Mix(r.fp, r.unordered)
}

func (r *Run) logCopy() []string {
	r.mu.Lock()
	defer r.mu.Unlock()
	out := append([]string(nil), r.log...)
	if r.logDrop > 0 {
		out = append(out, fmt.Sprintf("... %d more events", r.logDrop))
	}
	return out
}

// SortedKeys is a helper for deterministic iteration over a string-keyed map.
func SortedKeys[V any](m map[string]V) []string {
	ks := make([]string, 0, len(m))
	for k := range m {
		ks = append(ks, k)
	}
	sort.Strings(ks)
	return ks
}
