module verifsim

go 1.20
