package verifsim

import (
	"encoding/json"
	"fmt"
	"os"
	"path/filepath"
	"regexp"
	"runtime"
	"runtime/debug"
	"sort"
	"strconv"
	"strings"
	"testing"
	"testing/synctest"
	"time"
)

// Scenario is one property's simulated workload + oracle.
type Scenario struct {
	// Bubble runs Fn inside a testing/synctest bubble (fake clock, quiescence).
	Bubble bool
	Fn     func(t *testing.T, r *Run)
	// MinBudget caps the number of re-runs spent on minimising one violation.
	MinBudget int
}

// ReplayFile is the on-disk form of a violation (and of its replay input).
type ReplayFile struct {
	Property    string   `json:"property"`
	Pkg         string   `json:"pkg,omitempty"`
	Scenario    string   `json:"scenario,omitempty"`
	Seed        uint64   `json:"seed"`
	K           int      `json:"k"`
	Tier        string   `json:"tier"`
	Class       string   `json:"class"`
	Msg         string   `json:"msg"`
	Decisions   []int    `json:"decisions"`
	Labels      []string `json:"labels,omitempty"`
	OriginalLen int      `json:"original_len"`
	Minimised   bool     `json:"minimised"`
	MinReruns   int      `json:"min_reruns"`
	Fingerprint string   `json:"fingerprint"`
	Log         []string `json:"log"`
	Crash       bool     `json:"crash,omitempty"`
	FlakyReplay bool     `json:"flaky_replay,omitempty"`
	// RangeFrom, when set, makes the replay execute the runs RangeFrom..K of
	// the seeded search in one process and judge run K: for violations that
	// depend on state the code under test keeps per process (package-level
	// caches) and therefore do not reproduce from run K's decisions alone.
	RangeFrom *int `json:"range_from,omitempty"`
}

type sample struct {
	K         int            `json:"k"`
	Decisions []string       `json:"decisions"`
	Log       []string       `json:"log"`
	Faults    map[string]int `json:"faults,omitempty"`
}

type violRec struct {
	From   int    `json:"from"`
	K      int    `json:"k"`
	Class  string `json:"class"`
	Msg    string `json:"msg"`
	Replay string `json:"replay"`
	Known  bool   `json:"known"`
}

type result struct {
	Prop         string         `json:"prop"`
	Seed         uint64         `json:"seed"`
	From         int            `json:"from"`
	To           int            `json:"to"`
	Done         int            `json:"done"`
	Inconclusive map[string]int `json:"inconclusive"`
	Faults       map[string]int `json:"faults"`
	Probes       map[string]int `json:"probes"`
	SimNanos     int64          `json:"sim_ns"`
	SimBlocks    int64          `json:"sim_blocks"`
	Steps        int64          `json:"steps"`
	Decisions    int64          `json:"decisions"`
	FPs          []string       `json:"fps"`
	TrivialFPs   []string       `json:"trivial_fps"`
	Samples      []sample       `json:"samples"`
	Violations   []violRec      `json:"violations"`
	KnownHits    map[string]int `json:"known_hits"`
	WallS        float64        `json:"wall_s"`
	Complete     bool           `json:"complete"`
}

func envInt(name string, def int) int {
	if v := os.Getenv(name); v != "" {
		if n, err := strconv.Atoi(v); err == nil {
			return n
		}
	}
	return def
}

func envU64(name string, def uint64) uint64 {
	if v := os.Getenv(name); v != "" {
		if n, err := strconv.ParseUint(v, 10, 64); err == nil {
			return n
		}
		if n, err := strconv.ParseInt(v, 10, 64); err == nil {
			return uint64(n)
		}
	}
	return def
}

// topRepoFrame extracts the first stack frame that lies in keep-core (not in
// a harness file, not in the runtime) to make panic classes site-specific.
func topRepoFrame(stack string) string {
	lines := strings.Split(stack, "\n")
	for i := 0; i+1 < len(lines); i++ {
		fn := lines[i]
		loc := strings.TrimSpace(lines[i+1])
		if !strings.HasPrefix(lines[i+1], "\t") {
			continue
		}
		if strings.Contains(fn, "keep-network/keep-co") && !strings.Contains(loc, "zz_verif") && !strings.Contains(loc, "verifadapt") && !strings.Contains(loc, "/verif/") {
			// function name without args
			if j := strings.LastIndex(fn, "("); j > 0 {
				fn = fn[:j]
			}
			if j := strings.LastIndex(fn, "/"); j >= 0 {
				fn = fn[j+1:]
			}
			return fn
		}
	}
	return "unknown"
}

// execute runs the scenario once.
func execute(t *testing.T, sc Scenario, r *Run) {
	body := func(t *testing.T) {
		defer func() {
			if p := recover(); p != nil {
				st := string(debug.Stack())
				r.Failf("panic:"+topRepoFrame(st), "panic: %v\n%s", p, trimStack(st))
			}
		}()
		sc.Fn(t, r)
	}
	if !sc.Bubble {
		body(t)
		return
	}
	func() {
		defer func() {
			if p := recover(); p != nil {
				s := fmt.Sprint(p)
				if strings.Contains(s, "blocked goroutines remain") || strings.Contains(s, "deadlock") {
					return // goroutines keep-core leaves behind; expected
				}
				r.Failf("panic:bubble", "panic escaping bubble: %v", p)
			}
		}()
		synctest.Test(t, body)
	}()
}

func trimStack(s string) string {
	lines := strings.Split(s, "\n")
	if len(lines) > 40 {
		lines = lines[:40]
	}
	return strings.Join(lines, "\n")
}

type outcome struct {
	class string
	msg   string
	run   *Run
}

func runOnce(t *testing.T, sc Scenario, tape *Tape, tier string, k int) outcome {
	r := newRun(tape, tier, k)
	execute(t, sc, r)
	o := outcome{run: r}
	if r.viol != nil {
		o.class, o.msg = r.viol.Class, r.viol.Msg
	}
	return o
}

// minimise shrinks a failing decision list while the same violation class
// persists. Returns the list and the number of re-runs used.
func minimise(t *testing.T, sc Scenario, tier string, vals []int, class string, budget int) ([]int, int) {
	used := 0
	fails := func(c []int) bool {
		if used >= budget {
			return false
		}
		used++
		o := runOnce(t, sc, NewReplayTape(c), tier, -1)
		return o.class == class
	}
	cur := append([]int(nil), vals...)
	// drop trailing zeros (implicit)
	trim := func(c []int) []int {
		for len(c) > 0 && c[len(c)-1] == 0 {
			c = c[:len(c)-1]
		}
		return c
	}
	cur = trim(cur)
	// 1. tail truncation by binary search
	lo, hi := 0, len(cur)
	for lo < hi && used < budget {
		mid := (lo + hi) / 2
		if fails(cur[:mid]) {
			hi = mid
		} else {
			lo = mid + 1
		}
	}
	if hi < len(cur) && fails(cur[:hi]) {
		cur = trim(append([]int(nil), cur[:hi]...))
	}
	// 2. zero blocks (ddmin-like)
	for size := len(cur) / 2; size >= 1 && used < budget; size /= 2 {
		for start := 0; start < len(cur) && used < budget; start += size {
			end := start + size
			if end > len(cur) {
				end = len(cur)
			}
			allZero := true
			for _, v := range cur[start:end] {
				if v != 0 {
					allZero = false
					break
				}
			}
			if allZero {
				continue
			}
			cand := append([]int(nil), cur...)
			for i := start; i < end; i++ {
				cand[i] = 0
			}
			if fails(cand) {
				cur = cand
			}
		}
	}
	cur = trim(cur)
	// 3. reduce individual values towards 0
	for i := 0; i < len(cur) && used < budget; i++ {
		for cur[i] > 1 && used < budget {
			cand := append([]int(nil), cur...)
			cand[i] = cur[i] / 2
			if fails(cand) {
				cur = cand
			} else {
				cand[i] = cur[i] - 1
				if fails(cand) {
					cur = cand
				} else {
					break
				}
			}
		}
	}
	return trim(cur), used
}

func sanitize(s string) string {
	re := regexp.MustCompile(`[^A-Za-z0-9_.-]+`)
	s = re.ReplaceAllString(s, "_")
	if len(s) > 60 {
		s = s[:60]
	}
	return s
}

func decStrings(ds []Decision, max int) []string {
	out := []string{}
	for i, d := range ds {
		if i >= max {
			out = append(out, fmt.Sprintf("... %d more", len(ds)-max))
			break
		}
		out = append(out, fmt.Sprintf("%s/%d=%d", d.L, d.N, d.V))
	}
	return out
}

// Main is the entry point every harness test function delegates to.
func Main(t *testing.T, scenarios map[string]Scenario) {
	prop := os.Getenv("VERIF_PROP")
	if prop == "" {
		t.Skip("VERIF_PROP not set")
	}
	sc, ok := scenarios[prop]
	if !ok {
		t.Skipf("no scenario %s in this package", prop)
	}
	if sc.MinBudget == 0 {
		sc.MinBudget = 150
	}
	if b := envInt("VERIF_MINBUDGET", -1); b >= 0 {
		sc.MinBudget = b
	}
	tier := os.Getenv("VERIF_TIER")
	if tier == "" {
		tier = "quick"
	}
	mode := os.Getenv("VERIF_MODE")
	switch mode {
	case "replay":
		mainReplay(t, prop, sc)
	default:
		mainSearch(t, prop, sc, tier)
	}
}

func mainReplay(t *testing.T, prop string, sc Scenario) {
	path := os.Getenv("VERIF_REPLAY")
	b, err := os.ReadFile(path)
	if err != nil {
		fmt.Printf("REPLAY-ERROR cannot read %s: %v\n", path, err)
		os.Exit(2)
	}
	var rf ReplayFile
	if err := json.Unmarshal(b, &rf); err != nil {
		fmt.Printf("REPLAY-ERROR bad replay file: %v\n", err)
		os.Exit(2)
	}
	if rf.RangeFrom != nil {
		var o outcome
		for k := *rf.RangeFrom; k <= rf.K; k++ {
			o = runOnce(t, sc, NewSearchTape(Mix(Mix(rf.Seed, HashString(prop)), uint64(k))), rf.Tier, k)
		}
		if o.class == "" {
			fmt.Printf("REPLAY-RESULT none fp=%016x\n", o.run.fingerprint())
		} else {
			fmt.Printf("REPLAY-RESULT class=%s fp=%016x\n", o.class, o.run.fingerprint())
			fmt.Printf("REPLAY-MSG %s\n", strings.ReplaceAll(o.msg, "\n", "\n    "))
		}
		return
	}
	var tape *Tape
	if rf.Decisions == nil {
		tape = NewSearchTape(Mix(Mix(rf.Seed, HashString(prop)), uint64(rf.K)))
	} else {
		tape = NewReplayTape(rf.Decisions)
	}
	if p := os.Getenv("VERIF_TAPELOG"); p != "" {
		f, err := os.Create(p)
		if err == nil {
			tape.logFile = f
			defer f.Close()
		}
	}
	o := runOnce(t, sc, tape, rf.Tier, rf.K)
	for attempt := 0; attempt < 5 && rf.Decisions != nil && rf.Class != "" && o.class != rf.Class; attempt++ {
		o = runOnce(t, sc, NewReplayTape(rf.Decisions), rf.Tier, rf.K)
	}
	if os.Getenv("VERIF_VERBOSE") != "" {
		for _, l := range o.run.logCopy() {
			fmt.Println("  |", l)
		}
	}
	if o.class == "" {
		fmt.Printf("REPLAY-RESULT none fp=%016x\n", o.run.fingerprint())
	} else {
		fmt.Printf("REPLAY-RESULT class=%s fp=%016x\n", o.class, o.run.fingerprint())
		fmt.Printf("REPLAY-MSG %s\n", strings.ReplaceAll(o.msg, "\n", "\n    "))
	}
}

func mainSearch(t *testing.T, prop string, sc Scenario, tier string) {
	seed := envU64("VERIF_SEED", 1)
	from := envInt("VERIF_FROM", 0)
	to := envInt("VERIF_TO", 10)
	out := os.Getenv("VERIF_OUT")
	replayDir := os.Getenv("VERIF_REPLAY_DIR")
	maxViol := envInt("VERIF_MAXVIOL", 1)
	deadline := time.Now().Add(time.Duration(envInt("VERIF_DEADLINE_S", 36000)) * time.Second)
	fpOnly := os.Getenv("VERIF_FPDUMP") // selftest: dump k -> fp
	var known []*regexp.Regexp
	if ks := os.Getenv("VERIF_KNOWN"); ks != "" {
		var pats []string
		if err := json.Unmarshal([]byte(ks), &pats); err == nil {
			for _, p := range pats {
				if re, err := regexp.Compile(p); err == nil {
					known = append(known, re)
				}
			}
		}
	}
	res := result{Prop: prop, Seed: seed, From: from, To: to,
		Inconclusive: map[string]int{}, Faults: map[string]int{}, Probes: map[string]int{}, KnownHits: map[string]int{}}
	fps := map[uint64]bool{}
	tfps := map[uint64]bool{}
	start := time.Now()
	var fpDump *os.File
	if fpOnly != "" {
		fpDump, _ = os.Create(fpOnly)
		defer fpDump.Close()
	}
	write := func() {
		res.WallS = time.Since(start).Seconds()
		res.FPs = res.FPs[:0]
		for f := range fps {
			res.FPs = append(res.FPs, fmt.Sprintf("%016x", f))
		}
		sort.Strings(res.FPs)
		res.TrivialFPs = res.TrivialFPs[:0]
		for f := range tfps {
			res.TrivialFPs = append(res.TrivialFPs, fmt.Sprintf("%016x", f))
		}
		sort.Strings(res.TrivialFPs)
		if out == "" {
			return
		}
		b, _ := json.Marshal(&res)
		tmp := out + ".tmp"
		if err := os.WriteFile(tmp, b, 0o644); err == nil {
			os.Rename(tmp, out)
		}
	}
	unknownViol := 0
	seenKnownClass := map[string]bool{}
	for k := from; k < to; k++ {
		if time.Now().After(deadline) {
			break
		}
		if out != "" {
			os.WriteFile(out+".cur", []byte(strconv.Itoa(k)), 0o644)
		}
		tape := NewSearchTape(Mix(Mix(seed, HashString(prop)), uint64(k)))
		o := runOnce(t, sc, tape, tier, k)
		r := o.run
		res.Done++
		res.SimNanos += r.SimNanos
		res.SimBlocks += r.SimBlocks
		res.Steps += r.Steps
		res.Decisions += int64(tape.Count())
		for kk, v := range r.Faults {
			res.Faults[kk] += v
		}
		for kk, v := range r.Probes {
			res.Probes[kk] += v
		}
		if r.inconcl != "" {
			res.Inconclusive[r.inconcl]++
		}
		fp := r.fingerprint()
		if fpDump != nil {
			fmt.Fprintf(fpDump, "%d %016x %s\n", k, fp, o.class)
		}
		if r.nontriv {
			fps[fp] = true
		} else {
			tfps[fp] = true
		}
		if len(res.Samples) < 3 && (r.nontriv || len(res.Samples) == 0) {
			lg := r.logCopy()
			if len(lg) > 40 {
				lg = append(lg[:40], "...")
			}
			res.Samples = append(res.Samples, sample{K: k, Decisions: decStrings(tape.Decisions(), 60), Log: lg, Faults: r.Faults})
		}
		if o.class != "" {
			isKnown := false
			for _, re := range known {
				if re.MatchString(o.class) {
					isKnown = true
					break
				}
			}
			if isKnown {
				res.KnownHits[o.class]++
				if seenKnownClass[o.class] {
					continue
				}
				seenKnownClass[o.class] = true
			}
			vals := tape.Values()
			rf := ReplayFile{Property: prop, Scenario: prop, Pkg: os.Getenv("VERIF_PKG"), Seed: seed, K: k, Tier: tier, Class: o.class, Msg: o.msg,
				Decisions: vals, OriginalLen: len(vals)}
			if id := os.Getenv("VERIF_PROPERTY_ID"); id != "" {
				rf.Property = id
			}
			if tape.Over {
				// decision list was truncated: replay from the seed instead
				rf.Decisions = nil
			} else if sc.MinBudget > 0 {
				minVals, used := minimise(t, sc, tier, vals, o.class, sc.MinBudget)
				// confirm
				oc := runOnce(t, sc, NewReplayTape(minVals), tier, -1)
				for attempt := 0; attempt < 3 && oc.class != o.class; attempt++ {
					oc = runOnce(t, sc, NewReplayTape(minVals), tier, -1)
				}
				if oc.class == o.class {
					rf.Decisions = minVals
					rf.Minimised = true
					rf.MinReruns = used
					rf.Msg = oc.msg
					o = oc
				}
			}
			if rf.Decisions != nil {
				// final in-process confirmation + labels + log of the replayed run
				rt := NewReplayTape(rf.Decisions)
				oc := runOnce(t, sc, rt, tier, -1)
				// a violation whose manifestation depends on something the tape
				// cannot pin inside the code under test (Go map iteration order)
				// may need several attempts; it is reported only if it reproduces
				for attempt := 0; attempt < 4 && oc.class != o.class; attempt++ {
					rt = NewReplayTape(rf.Decisions)
					oc = runOnce(t, sc, rt, tier, -1)
					rf.FlakyReplay = true
				}
				if oc.class != o.class {
					// not reproducible from its own decision list: harness
					// nondeterminism. Report as such; driver turns it into exit 2.
					rf.Class = "NONREPRO:" + o.class
				} else {
					ds := rt.Decisions()
					for i, d := range ds {
						if i >= len(rf.Decisions) {
							break
						}
						rf.Labels = append(rf.Labels, fmt.Sprintf("%s/%d", d.L, d.N))
					}
					rf.Log = oc.run.logCopy()
					rf.Fingerprint = fmt.Sprintf("%016x", oc.run.fingerprint())
				}
			}
			path := ""
			if replayDir != "" {
				os.MkdirAll(replayDir, 0o755)
				path = filepath.Join(replayDir, fmt.Sprintf("%s-%d-%d-%s.json", prop, seed, k, sanitize(o.class)))
				b, _ := json.MarshalIndent(&rf, "", " ")
				os.WriteFile(path, b, 0o644)
			}
			res.Violations = append(res.Violations, violRec{From: from, K: k, Class: rf.Class, Msg: firstLines(o.msg, 6), Replay: path, Known: isKnown})
			if !isKnown {
				unknownViol++
				if unknownViol >= maxViol {
					write()
					break
				}
			}
		}
		if k%50 == 49 {
			write()
			runtime.GC()
		}
	}
	res.Complete = true
	write()
	if out != "" {
		os.Remove(out + ".cur")
	}
}

func firstLines(s string, n int) string {
	l := strings.Split(s, "\n")
	if len(l) > n {
		l = l[:n]
	}
	return strings.Join(l, "\n")
}
