// Package verifsim is the keep-core-independent kernel of the deterministic
// simulator: the decision tape, the run record, gates, the worker main loop
// (search / replay / minimise) and the report format read by bin/check.
package verifsim

import (
	"fmt"
	"os"
	"sync"
)

// Decision is one recorded choice.
type Decision struct {
	L string `json:"l"`
	N int    `json:"n"`
	V int    `json:"v"`
}

// Tape is the only source of choices in a run. Value 0 is, by convention,
// the benign choice. In search mode values come from a PRNG; in replay mode
// from a list (exhausted list => 0).
type Tape struct {
	mu      sync.Mutex
	s       uint64
	replay  []int
	isRep   bool
	pos     int
	rec     []Decision
	logFile *os.File
	limit   int
	Over    bool // more than limit decisions were drawn
}

func splitmix(x *uint64) uint64 {
	*x += 0x9e3779b97f4a7c15
	z := *x
	z = (z ^ (z >> 30)) * 0xbf58476d1ce4e5b9
	z = (z ^ (z >> 27)) * 0x94d049bb133111eb
	return z ^ (z >> 31)
}

// Mix derives a sub-seed.
func Mix(a uint64, b uint64) uint64 {
	x := a ^ (b * 0x9e3779b97f4a7c15) ^ 0x51ed270b27b4f3cf
	splitmix(&x)
	return splitmix(&x)
}

// HashString is FNV-1a 64.
func HashString(s string) uint64 {
	h := uint64(1469598103934665603)
	for i := 0; i < len(s); i++ {
		h ^= uint64(s[i])
		h *= 1099511628211
	}
	return h
}

func NewSearchTape(seed uint64) *Tape {
	return &Tape{s: seed, limit: 200000}
}

func NewReplayTape(vals []int) *Tape {
	return &Tape{replay: vals, isRep: true, limit: 200000}
}

// Choose returns a value in [0,n). n<=1 returns 0 without recording.
func (t *Tape) Choose(label string, n int) int {
	if n <= 1 {
		return 0
	}
	t.mu.Lock()
	defer t.mu.Unlock()
	var v int
	if t.isRep {
		if t.pos < len(t.replay) {
			v = t.replay[t.pos]
			if v < 0 {
				v = 0
			}
			v %= n
		}
	} else {
		v = int(splitmix(&t.s) % uint64(n))
	}
	t.pos++
	if len(t.rec) < t.limit {
		t.rec = append(t.rec, Decision{label, n, v})
	} else {
		t.Over = true
	}
	if t.logFile != nil {
		fmt.Fprintf(t.logFile, "%d\n", v)
	}
	return v
}

// Chance is true with probability num/den; recorded as 0 (false) / 1 (true).
func (t *Tape) Chance(label string, num, den int) bool {
	if num <= 0 {
		return false
	}
	t.mu.Lock()
	defer t.mu.Unlock()
	v := 0
	if t.isRep {
		if t.pos < len(t.replay) && t.replay[t.pos] != 0 {
			v = 1
		}
	} else if int(splitmix(&t.s)%uint64(den)) < num {
		v = 1
	}
	t.pos++
	if len(t.rec) < t.limit {
		t.rec = append(t.rec, Decision{label, 2, v})
	} else {
		t.Over = true
	}
	if t.logFile != nil {
		fmt.Fprintf(t.logFile, "%d\n", v)
	}
	return v == 1
}

// Weighted returns index i with probability w[i]/sum(w); index 0 should be the
// benign outcome.
func (t *Tape) Weighted(label string, w ...int) int {
	sum := 0
	for _, x := range w {
		sum += x
	}
	if sum <= 0 || len(w) <= 1 {
		return 0
	}
	t.mu.Lock()
	defer t.mu.Unlock()
	v := 0
	if t.isRep {
		if t.pos < len(t.replay) {
			v = t.replay[t.pos]
			if v < 0 {
				v = 0
			}
			v %= len(w)
		}
	} else {
		r := int(splitmix(&t.s) % uint64(sum))
		for i, x := range w {
			if r < x {
				v = i
				break
			}
			r -= x
		}
	}
	t.pos++
	if len(t.rec) < t.limit {
		t.rec = append(t.rec, Decision{label, len(w), v})
	} else {
		t.Over = true
	}
	if t.logFile != nil {
		fmt.Fprintf(t.logFile, "%d\n", v)
	}
	return v
}

// Range returns a value in [lo,hi].
func (t *Tape) Range(label string, lo, hi int) int {
	if hi <= lo {
		return lo
	}
	return lo + t.Choose(label, hi-lo+1)
}

// Bytes returns n pseudo-random bytes derived from ONE recorded decision.
func (t *Tape) Bytes(label string, n int) []byte {
	sub := uint64(t.Choose(label, 1<<30))
	x := Mix(sub, HashString(label))
	out := make([]byte, n)
	for i := 0; i < n; i += 8 {
		v := splitmix(&x)
		for j := 0; j < 8 && i+j < n; j++ {
			out[i+j] = byte(v >> (8 * j))
		}
	}
	return out
}

// Uint64 returns a pseudo-random value from one recorded decision.
func (t *Tape) Uint64(label string) uint64 {
	sub := uint64(t.Choose(label, 1<<30))
	x := Mix(sub, 77)
	return splitmix(&x)
}

// Perm returns a permutation of [0,n); identity when all decisions are 0.
func (t *Tape) Perm(label string, n int) []int {
	p := make([]int, n)
	for i := range p {
		p[i] = i
	}
	for i := 0; i < n-1; i++ {
		j := i + t.Choose(label, n-i)
		p[i], p[j] = p[j], p[i]
	}
	return p
}

// Values returns the recorded decision values.
func (t *Tape) Values() []int {
	t.mu.Lock()
	defer t.mu.Unlock()
	out := make([]int, len(t.rec))
	for i, d := range t.rec {
		out[i] = d.V
	}
	return out
}

// Decisions returns a copy of the recorded decisions.
func (t *Tape) Decisions() []Decision {
	t.mu.Lock()
	defer t.mu.Unlock()
	return append([]Decision(nil), t.rec...)
}

// Count is the number of decisions drawn so far.
func (t *Tape) Count() int {
	t.mu.Lock()
	defer t.mu.Unlock()
	return t.pos
}
